import PytypeModel.Proofs.MatcherGuard

/-! Class-level part (`top`) of views: annotations without parameters decide the same way on all views. -/
namespace PytypeModel.Sem

/-- the class-level part of a view (parameters erased) -/
def VTy.top : VTy → VTy
  | .cont c _ => .cont c .nothing
  | .dict _ _ => .dict .nothing .nothing
  | .tuple _ => .tuple []
  | w => w

/-- the class-level part of all views of an abstract value -/
def ATy.top : ATy → VTy
  | .scal s => .scal s
  | .inst k => .inst k
  | .clsobj k => .clsobj k
  | .bclsobj b => .bclsobj b
  | .func => .func
  | .cont c _ => .cont c .nothing
  | .dict _ _ => .dict .nothing .nothing
  | .tuple _ => .tuple []

theorem top_of_mem_views {t : ATy} {w : VTy} (h : w ∈ views t) : w.top = t.top := by
  cases t with
  | scal s => simp [views] at h; subst h; rfl
  | inst k => simp [views] at h; subst h; rfl
  | clsobj k => simp [views] at h; subst h; rfl
  | bclsobj k => simp [views] at h; subst h; rfl
  | func => simp [views] at h; subst h; rfl
  | cont c ps =>
    simp only [views, List.mem_map] at h
    obtain ⟨p, _, rfl⟩ := h; rfl
  | dict ks vs =>
    simp only [views, List.mem_flatMap, List.mem_map] at h
    obtain ⟨k, _, v, _, rfl⟩ := h; rfl
  | tuple es =>
    simp only [views, List.mem_map] at h
    obtain ⟨p, _, rfl⟩ := h; rfl

theorem top_ne_nothing_of_mem_views {t : ATy} {w : VTy} (h : w ∈ views t) : w ≠ .nothing := by
  intro hw
  have := top_of_mem_views h
  subst hw
  cases t <;> simp [VTy.top, ATy.top] at this

theorem matchBase_top (w : VTy) (b : Base) : matchBase w b = matchBase w.top b := by
  cases w <;> rfl

theorem matchV_flat_top (H : Hierarchy) {a : Ann} (ha : a.flat = true) (w : VTy) (hw : w ≠ .nothing) :
    matchV H w a = matchV H w.top a := by
  cases a with
  | base b => cases w <;> first | exact absurd rfl hw | rfl
  | cls k => cases w <;> first | exact absurd rfl hw | rfl
  | typeC k => cases w <;> first | exact absurd rfl hw | rfl
  | typeU ks bs => cases w <;> first | exact absurd rfl hw | rfl
  | _ => simp [Ann.flat] at ha

/-- a flat annotation decides the same way on all views of a value -/
theorem matchV_flat_const (H : Hierarchy) {a : Ann} (ha : a.flat = true) {t : ATy} {w w' : VTy}
    (hw : w ∈ views t) (hw' : w' ∈ views t) : matchV H w a = matchV H w' a := by
  rw [matchV_flat_top H ha w (top_ne_nothing_of_mem_views hw),
    matchV_flat_top H ha w' (top_ne_nothing_of_mem_views hw'), top_of_mem_views hw, top_of_mem_views hw']

theorem matchNone_const {t : ATy} {w : VTy} (hw : w ∈ views t) : matchBase w .none = matchBase t.top .none := by
  rw [matchBase_top, top_of_mem_views hw]

theorem matchNone_exact (v : Val) : matchBase (abs v).top .none = memBase v .none := by
  cases v <;> first | rfl | decide

end PytypeModel.Sem
