import PytypeModel.Proofs.MatcherTop

/-! Exactness for annotations without parameters and for `Optional`. -/
namespace PytypeModel.Sem

theorem matchAny_iff (H : Hierarchy) (w : VTy) (as : List Ann) :
    matchAny H w as = true ↔ ∃ a, a ∈ as ∧ matchV H w a = true := by
  induction as with
  | nil => simp [matchAny]
  | cons a as ih => simp [matchAny, ih]

theorem memberAny_iff (H : Hierarchy) (v : Val) (as : List Ann) :
    memberAny H v as = true ↔ ∃ a, a ∈ as ∧ member H v a = true := by
  induction as with
  | nil => simp [memberAny]
  | cons a as ih => simp [memberAny, ih]

/-- exactness of the all-views decision for one annotation (all values inside the guard) -/
def Exact (H : Hierarchy) (a : Ann) : Prop :=
  ∀ v, Guard v a = true → ((∀ w, w ∈ views (abs v) → matchV H w a = true) ↔ member H v a = true)

theorem flat_forall (H : Hierarchy) {a : Ann} (ha : a.flat = true) (t : ATy) :
    (∀ w, w ∈ views t → matchV H w a = true) ↔ ∀ w, w ∈ views t → matchV H w.top a = true := by
  constructor
  · intro h w hw
    rw [← matchV_flat_top H ha w (top_ne_nothing_of_mem_views hw)]; exact h w hw
  · intro h w hw
    rw [matchV_flat_top H ha w (top_ne_nothing_of_mem_views hw)]; exact h w hw

theorem forall_top (t : ATy) (f : VTy → Prop) : (∀ w, w ∈ views t → f w.top) ↔ f t.top := by
  constructor
  · intro h
    obtain ⟨w, hw⟩ := exists_view t
    rw [← top_of_mem_views hw]; exact h w hw
  · intro h w hw
    rw [top_of_mem_views hw]; exact h

theorem exact_base (H : Hierarchy) (b : Base) : Exact H (.base b) := by
  intro v hG
  rw [flat_forall H rfl, forall_top (abs v) (fun w => matchV H w (.base b) = true)]
  cases v <;> cases b <;> first | rfl | decide | (simp [Guard, Val.allSub, Ann.allSub, Val.notNone, Ann.notBool] at hG)

theorem exact_cls (H : Hierarchy) (k : Nat) : Exact H (.cls k) := by
  intro v _
  rw [flat_forall H rfl, forall_top (abs v) (fun w => matchV H w (.cls k) = true)]
  cases v <;> simp [abs, ATy.top, matchV, member]

theorem exact_typeC (H : Hierarchy) (k : Nat) : Exact H (.typeC k) := by
  intro v _
  rw [flat_forall H rfl, forall_top (abs v) (fun w => matchV H w (.typeC k) = true)]
  cases v <;> simp [abs, ATy.top, matchV, member]

theorem fromMro_promotes (b : Nat) (s : Scal) (hs : scalOfB b = some s) (t : Scal) :
    fromMro s t = clsPromotes s t := by
  have : s = .int ∨ s = .float ∨ s = .bool := by
    unfold scalOfB at hs
    split at hs <;> simp_all
  rcases this with rfl | rfl | rfl <;> cases t <;> decide

theorem exact_typeU (H : Hierarchy) (ks : List Nat) (bs : List Scal) : Exact H (.typeU ks bs) := by
  intro v _
  rw [flat_forall H rfl, forall_top (abs v) (fun w => matchV H w (.typeU ks bs) = true)]
  cases v with
  | bclsobj b =>
    simp only [abs, ATy.top, matchV, member, matchTypeU, memTypeU]
    cases hb : scalOfB b with
    | none => simp
    | some s =>
      have := fromMro_promotes b s hb
      simp [this]
  | _ => simp [abs, ATy.top, matchV, member, matchTypeU, memTypeU]

theorem matchV_opt (H : Hierarchy) (w : VTy) (a : Ann) (hw : w ≠ .nothing) :
    matchV H w (.opt a) = (matchV H w a || matchBase w .none) := by
  cases w <;> first | exact absurd rfl hw | simp [matchV]

theorem exact_opt (H : Hierarchy) (a : Ann) (ih : Exact H a) : Exact H (.opt a) := by
  intro v hG
  have hGa : Guard v a = true := Guard.step (ValStep.refl v) (AnnStep.opt a) hG
  have key : ∀ w, w ∈ views (abs v) →
      matchV H w (.opt a) = (matchV H w a || memBase v .none) := by
    intro w hw
    rw [matchV_opt H w a (top_ne_nothing_of_mem_views hw), matchNone_const hw, matchNone_exact]
  simp only [member, Bool.or_eq_true]
  constructor
  · intro h
    cases hn : memBase v .none with
    | true => exact Or.inr rfl
    | false =>
      refine Or.inl ((ih v hGa).1 fun w hw => ?_)
      have := h w hw
      rw [key w hw, hn] at this
      simpa using this
  · rintro (h | h) w hw
    · rw [key w hw, (ih v hGa).2 h w hw]; rfl
    · rw [key w hw, h]; simp

end PytypeModel.Sem
