/-
C11 proofs, part 10: `remove_mutable=True`.  Everything up to (not including) `visitors.AdjustSelf`
widens; AdjustSelf only re-annotates a receiver (`self` / `cls`) whose type is `Any`.
-/
import PytypeModel.Proofs.OptimizeExact

namespace PytypeModel.Pytd

variable {S : Sem}

theorem stageB_kok (o : Opts) (H : Hier) (u : TUnit) (hk : UnitKok u) : UnitKok (stageB o H u) := by
  unfold stageB
  split
  · have k1 : UnitKok _ := tyPass_all (suws H) kok (suws_kok H) u hk
    simp only
    split
    · exact tyPass_all (fcs H) kok (fcs_kok H) _ k1
    · exact k1
  · exact hk

theorem passAdjust_kok (u : TUnit) (hk : UnitKok u) : UnitKok (passAdjust.runUnit u) :=
  runUnit_all passAdjust kok (fun _ h => h) (fun t h => adjustGeneric_kok t h) (fun t h => adjustGeneric_kok t h)
    (fun _ _ h => h) (fun _ _ h => h) (fun _ _ h => h) u hk

theorem stageC_kok (o : Opts) (u : TUnit) (hk : UnitKok u) : UnitKok (stageC o u) := by
  unfold stageC
  simp only
  split
  · exact passAdjust_kok _ (tyPass_all (collapse o.maxUnion) kok (collapse_kok _) u hk)
  · exact passAdjust_kok _ hk

theorem absorbParam_kok (p : Param) (h : ∀ t, t ∈ p.tys → kok t = true) : ∀ t, t ∈ (absorbParam p).tys → kok t = true := by
  unfold absorbParam
  split
  · exact h
  · rename_i m hm
    intro t ht
    simp only [Param.tys, Option.toList, List.mem_cons, List.not_mem_nil, or_false] at ht
    subst ht
    apply kok_joinTypes
    simp only [kokList, Bool.and_true, Bool.and_eq_true]
    exact ⟨h _ (by simp [Param.tys]), h m (by simp [Param.tys, hm])⟩

theorem passAbsorb_kok (u : TUnit) (hk : UnitKok u) : UnitKok (passAbsorb.runUnit u) :=
  runUnit_all passAbsorb kok (fun _ h => h) (fun _ h => h) (fun _ h => h) (fun _ p h => absorbParam_kok p h)
    (fun _ _ h => h) (fun _ _ h => h) u hk

theorem passAbsorb_le (u : TUnit) : UnitLe S u (passAbsorb.runUnit u) :=
  runUnit_le passAbsorb (fun _ => true) (fun t _ => TyLe.refl S t) (fun t => TyLe.refl S t) (fun t => TyLe.refl S t)
    (fun _ p => absorbParam_le p) (fun _ s => SigLe.refl s) (fun _ f => FuncLe.refl f) u (fun _ _ => rfl)

theorem passMergeTypeParams_le (u : TUnit) : UnitLe S u (passMergeTypeParams.runUnit u) :=
  runUnit_le passMergeTypeParams (fun _ => true) (fun t _ => TyLe.refl S t) (fun t => TyLe.refl S t)
    (fun t => TyLe.refl S t) (fun _ p => ParamLe.refl p) (fun c s => mergeTypeParamsSig_le c s)
    (fun _ f => FuncLe.refl f) u (fun _ _ => rfl)

theorem stageD1_le (o : Opts) (u : TUnit) (hk : UnitKok u) : UnitLe S u (stageD1 o u) := by
  unfold stageD1
  split
  · have l1 := passAbsorb_le (S := S) u
    have k1 := passAbsorb_kok u hk
    have l2 := tyPass_le (S := S) combineContainers kok (fun t h => combineContainers_le S t h) _ k1
    exact UnitLe.trans l1 (UnitLe.trans l2 (passMergeTypeParams_le _))
  · exact UnitLe.refl u

/-- the pipeline up to and including MergeTypeParameters -/
def optimizeBeforeAdjustSelf (o : Opts) (deps abcs : Hier) (u : TUnit) : TUnit :=
  stageD1 o (stageC o (stageB o (pipelineHier o deps abcs u) (stageA u)))

theorem optimize_split (o : Opts) (deps abcs : Hier) (u : TUnit) :
    optimize o deps abcs u = stageD2 o (optimizeBeforeAdjustSelf o deps abcs u) := rfl

/-- every option setting, `remove_mutable` included: up to `AdjustSelf` the unit is only widened -/
theorem optimizeBeforeAdjustSelf_le (o : Opts) (deps abcs : Hier) (u : TUnit)
    (hs : HierSound S (pipelineHier o deps abcs u)) (hanti : Antisymm S) (hk : UnitKok u)
    (hg : o.hasDeps = true → ∀ t, t ∈ (stageA u).tys → suwsOK (pipelineHier o deps abcs u) t = true) :
    UnitLe S u (optimizeBeforeAdjustSelf o deps abcs u) := by
  unfold optimizeBeforeAdjustSelf
  have a := stageA_le (S := S) u hk
  have kb := stageB_kok o (pipelineHier o deps abcs u) _ a.2
  have kc := stageC_kok o _ kb
  exact UnitLe.trans a.1 (UnitLe.trans (stageB_le o _ _ hs hanti hg) (UnitLe.trans (stageC_le o _) (stageD1_le o _ kc)))

/-- what `visitors.AdjustSelf()` does to a parameter: nothing, unless it is a receiver typed `Any` inside a class -/
theorem adjustSelfParam_spec (c : Ctx) (p : Param) :
    adjustSelfParam c p = p ∨ (p.ty = .any ∧ (p.name = "self" ∨ p.name = "cls") ∧ c.cls.isSome = true) := by
  unfold adjustSelfParam
  split
  · exact Or.inl rfl
  · rename_i n tm hc
    split
    · exact Or.inl rfl
    · rename_i hany
      have hty : p.ty = .any := by
        cases h : p.ty <;> simp_all [Ty.isAny]
      split
      · rename_i h1
        simp only [Bool.and_eq_true, beq_iff_eq] at h1
        exact Or.inr ⟨hty, Or.inl h1.1, by simp [hc]⟩
      · split
        · rename_i h2
          simp only [Bool.and_eq_true, beq_iff_eq] at h2
          exact Or.inr ⟨hty, Or.inr h2.1, by simp [hc]⟩
        · exact Or.inl rfl

end PytypeModel.Pytd
