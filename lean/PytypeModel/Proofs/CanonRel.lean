import PytypeModel.Proofs.CanonSort

/-! # The relation `~` ("same tree up to the order of every collection the visitor sorts") and the
hypothesis `KeyInj` ("ties are identical") used by the C04 theorems.

`u ~ u'` (`UnitSim`): `u'` is `u` with, at every depth, an arbitrary permutation applied to exactly the
collections that `CanonicalOrderingVisitor` sorts:
unit constants / type_params / classes / functions / aliases; class methods / constants (unless the
class is dataclass-like or a NamedTuple: then their order is significant and must agree) / nested classes /
decorators / slots; signature exceptions / template; union members.  Everything else (parameters, function
signatures, bases, keywords, class template, generic parameters, constraint lists) must agree in order. -/
namespace PytypeModel.Pytd.Canon
open PytypeModel.Pytd

/-- same length, `R` position by position -/
inductive Pointwise {α : Type} (R : α → α → Prop) : List α → List α → Prop
  | nil : Pointwise R [] []
  | cons {a b l l'} : R a b → Pointwise R l l' → Pointwise R (a :: l) (b :: l')

/-- `l'` is a permutation of a list that is pointwise `R`-related to `l` -/
def PermSim {α : Type} (R : α → α → Prop) (l l' : List α) : Prop :=
  ∃ m, Pointwise R l m ∧ m.Perm l'

def OptSim {α : Type} (R : α → α → Prop) : Option α → Option α → Prop
  | none, none => True
  | some a, some b => R a b
  | _, _ => False

mutual
inductive TySim : Ty → Ty → Prop
  | refl (t : Ty) : TySim t t
  | generic {b b' ps ps'} : TySim b b' → TysSim ps ps' → TySim (.generic b ps) (.generic b' ps')
  | tuple {b b' ps ps'} : TySim b b' → TysSim ps ps' → TySim (.tuple b ps) (.tuple b' ps')
  | callable {b b' ps ps'} : TySim b b' → TysSim ps ps' → TySim (.callable b ps) (.callable b' ps')
  | union {ts m ts'} : TysSim ts m → m.Perm ts' → TySim (.union ts) (.union ts')
  | annotated {t t' as} : TySim t t' → TySim (.annotated t as) (.annotated t' as)
/-- pointwise -/
inductive TysSim : List Ty → List Ty → Prop
  | nil : TysSim [] []
  | cons {t t' ts ts'} : TySim t t' → TysSim ts ts' → TysSim (t :: ts) (t' :: ts')
end

def TDSim (d d' : TypeParamDecl) : Prop :=
  d.name = d'.name ∧ TysSim d.constraints d'.constraints ∧ OptSim TySim d.bound d'.bound ∧ d.scope = d'.scope

def ParamSim (p p' : Param) : Prop :=
  p.name = p'.name ∧ TySim p.ty p'.ty ∧ p.kind = p'.kind ∧ p.optional = p'.optional ∧
  OptSim TySim p.mutated p'.mutated

def SigSim (s s' : Sig) : Prop :=
  Pointwise ParamSim s.params s'.params ∧ OptSim ParamSim s.starargs s'.starargs ∧
  OptSim ParamSim s.starstarargs s'.starstarargs ∧ TySim s.ret s'.ret ∧
  (∃ m, TysSim s.exceptions m ∧ m.Perm s'.exceptions) ∧ PermSim TDSim s.template s'.template

def FuncSim (f f' : Func) : Prop :=
  f.name = f'.name ∧ Pointwise SigSim f.sigs f'.sigs ∧ f.kind = f'.kind ∧ f.abstract = f'.abstract ∧
  f.coroutine = f'.coroutine ∧ f.final = f'.final ∧ f.decorators = f'.decorators

def ConstSim (c c' : Const) : Prop := c.name = c'.name ∧ TySim c.ty c'.ty ∧ c.value = c'.value

def AliasSim (a a' : Alias) : Prop := a.name = a'.name ∧ TySim a.ty a'.ty

def KwSim (kv kv' : String × Ty) : Prop := kv.1 = kv'.1 ∧ TySim kv.2 kv'.2

mutual
inductive ClassSim : Class → Class → Prop
  | mk {name kws kws' bases bases' ms ms' cs cs' cls clsm cls' decos decos' slots slots' tmpl tmpl'} :
    Pointwise KwSim kws kws' → TysSim bases bases' → PermSim FuncSim ms ms' →
    (if preserveConstants decos bases = true then Pointwise ConstSim cs cs' else PermSim ConstSim cs cs') →
    ClassesSim cls clsm → clsm.Perm cls' → decos.Perm decos' → OptSim List.Perm slots slots' →
    Pointwise TDSim tmpl tmpl' →
    ClassSim (.mk name kws bases ms cs cls decos slots tmpl) (.mk name kws' bases' ms' cs' cls' decos' slots' tmpl')
/-- pointwise -/
inductive ClassesSim : List Class → List Class → Prop
  | nil : ClassesSim [] []
  | cons {c c' cs cs'} : ClassSim c c' → ClassesSim cs cs' → ClassesSim (c :: cs) (c' :: cs')
end

/-- `u ~ u'` -/
def UnitSim (u u' : TUnit) : Prop :=
  u.name = u'.name ∧ PermSim ConstSim u.constants u'.constants ∧ PermSim TDSim u.typeParams u'.typeParams ∧
  (∃ m, ClassesSim u.classes m ∧ m.Perm u'.classes) ∧ PermSim FuncSim u.functions u'.functions ∧
  PermSim AliasSim u.aliases u'.aliases

/-! ### `KeyInj`: in every `sorted(...)` the visitor performs on `x`, elements with equal keys are identical

The condition is about the *canonicalised* elements, because that is what `sorted` compares. -/
section
variable {K : Type} (o : KOrd K) (ks : Keys K)

mutual
def TyInj : Ty → Prop
  | .generic b ps => TyInj b ∧ TysInj ps
  | .tuple b ps => TyInj b ∧ TysInj ps
  | .callable b ps => TyInj b ∧ TysInj ps
  | .union ts => InjOn ks.ty (canonTys o ks ts) ∧ TysInj ts
  | .annotated t _ => TyInj t
  | _ => True
def TysInj : List Ty → Prop
  | [] => True
  | t :: ts => TyInj t ∧ TysInj ts
end

def OptInj {α : Type} (P : α → Prop) : Option α → Prop
  | some a => P a
  | none => True

def All {α : Type} (P : α → Prop) (l : List α) : Prop := ∀ a, a ∈ l → P a

def TDInj (d : TypeParamDecl) : Prop := TysInj o ks d.constraints ∧ OptInj (TyInj o ks) d.bound
def ParamInj (p : Param) : Prop := TyInj o ks p.ty ∧ OptInj (TyInj o ks) p.mutated
def SigInj (s : Sig) : Prop :=
  All (ParamInj o ks) s.params ∧ OptInj (ParamInj o ks) s.starargs ∧ OptInj (ParamInj o ks) s.starstarargs ∧
  TyInj o ks s.ret ∧ InjOn ks.ty (canonTys o ks s.exceptions) ∧ TysInj o ks s.exceptions ∧
  InjOn ks.titem (s.template.map (canonTD o ks)) ∧ All (TDInj o ks) s.template
def FuncInj (f : Func) : Prop := All (SigInj o ks) f.sigs
def ConstInj (c : Const) : Prop := TyInj o ks c.ty
def AliasInj (a : Alias) : Prop := TyInj o ks a.ty

mutual
def ClassInj : Class → Prop
  | .mk _ keywords bases methods constants classes decorators slots template =>
    All (fun kv => TyInj o ks kv.2) keywords ∧ TysInj o ks bases ∧
    InjOn ks.func (methods.map (canonFunc o ks)) ∧ All (FuncInj o ks) methods ∧
    (preserveConstants decorators bases = true ∨ InjOn ks.const (constants.map (canonConst o ks))) ∧
    All (ConstInj o ks) constants ∧
    InjOn ks.cls (canonClasses o ks classes) ∧ ClassesInj classes ∧
    InjOn ks.deco decorators ∧ OptInj (InjOn ks.slot) slots ∧ All (TDInj o ks) template
def ClassesInj : List Class → Prop
  | [] => True
  | c :: cs => ClassInj c ∧ ClassesInj cs
end

/-- hypothesis of `canon_perm`: ties are identical in every sorted collection, at every depth -/
def KeyInj (u : TUnit) : Prop :=
  InjOn ks.const (u.constants.map (canonConst o ks)) ∧ All (ConstInj o ks) u.constants ∧
  InjOn ks.tparam (u.typeParams.map (canonTD o ks)) ∧ All (TDInj o ks) u.typeParams ∧
  InjOn ks.cls (canonClasses o ks u.classes) ∧ ClassesInj o ks u.classes ∧
  InjOn ks.func (u.functions.map (canonFunc o ks)) ∧ All (FuncInj o ks) u.functions ∧
  InjOn ks.alias (u.aliases.map (canonAlias o ks)) ∧ All (AliasInj o ks) u.aliases

/-! ### the keys-only executable check implies `KeyInj` -/

theorem all_of_all {α : Type} {P : α → Prop} {p : α → Bool} (h : ∀ a, p a = true → P a) {l : List α}
    (hl : l.all p = true) : All P l := fun a ha => h a (List.all_eq_true.1 hl a ha)

mutual
theorem tiesFreeTy_inj : ∀ t : Ty, tiesFreeTy o ks t = true → TyInj o ks t
  | .generic b ps, h => by
    simp only [tiesFreeTy, Bool.and_eq_true] at h
    exact ⟨tiesFreeTy_inj b h.1, tiesFreeTys_inj ps h.2⟩
  | .tuple b ps, h => by
    simp only [tiesFreeTy, Bool.and_eq_true] at h
    exact ⟨tiesFreeTy_inj b h.1, tiesFreeTys_inj ps h.2⟩
  | .callable b ps, h => by
    simp only [tiesFreeTy, Bool.and_eq_true] at h
    exact ⟨tiesFreeTy_inj b h.1, tiesFreeTys_inj ps h.2⟩
  | .union ts, h => by
    simp only [tiesFreeTy, Bool.and_eq_true] at h
    exact ⟨noTies_injOn o ks.ty h.1, tiesFreeTys_inj ts h.2⟩
  | .annotated t _, h => by
    simp only [tiesFreeTy] at h
    exact tiesFreeTy_inj t h
  | .any, _ | .nothing, _ | .named _, _ | .cls _, _ | .late _, _ | .typeParam _ _, _ | .literal _, _ => by
    simp [TyInj]
theorem tiesFreeTys_inj : ∀ l : List Ty, tiesFreeTys o ks l = true → TysInj o ks l
  | [], _ => by simp [TysInj]
  | t :: ts, h => by
    simp only [tiesFreeTys, Bool.and_eq_true] at h
    exact ⟨tiesFreeTy_inj t h.1, tiesFreeTys_inj ts h.2⟩
end

theorem tiesFreeOptTy_inj : ∀ t : Option Ty, tiesFreeOptTy o ks t = true → OptInj (TyInj o ks) t
  | some t, h => tiesFreeTy_inj o ks t h
  | none, _ => trivial

theorem tiesFreeTD_inj (d : TypeParamDecl) (h : tiesFreeTD o ks d = true) : TDInj o ks d := by
  simp only [tiesFreeTD, Bool.and_eq_true] at h
  exact ⟨tiesFreeTys_inj o ks _ h.1, tiesFreeOptTy_inj o ks _ h.2⟩

theorem tiesFreeParam_inj (p : Param) (h : tiesFreeParam o ks p = true) : ParamInj o ks p := by
  simp only [tiesFreeParam, Bool.and_eq_true] at h
  exact ⟨tiesFreeTy_inj o ks _ h.1, tiesFreeOptTy_inj o ks _ h.2⟩

theorem tiesFreeOptParam_inj : ∀ p : Option Param, tiesFreeOptParam o ks p = true → OptInj (ParamInj o ks) p
  | some p, h => tiesFreeParam_inj o ks p h
  | none, _ => trivial

theorem tiesFreeSig_inj (s : Sig) (h : tiesFreeSig o ks s = true) : SigInj o ks s := by
  simp only [tiesFreeSig, Bool.and_eq_true] at h
  obtain ⟨⟨⟨⟨⟨⟨⟨h1, h2⟩, h3⟩, h4⟩, h5⟩, h6⟩, h7⟩, h8⟩ := h
  exact ⟨all_of_all (tiesFreeParam_inj o ks) h1, tiesFreeOptParam_inj o ks _ h2,
    tiesFreeOptParam_inj o ks _ h3, tiesFreeTy_inj o ks _ h4, noTies_injOn o ks.ty h5,
    tiesFreeTys_inj o ks _ h6, noTies_injOn o ks.titem h7, all_of_all (tiesFreeTD_inj o ks) h8⟩

theorem tiesFreeFunc_inj (f : Func) (h : tiesFreeFunc o ks f = true) : FuncInj o ks f :=
  all_of_all (tiesFreeSig_inj o ks) h

mutual
theorem tiesFreeClass_inj : ∀ c : Class, tiesFreeClass o ks c = true → ClassInj o ks c
  | .mk _ keywords bases methods constants classes decorators slots template, h => by
    simp only [tiesFreeClass, Bool.and_eq_true, Bool.or_eq_true] at h
    obtain ⟨⟨⟨⟨⟨⟨⟨⟨⟨⟨h1, h2⟩, h3⟩, h4⟩, h5⟩, h6⟩, h7⟩, h8⟩, h9⟩, h10⟩, h11⟩ := h
    refine ⟨all_of_all (fun kv hk => tiesFreeTy_inj o ks kv.2 hk) h1, tiesFreeTys_inj o ks _ h2,
      noTies_injOn o ks.func h3, all_of_all (tiesFreeFunc_inj o ks) h4, ?_,
      all_of_all (fun c hc => tiesFreeTy_inj o ks c.ty hc) h6, noTies_injOn o ks.cls h7,
      tiesFreeClasses_inj classes h8, noTies_injOn o ks.deco h9, ?_, all_of_all (tiesFreeTD_inj o ks) h11⟩
    · rcases h5 with h5 | h5
      · exact .inl h5
      · exact .inr (noTies_injOn o ks.const h5)
    · cases slots with
      | none => trivial
      | some sl => exact noTies_injOn o ks.slot h10
theorem tiesFreeClasses_inj : ∀ l : List Class, tiesFreeClasses o ks l = true → ClassesInj o ks l
  | [], _ => by simp [ClassesInj]
  | c :: cs, h => by
    simp only [tiesFreeClasses, Bool.and_eq_true] at h
    exact ⟨tiesFreeClass_inj c h.1, tiesFreeClasses_inj cs h.2⟩
end

theorem tiesFreeUnit_keyInj (u : TUnit) (h : tiesFreeUnit o ks u = true) : KeyInj o ks u := by
  simp only [tiesFreeUnit, Bool.and_eq_true] at h
  obtain ⟨⟨⟨⟨⟨⟨⟨⟨⟨h1, h2⟩, h3⟩, h4⟩, h5⟩, h6⟩, h7⟩, h8⟩, h9⟩, h10⟩ := h
  exact ⟨noTies_injOn o ks.const h1, all_of_all (fun c hc => tiesFreeTy_inj o ks c.ty hc) h2,
    noTies_injOn o ks.tparam h3, all_of_all (tiesFreeTD_inj o ks) h4, noTies_injOn o ks.cls h5,
    tiesFreeClasses_inj o ks _ h6, noTies_injOn o ks.func h7, all_of_all (tiesFreeFunc_inj o ks) h8,
    noTies_injOn o ks.alias h9, all_of_all (fun a ha => tiesFreeTy_inj o ks a.ty ha) h10⟩

end

end PytypeModel.Pytd.Canon
