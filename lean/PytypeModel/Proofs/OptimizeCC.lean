/-
C11 proofs, part 4: CombineContainers widens (on well-kinded types, see `kok`).
-/
import PytypeModel.Proofs.OptimizeTy

namespace PytypeModel.Pytd

theorem kokList_iff : ∀ ts, kokList ts = true ↔ ∀ t, t ∈ ts → kok t = true
  | [] => by simp [kokList]
  | a :: as => by simp [kokList, kokList_iff as]

theorem simple_pyEq {a : Ty} (h : a.isSimple = true) (b : Ty) : a.pyEq b = true ↔ a = b := by
  cases a <;> simp [Ty.isSimple] at h <;> cases b <;> simp [Ty.pyEq]

theorem simple_kok {a : Ty} (h : a.isSimple = true) : kok a = true := by
  cases a <;> simp_all [Ty.isSimple, kok]

theorem CKey.eq_iff {a : CKey} (h : a.base.isSimple = true) (b : CKey) : a.eq b = true ↔ a = b := by
  cases a; cases b
  simp only [CKey.eq, Bool.and_eq_true, simple_pyEq h, beq_iff_eq, CKey.mk.injEq]

/-! ### kok is preserved by the union constructor and JoinTypes -/

mutual
theorem kok_flatTy : ∀ t, kok t = true → kokList (flatTy t) = true
  | .union ts, h => by simp [kok] at h; simp [flatTy]; exact kok_flatList ts h
  | .nothing, _ => by simp [flatTy, kokList]
  | .any, _ => by simp [flatTy, kokList, kok]
  | .named _, _ => by simp [flatTy, kokList, kok]
  | .cls _, _ => by simp [flatTy, kokList, kok]
  | .late _, _ => by simp [flatTy, kokList, kok]
  | .typeParam _ _, _ => by simp [flatTy, kokList, kok]
  | .literal _, _ => by simp [flatTy, kokList, kok]
  | .generic b ps, h => by simp [flatTy, kokList, h]
  | .tuple b ps, h => by simp [flatTy, kokList, h]
  | .callable b ps, h => by simp [flatTy, kokList, h]
  | .annotated t a, h => by simp [flatTy, kokList, h]
theorem kok_flatList : ∀ ts, kokList ts = true → kokList (flatList ts) = true
  | [], _ => by simp [flatList, kokList]
  | t :: ts, h => by
    simp [kokList] at h
    simp only [flatList]
    rw [kokList_iff]
    intro x hx
    cases List.mem_append.1 hx with
    | inl h1 => exact (kokList_iff _).1 (kok_flatTy t h.1) x h1
    | inr h2 => exact (kokList_iff _).1 (kok_flatList ts h.2) x h2
end

theorem kok_dedupPy {ts : List Ty} (h : kokList ts = true) : kokList (dedupPy ts) = true :=
  (kokList_iff _).2 fun t ht => (kokList_iff _).1 h t (dedupPy_sub ts t ht)

theorem kok_flattenUnionMembers : ∀ ts, kokList ts = true → kokList (flattenUnionMembers ts) = true
  | [], _ => by simp [flattenUnionMembers, kokList]
  | a :: as, h => by
    simp [kokList] at h
    have ih := kok_flattenUnionMembers as h.2
    cases a <;> simp_all [flattenUnionMembers, kokList, kok]
    rename_i ms
    rw [kokList_iff] at *
    intro x hx
    cases List.mem_append.1 hx with
    | inl h1 => exact h.1 x h1
    | inr h2 => exact ih x h2

theorem kok_mkUnion {ts : List Ty} (h : kokList ts = true) : kok (mkUnion ts) = true := by
  simp only [mkUnion, kok]
  exact kok_dedupPy (kok_flattenUnionMembers ts h)

theorem kok_joinTypes {ts : List Ty} (h : kokList ts = true) : kok (joinTypes ts) = true := by
  have hk : kokList (dedupPy (flatList ts)) = true := kok_dedupPy (kok_flatList ts h)
  unfold joinTypes joinCore
  split
  · rename_i t heq
    rw [heq] at hk
    simpa [kokList] using hk
  · split
    · split <;> simp [kok, kokList]
    · split
      · simp [kok]
      · exact kok_mkUnion hk

/-! ### the homogeneous flavour is wider -/

theorem denTup_mem {S : Sem} : ∀ (ps : List Ty) (es : List Val), denTup S ps es →
    ∀ e, e ∈ es → ∃ p, p ∈ ps ∧ den S p e
  | [], [], _, _, he => by cases he
  | [], _ :: _, h, _, _ => by simp [denTup] at h
  | _ :: _, [], _, _, he => by cases he
  | p :: ps, e :: es, h, x, hx => by
    simp only [denTup] at h
    cases hx with
    | head => exact ⟨p, List.mem_cons_self, h.1⟩
    | tail _ hx =>
      obtain ⟨q, hq, hd⟩ := denTup_mem ps es h.2 x hx
      exact ⟨q, List.mem_cons_of_mem _ hq, hd⟩

theorem denLast_eq {S : Sem} : ∀ (ps : List Ty) (v : Val), denLast S ps v ↔ den S (ps.getLast?.getD .any) v
  | [], v => by simp [denLast]
  | [p], v => by simp [denLast]
  | p :: q :: ps, v => by
    have h : denLast S (p :: q :: ps) v = denLast S (q :: ps) v := by simp only [denLast]
    rw [h, denLast_eq (q :: ps) v]
    simp [List.getLast?_cons_cons]

theorem items_slots {v : Val} {es : List Val} (h : v.items = some es) : v.slots = [es] := by
  unfold Val.items at h
  split at h
  · rename_i es' heq; simp at h; rw [heq, h]
  · simp at h

theorem degenerate_le (S : Sem) (mt mc : Bool) (t : Ty) : TyLe S t (degenerate mt mc t) := by
  intro v hv
  cases t <;> simp only [degenerate] <;> try exact hv
  · -- tuple
    rename_i b ps
    split
    · rw [den_tuple] at hv
      obtain ⟨hb, es, hes, ht⟩ := hv
      rw [den_generic, items_slots hes]
      refine ⟨hb, ?_⟩
      simp only [denSlots, and_true]
      intro e he
      obtain ⟨p, hp, hd⟩ := denTup_mem ps es ht e he
      exact joinTypes_le S ps p hp e hd
    · exact hv
  · -- callable
    rename_i b ps
    split
    · rw [den_callable] at hv
      rw [den_generic]
      refine ⟨hv.1, ?_⟩
      have h2 := hv.2
      unfold Val.results at h2
      cases hs : v.slots with
      | nil => simp [denSlots]
      | cons s0 r =>
        cases r with
        | nil => simp [denSlots]
        | cons rs r' =>
          rw [hs] at h2
          simp only [denSlots, den_any, implies_true, true_and]
          refine ⟨fun e he => (denLast_eq ps e).1 (h2 e he), ?_⟩
          cases r' <;> simp
    · exact hv

theorem kok_getLast {ps : List Ty} (h : kokList ps = true) : kok (ps.getLast?.getD .any) = true := by
  cases hl : ps.getLast? with
  | none => simp [kok]
  | some x => simp; exact (kokList_iff ps).1 h x (List.mem_of_getLast? hl)

theorem kok_degenerate (mt mc : Bool) (t : Ty) (h : kok t = true) : kok (degenerate mt mc t) = true := by
  cases t <;> simp only [degenerate] <;> try exact h
  · rename_i b ps
    simp [kok] at h
    split
    · simp [kok, kokList, h.1.1, kok_joinTypes h.2]
    · simp [kok, h]
  · rename_i b ps
    simp [kok] at h
    split
    · simp [kok, kokList, h.1.1, kok_getLast h.2]
    · simp [kok, h]

/-! ### the `collect` dictionary -/

theorem joinZip_left (S : Sem) : ∀ qs ps : List Ty, PW S qs (joinZip qs ps)
  | [], _ => by simp [joinZip]
  | _ :: _, [] => by simp [joinZip]
  | q :: qs, p :: ps => ⟨joinTypes_le S _ q (by simp), joinZip_left S qs ps⟩

theorem joinZip_right (S : Sem) : ∀ qs ps : List Ty, PW S ps (joinZip qs ps)
  | [], _ => by simp [joinZip]
  | _ :: _, [] => by simp [joinZip]
  | q :: qs, p :: ps => ⟨joinTypes_le S _ p (by simp), joinZip_right S qs ps⟩

theorem joinZip_length : ∀ qs ps : List Ty, (joinZip qs ps).length = min qs.length ps.length
  | [], _ => by simp [joinZip]
  | _ :: _, [] => by simp [joinZip]
  | q :: qs, p :: ps => by simp [joinZip, joinZip_length qs ps, Nat.succ_min_succ]

theorem kok_joinZip : ∀ qs ps : List Ty, kokList qs = true → kokList ps = true → kokList (joinZip qs ps) = true
  | [], _, _, _ => by simp [joinZip, kokList]
  | _ :: _, [], _, _ => by simp [joinZip, kokList]
  | q :: qs, p :: ps, h1, h2 => by
    simp [kokList] at h1 h2
    simp only [joinZip, kokList, Bool.and_eq_true]
    exact ⟨kok_joinTypes (by simp [kokList, h1.1, h2.1]), kok_joinZip qs ps h1.2 h2.2⟩

def collFind (coll : List (CKey × List Ty)) (k : CKey) : Option (CKey × List Ty) :=
  coll.find? (fun e => e.1.eq k)

theorem collGet_eq (coll : List (CKey × List Ty)) (k : CKey) :
    collGet coll k = match collFind coll k with | some e => e.2 | none => [] := rfl

def EntryOK (e : CKey × List Ty) : Prop :=
  e.1.base.isSimple = true ∧ kokList e.2 = true ∧ ∀ l, e.1.len = some l → e.2.length = l

def CollOK (coll : List (CKey × List Ty)) : Prop := ∀ e, e ∈ coll → EntryOK e

theorem collInsert_find_same {k : CKey} (hk : k.base.isSimple = true) (ps : List Ty) :
    ∀ coll, CollOK coll →
      collFind (collInsert k ps coll).1 k =
        some (match collFind coll k with
              | some e => (e.1, joinZip e.2 ps)
              | none => (k, ps))
  | [], _ => by simp [collInsert, collFind, (CKey.eq_iff hk k).2 rfl]
  | e :: es, hc => by
    have he := hc e List.mem_cons_self
    simp only [collInsert]
    split
    · rename_i heq
      simp [collFind, heq]
    · rename_i hne
      have ih := collInsert_find_same hk ps es (fun x hx => hc x (List.mem_cons_of_mem _ hx))
      simp only [collFind, List.find?_cons, hne] at ih ⊢
      exact ih

theorem collInsert_find_other {k k' : CKey} (hk : k.base.isSimple = true) (hne : k ≠ k') (ps : List Ty) :
    ∀ coll, CollOK coll → collFind (collInsert k ps coll).1 k' = collFind coll k'
  | [], _ => by
    have : k.eq k' = false := by
      cases h : k.eq k' with
      | false => rfl
      | true => exact absurd ((CKey.eq_iff hk k').1 h) hne
    simp [collInsert, collFind, this]
  | e :: es, hc => by
    have he := hc e List.mem_cons_self
    simp only [collInsert]
    split
    · rename_i heq
      have h1 : e.1 = k := (CKey.eq_iff he.1 k).1 heq
      have h2 : e.1.eq k' = false := by
        cases h : e.1.eq k' with
        | false => rfl
        | true => exact absurd (h1.symm.trans ((CKey.eq_iff he.1 k').1 h)) hne
      simp [collFind, h2]
    · have ih := collInsert_find_other hk hne ps es (fun x hx => hc x (List.mem_cons_of_mem _ hx))
      simp only [collFind, List.find?_cons] at ih ⊢
      split
      · rfl
      · exact ih

theorem collFind_mem {coll : List (CKey × List Ty)} {k : CKey} {e} (h : collFind coll k = some e) : e ∈ coll :=
  List.mem_of_find?_eq_some h

theorem collInsert_ok {k : CKey} (hk : k.base.isSimple = true) {ps : List Ty} (hps : kokList ps = true)
    (hl : ∀ l, k.len = some l → ps.length = l) :
    ∀ coll, CollOK coll → CollOK (collInsert k ps coll).1
  | [], _ => by
    intro e he
    simp [collInsert] at he
    subst he
    exact ⟨hk, hps, hl⟩
  | e :: es, hc => by
    have he := hc e List.mem_cons_self
    simp only [collInsert]
    split
    · rename_i heq
      have h1 : e.1 = k := (CKey.eq_iff he.1 k).1 heq
      intro x hx
      cases hx with
      | head =>
        refine ⟨he.1, kok_joinZip _ _ he.2.1 hps, ?_⟩
        intro l hl'
        simp only at hl'
        rw [joinZip_length, he.2.2 l hl', hl l (h1 ▸ hl')]
        exact Nat.min_self l
      | tail _ hx => exact hc x (List.mem_cons_of_mem _ hx)
    · intro x hx
      cases hx with
      | head => exact he
      | tail _ hx => exact collInsert_ok hk hps hl es (fun y hy => hc y (List.mem_cons_of_mem _ hy)) x hx

/-- the entry found for `t`'s key covers `t`'s parameters -/
def Cov (S : Sem) (coll : List (CKey × List Ty)) (t : Ty) : Prop :=
  ∃ e, collFind coll (keyOf t) = some e ∧ PW S t.params e.2 ∧
    ((keyOf t).len.isSome = true → e.2.length = t.params.length)

theorem keyOf_simple {t : Ty} (hg : t.isGenericLike = true) (hk : kok t = true) : (keyOf t).base.isSimple = true := by
  cases t <;> simp_all [Ty.isGenericLike, keyOf, kok, Ty.base]

theorem keyOf_len {t : Ty} : ∀ l, (keyOf t).len = some l → t.params.length = l := by
  intro l h
  cases t <;> simp_all [keyOf, Ty.params]

theorem kok_params {t : Ty} (hk : kok t = true) : kokList t.params = true := by
  cases t <;> simp_all [kok, Ty.params, kokList]

theorem Cov_insert {S : Sem} {coll : List (CKey × List Ty)} (hc : CollOK coll) {t t' : Ty}
    (hg : t.isGenericLike = true) (hk : kok t = true) (hcov : Cov S coll t') :
    Cov S (collInsert (keyOf t) t.params coll).1 t' := by
  obtain ⟨e, hf, hpw, hlen⟩ := hcov
  by_cases hkey : keyOf t = keyOf t'
  · refine ⟨(e.1, joinZip e.2 t.params), ?_, PW.trans hpw (joinZip_left S _ _), ?_⟩
    · rw [← hkey, collInsert_find_same (keyOf_simple hg hk) _ coll hc, hkey, hf]
    · intro hs
      simp only
      rw [joinZip_length, hlen hs]
      cases hl : (keyOf t').len with
      | none => simp [hl] at hs
      | some l =>
        rw [keyOf_len l hl, keyOf_len l (hkey ▸ hl)]
        exact Nat.min_self l
  · exact ⟨e, by rw [collInsert_find_other (keyOf_simple hg hk) hkey _ coll hc, hf], hpw, hlen⟩

theorem Cov_insert_self {S : Sem} {coll : List (CKey × List Ty)} (hc : CollOK coll) {t : Ty}
    (hg : t.isGenericLike = true) (hk : kok t = true) :
    Cov S (collInsert (keyOf t) t.params coll).1 t := by
  unfold Cov
  rw [collInsert_find_same (keyOf_simple hg hk) _ coll hc]
  cases hf : collFind coll (keyOf t) with
  | none => exact ⟨_, rfl, PW.refl S _, fun _ => rfl⟩
  | some e =>
    refine ⟨_, rfl, joinZip_right S _ _, ?_⟩
    intro hs
    simp only
    have he := hc e (collFind_mem hf)
    have hkey : e.1 = keyOf t := by
      have := List.find?_some hf
      exact (CKey.eq_iff he.1 _).1 this
    cases hl : (keyOf t).len with
    | none => simp [hl] at hs
    | some l =>
      rw [joinZip_length, he.2.2 l (hkey ▸ hl), keyOf_len l hl]
      exact Nat.min_self l

theorem collectAll_inv {S : Sem} : ∀ (ts : List Ty) (acc : List (CKey × List Ty)) (red : Bool),
    CollOK acc → (∀ t, t ∈ ts → kok t = true) →
      CollOK (collectAll acc red ts).1 ∧
      (∀ t', Cov S acc t' → Cov S (collectAll acc red ts).1 t') ∧
      (∀ t, t ∈ ts → t.isGenericLike = true → Cov S (collectAll acc red ts).1 t)
  | [], acc, red, hc, _ => ⟨hc, fun _ h => h, fun _ h => by cases h⟩
  | t :: ts, acc, red, hc, hk => by
    have hkt := hk t List.mem_cons_self
    have hkts : ∀ x, x ∈ ts → kok x = true := fun x hx => hk x (List.mem_cons_of_mem _ hx)
    simp only [collectAll]
    split
    · rename_i hg
      have hc' : CollOK (collInsert (keyOf t) t.params acc).1 :=
        collInsert_ok (keyOf_simple hg hkt) (kok_params hkt) (fun l hl => keyOf_len l hl) acc hc
      obtain ⟨i1, i2, i3⟩ := collectAll_inv (S := S) ts (collInsert (keyOf t) t.params acc).1
        (red || (collInsert (keyOf t) t.params acc).2) hc' hkts
      refine ⟨i1, fun t' h => i2 t' (Cov_insert hc hg hkt h), ?_⟩
      intro x hx hgx
      cases hx with
      | head => exact i2 t (Cov_insert_self hc hg hkt)
      | tail _ hx => exact i3 x hx hgx
    · rename_i hng
      obtain ⟨i1, i2, i3⟩ := collectAll_inv (S := S) ts acc red hc hkts
      refine ⟨i1, i2, ?_⟩
      intro x hx hgx
      cases hx with
      | head => exact absurd hgx hng
      | tail _ hx => exact i3 x hx hgx

/-! ### the final loop -/

theorem names_disjoint (s : String) (h1 : s ∈ containerNames .tuple)
    (h2 : s ∈ containerNames .callable) : False := by
  simp [containerNames] at h1 h2
  subst h2
  rcases h1 with h | h <;> exact absurd h (by decide)

/-- two well-kinded generics with the same key: the first one, with covering parameters, is wider -/
theorem same_key_le {S : Sem} {t t2 : Ty} {qs : List Ty} (hg : t.isGenericLike = true) (hk : kok t = true)
    (hg2 : t2.isGenericLike = true) (hk2 : kok t2 = true) (hkey : keyOf t2 = keyOf t)
    (hpw : PW S t2.params qs) (hlen : (keyOf t2).len.isSome = true → qs.length = t2.params.length) :
    TyLe S t2 (t.withParams qs) := by
  cases t <;> simp [Ty.isGenericLike] at hg <;> cases t2 <;> simp [Ty.isGenericLike] at hg2 <;>
    simp [keyOf, Ty.base] at hkey <;> simp only [Ty.withParams, Ty.params] at *
  · -- generic / generic
    rw [hkey]
    exact generic_mono (TyLe.refl S _) hpw
  · -- tuple / tuple
    rw [hkey.1]
    exact tuple_mono (TyLe.refl S _) hpw (hlen (by simp [keyOf]))
  · -- tuple / callable
    exfalso
    simp [kok] at hk hk2
    exact names_disjoint _ hk.1.2 (hkey.1 ▸ hk2.1.2)
  · -- callable / tuple
    exfalso
    simp [kok] at hk hk2
    exact names_disjoint _ (hkey.1 ▸ hk2.1.2) hk.1.2
  · -- callable / callable
    rw [hkey.1]
    exact callable_mono (TyLe.refl S _) hpw (hlen (by simp [keyOf]))

theorem kok_withParams {t : Ty} {qs : List Ty} (hk : kok t = true) (hq : kokList qs = true) :
    kok (t.withParams qs) = true := by
  cases t <;> simp_all [Ty.withParams, kok]

theorem kokList_map {f : Ty → Ty} {qs : List Ty} (hq : kokList qs = true) (hf : ∀ t, kok t = true → kok (f t) = true) :
    kokList (qs.map f) = true := by
  rw [kokList_iff] at *
  intro t ht
  obtain ⟨x, hx, rfl⟩ := List.mem_map.1 ht
  exact hf x (hq x hx)

section
variable {S : Sem} {revisit : Ty → Ty}
  (hrec : ∀ t, kok t = true → TyLe S t (revisit t) ∧ kok (revisit t) = true)
  {coll : List (CKey × List Ty)} (hcoll : CollOK coll)
include hrec hcoll

theorem ccLoop_le : ∀ (ts : List Ty) (done : List CKey) (res : Ty),
    (∀ t, t ∈ ts → kok t = true ∧ (t.isGenericLike = true → Cov S coll t)) →
    (∀ d, d ∈ done → d.base.isSimple = true ∧
        ∀ t, kok t = true → t.isGenericLike = true → Cov S coll t → keyOf t = d → TyLe S t res) →
    kok res = true →
      TyLe S res (ccLoop revisit coll done res ts) ∧
      (∀ t, t ∈ ts → TyLe S t (ccLoop revisit coll done res ts)) ∧
      kok (ccLoop revisit coll done res ts) = true
  | [], done, res, _, _, hkr => ⟨TyLe.refl S res, ⟨fun _ h => (List.not_mem_nil h).elim, hkr⟩⟩
  | t :: ts, done, res, hts, hdone, hkr => by
    have ht := hts t List.mem_cons_self
    have hts' : ∀ x, x ∈ ts → kok x = true ∧ (x.isGenericLike = true → Cov S coll x) :=
      fun x hx => hts x (List.mem_cons_of_mem _ hx)
    simp only [ccLoop]
    split
    · rename_i hg
      split
      · -- key already done
        rename_i hany
        obtain ⟨d, hd, heq⟩ := List.any_eq_true.1 hany
        have hdk : d = keyOf t := (CKey.eq_iff (hdone d hd).1 _).1 heq
        have htres : TyLe S t res := (hdone d hd).2 t ht.1 hg (ht.2 hg) hdk.symm
        obtain ⟨i1, i2, i3⟩ := ccLoop_le ts done res hts' hdone hkr
        refine ⟨i1, ?_, i3⟩
        intro x hx
        cases hx with
        | head => exact TyLe.trans htres i1
        | tail _ hx => exact i2 x hx
      · -- first element with this key
        obtain ⟨e, hf, hpw, hlen⟩ := ht.2 hg
        have he := hcoll e (collFind_mem hf)
        have hget : collGet coll (keyOf t) = e.2 := by rw [collGet_eq, hf]
        have hpw2 : PW S e.2 (e.2.map revisit) :=
          PW.map revisit e.2 (fun p hp => (hrec p ((kokList_iff _).1 he.2.1 p hp)).1)
        have hadd : ∀ t2, kok t2 = true → t2.isGenericLike = true → Cov S coll t2 → keyOf t2 = keyOf t →
            TyLe S t2 (t.withParams ((collGet coll (keyOf t)).map revisit)) := by
          intro t2 hk2 hg2 hc2 hkey
          obtain ⟨e2, hf2, hpw', hlen'⟩ := hc2
          rw [hkey, hf] at hf2
          cases hf2
          rw [hget]
          exact same_key_le hg ht.1 hg2 hk2 hkey (PW.trans hpw' hpw2) (by simpa using hlen')
        have hkadd : kok (t.withParams ((collGet coll (keyOf t)).map revisit)) = true := by
          rw [hget]
          exact kok_withParams ht.1 (kokList_map he.2.1 (fun x hx => (hrec x hx).2))
        have hkr' : kok (joinTypes [res, t.withParams ((collGet coll (keyOf t)).map revisit)]) = true :=
          kok_joinTypes (by simp [kokList, hkr, hkadd])
        have hres' : TyLe S res (joinTypes [res, t.withParams ((collGet coll (keyOf t)).map revisit)]) :=
          joinTypes_le S _ res (by simp)
        have hadd' : TyLe S (t.withParams ((collGet coll (keyOf t)).map revisit))
            (joinTypes [res, t.withParams ((collGet coll (keyOf t)).map revisit)]) :=
          joinTypes_le S _ _ (by simp)
        obtain ⟨i1, i2, i3⟩ := ccLoop_le ts (keyOf t :: done)
          (joinTypes [res, t.withParams ((collGet coll (keyOf t)).map revisit)]) hts'
          (by
            intro d hd
            cases hd with
            | head =>
              exact ⟨keyOf_simple hg ht.1, fun t2 hk2 hg2 hc2 hkey => TyLe.trans (hadd t2 hk2 hg2 hc2 hkey) hadd'⟩
            | tail _ hd =>
              exact ⟨(hdone d hd).1, fun t2 hk2 hg2 hc2 hkey => TyLe.trans ((hdone d hd).2 t2 hk2 hg2 hc2 hkey) hres'⟩)
          hkr'
        refine ⟨TyLe.trans hres' i1, ?_, i3⟩
        intro x hx
        cases hx with
        | head => exact TyLe.trans (TyLe.trans (hadd t ht.1 hg (ht.2 hg) rfl) hadd') i1
        | tail _ hx => exact i2 x hx
    · -- not a generic: joined as it is
      have hkr' : kok (joinTypes [res, t]) = true := kok_joinTypes (by simp [kokList, hkr, ht.1])
      have hres' : TyLe S res (joinTypes [res, t]) := joinTypes_le S _ res (by simp)
      obtain ⟨i1, i2, i3⟩ := ccLoop_le ts done (joinTypes [res, t]) hts'
        (fun d hd => ⟨(hdone d hd).1, fun t2 hk2 hg2 hc2 hkey => TyLe.trans ((hdone d hd).2 t2 hk2 hg2 hc2 hkey) hres'⟩)
        hkr'
      refine ⟨TyLe.trans hres' i1, ?_, i3⟩
      intro x hx
      cases hx with
      | head => exact TyLe.trans (joinTypes_le S _ t (by simp)) i1
      | tail _ hx => exact i2 x hx
end

/-! ### the hook and the visitor -/

theorem ccHook_le {S : Sem} {revisit : Ty → Ty}
    (hrec : ∀ t, kok t = true → TyLe S t (revisit t) ∧ kok (revisit t) = true)
    (t : Ty) (hk : kok t = true) : TyLe S t (ccHook revisit t) ∧ kok (ccHook revisit t) = true := by
  cases t <;> simp only [ccHook] <;> try exact ⟨TyLe.refl S _, hk⟩
  rename_i ms
  simp only [kok] at hk
  split
  · exact ⟨TyLe.refl S _, by simpa [kok] using hk⟩
  · -- ts1
    have hj : kok (joinTypes ms) = true := kok_joinTypes hk
    have h1 : ∃ ts1, (joinTypes ms).asMembers = ts1 ∧ kokList ts1 = true ∧
        ∀ v, denAny S ms v → denAny S ts1 v := by
      refine ⟨_, rfl, ?_, ?_⟩
      · cases hjt : joinTypes ms <;> rw [hjt] at hj <;> simp_all [Ty.asMembers, kokList, kok]
      · intro v hv
        have := (joinTypes_den S ms v).2 hv
        cases hjt : joinTypes ms <;> rw [hjt] at this <;> simp_all [Ty.asMembers, denAny]
    obtain ⟨ts1, hts1, hk1, hd1⟩ := h1
    rw [hts1]
    -- ts2
    have h2 : ∃ ts2, (if (shouldMerge .tuple ts1 || shouldMerge .callable ts1) = true then
          ts1.map (degenerate (shouldMerge .tuple ts1) (shouldMerge .callable ts1)) else ts1) = ts2 ∧
        kokList ts2 = true ∧ ∀ v, denAny S ts1 v → denAny S ts2 v := by
      refine ⟨_, rfl, ?_, ?_⟩
      · split
        · exact kokList_map hk1 (fun x hx => kok_degenerate _ _ x hx)
        · exact hk1
      · intro v hv
        split
        · exact denAny_map _ ts1 (fun x _ => degenerate_le S _ _ x) v hv
        · exact hv
    obtain ⟨ts2, hts2, hk2, hd2⟩ := h2
    simp only [hts2]
    have hk2' := (kokList_iff ts2).1 hk2
    obtain ⟨c1, _, c3⟩ := collectAll_inv (S := S) ts2 [] false (fun _ h => by cases h) hk2'
    split
    · refine ⟨?_, by simpa [kok] using hk2⟩
      intro v hv
      rw [den_union] at hv ⊢
      exact hd2 v (hd1 v hv)
    · obtain ⟨_, i2, i3⟩ := ccLoop_le hrec c1 ts2 [] .nothing
        (fun x hx => ⟨hk2' x hx, fun hg => c3 x hx hg⟩) (fun _ h => by cases h) (by simp [kok])
      refine ⟨?_, i3⟩
      intro v hv
      rw [den_union] at hv
      obtain ⟨x, hx, hdx⟩ := (denAny_iff S ts2 v).1 (hd2 v (hd1 v hv))
      exact i2 x hx v hdx

theorem cc_le {S : Sem} : ∀ (n : Nat) (t : Ty), kok t = true → TyLe S t (cc n t) ∧ kok (cc n t) = true
  | 0, t, hk => ⟨TyLe.refl S t, hk⟩
  | n + 1, t, hk => by
    have ih := cc_le (S := S) n
    cases t <;> simp only [cc] <;> try exact ⟨TyLe.refl S _, hk⟩
    · rename_i b ps
      simp [kok] at hk
      have hps := (kokList_iff ps).1 hk.2
      have hb : cc n b = b := by
        cases n with
        | zero => rfl
        | succ m => cases b <;> simp [Ty.isSimple] at hk <;> rfl
      rw [hb]
      refine ⟨generic_mono (TyLe.refl S _) (PW.map _ ps (fun p hp => (ih p (hps p hp)).1)), ?_⟩
      simp only [kok, hk.1, Bool.true_and]
      exact kokList_map hk.2 (fun x hx => (ih x hx).2)
    · rename_i b ps
      simp [kok] at hk
      have hps := (kokList_iff ps).1 hk.2
      have hb : cc n b = b := by
        cases n with
        | zero => rfl
        | succ m => cases b <;> simp [Ty.isSimple] at hk <;> rfl
      rw [hb]
      refine ⟨tuple_mono (TyLe.refl S _) (PW.map _ ps (fun p hp => (ih p (hps p hp)).1)) (by simp), ?_⟩
      simp only [kok, hk.1.1, Bool.true_and, Bool.and_eq_true]
      exact ⟨by simpa using hk.1.2, kokList_map hk.2 (fun x hx => (ih x hx).2)⟩
    · rename_i b ps
      simp [kok] at hk
      have hps := (kokList_iff ps).1 hk.2
      have hb : cc n b = b := by
        cases n with
        | zero => rfl
        | succ m => cases b <;> simp [Ty.isSimple] at hk <;> rfl
      rw [hb]
      refine ⟨callable_mono (TyLe.refl S _) (PW.map _ ps (fun p hp => (ih p (hps p hp)).1)) (by simp), ?_⟩
      simp only [kok, hk.1.1, Bool.true_and, Bool.and_eq_true]
      exact ⟨by simpa using hk.1.2, kokList_map hk.2 (fun x hx => (ih x hx).2)⟩
    · rename_i ts
      simp only [kok] at hk
      have hts := (kokList_iff ts).1 hk
      have hk' : kok (mkUnion (ts.map (cc n))) = true := kok_mkUnion (kokList_map hk (fun x hx => (ih x hx).2))
      obtain ⟨h1, h2⟩ := ccHook_le (S := S) (revisit := cc n) ih _ hk'
      refine ⟨TyLe.trans ?_ h1, h2⟩
      intro v hv
      rw [den_union] at hv
      rw [mkUnion_den]
      exact denAny_map _ ts (fun x hx => (ih x (hts x hx)).1) v hv
    · rename_i t a
      simp only [kok] at hk
      refine ⟨?_, by simpa [kok] using (ih t hk).2⟩
      intro v hv
      simp at hv ⊢
      exact (ih t hk).1 v hv

theorem combineContainers_le (S : Sem) (t : Ty) (hk : kok t = true) : TyLe S t (combineContainers t) :=
  (cc_le _ t hk).1

theorem combineContainers_kok (t : Ty) (hk : kok t = true) : kok (combineContainers t) = true :=
  (cc_le (S := ⟨fun _ _ => True, fun _ _ _ => True⟩) _ t hk).2

end PytypeModel.Pytd
