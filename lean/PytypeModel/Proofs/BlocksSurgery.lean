import PytypeModel.Proofs.BlocksSplit

/-! Proofs about the 3.12 surgery (`removeJumpBack`, `mergeAnext`): under `mergeGuard` the ops of the final
blocks are the ops of the input blocks minus the removed jump-back blocks minus the popped jumps, each once.
Everything is phrased with `List.count` (additive equations, no subtraction). -/
namespace PytypeModel.Blocks

def cnt (x : Nat) (L : List Block) : Nat := (flat L).count x

theorem cnt_nil (x : Nat) : cnt x [] = 0 := by simp [cnt, flat]

theorem cnt_cons (x : Nat) (b : Block) (L : List Block) : cnt x (b :: L) = b.code.count x + cnt x L := by
  simp [cnt, flat, List.count_append]

/-- `deleteMerged` with the index of the first block made explicit -/
def delFrom (k : Nat) (L : List Block) (D : List Nat) : List Block :=
  ((L.zipIdx k).filter fun p => !D.contains p.2).map (·.1)

theorem deleteMerged_eq (L : List Block) (D : List Nat) : deleteMerged L D = delFrom 0 L D := rfl

theorem delFrom_nil (k : Nat) (D : List Nat) : delFrom k [] D = [] := by simp [delFrom]

theorem delFrom_cons (k : Nat) (a : Block) (l : List Block) (D : List Nat) :
    delFrom k (a :: l) D = if D.contains k then delFrom (k + 1) l D else a :: delFrom (k + 1) l D := by
  unfold delFrom
  simp only [List.zipIdx_cons, List.filter_cons]
  cases D.contains k <;> simp

theorem delFrom_congr (k : Nat) (L : List Block) {D D' : List Nat} (h : ∀ j, D.contains j = D'.contains j) :
    delFrom k L D = delFrom k L D' := by
  unfold delFrom
  congr 1
  apply List.filter_congr
  intro p _
  rw [h]

/-- an index below the first block is irrelevant -/
theorem delFrom_cons_lt : ∀ (l : List Block) (k j : Nat) (D : List Nat), j < k →
    delFrom k l (j :: D) = delFrom k l D
  | [], k, j, D, _ => by simp [delFrom_nil]
  | a :: l, k, j, D, h => by
    rw [delFrom_cons, delFrom_cons, delFrom_cons_lt l (k + 1) j D (by omega)]
    have : k ≠ j := by omega
    simp [List.contains_cons, this]

theorem mem_delFrom : ∀ (L : List Block) (k : Nat) (D : List Nat) (b : Block), b ∈ delFrom k L D → b ∈ L
  | [], k, D, b, h => by simp [delFrom_nil] at h
  | a :: l, k, D, b, h => by
    rw [delFrom_cons] at h
    split at h
    · exact List.mem_cons_of_mem _ (mem_delFrom l _ D b h)
    · rcases List.mem_cons.1 h with rfl | h
      · simp
      · exact List.mem_cons_of_mem _ (mem_delFrom l _ D b h)

/-- deleting one more (live) position removes exactly that block's ops -/
theorem cnt_delFrom_del (x : Nat) : ∀ (L : List Block) (k i : Nat) (D : List Nat) (b : Block),
    L[i]? = some b → (k + i) ∉ D →
    cnt x (delFrom k L ((k + i) :: D)) + b.code.count x = cnt x (delFrom k L D)
  | [], _, _, _, _, h, _ => by simp at h
  | a :: l, k, 0, D, b, h, hD => by
    simp at h; subst h
    have hc : D.contains k = false := by simpa using hD
    rw [delFrom_cons, delFrom_cons]
    simp only [Nat.add_zero, List.contains_cons, BEq.rfl, Bool.true_or, if_true, hc, Bool.false_eq_true, if_false]
    rw [delFrom_cons_lt l (k + 1) k D (by omega), cnt_cons]
    omega
  | a :: l, k, i + 1, D, b, h, hD => by
    simp at h
    have ih := cnt_delFrom_del x l (k + 1) i D b h (by rw [show k + 1 + i = k + (i + 1) by omega]; exact hD)
    rw [show k + 1 + i = k + (i + 1) by omega] at ih
    rw [delFrom_cons, delFrom_cons]
    have : (k == k + (i + 1)) = false := by simp
    simp only [List.contains_cons, this, Bool.false_or]
    cases D.contains k
    · simp only [Bool.false_eq_true, if_false, cnt_cons]; omega
    · simp only [if_true]; exact ih

/-- replacing a live block -/
theorem cnt_delFrom_set (x : Nat) : ∀ (L : List Block) (k i : Nat) (D : List Nat) (b b' : Block),
    L[i]? = some b → (k + i) ∉ D →
    cnt x (delFrom k (L.set i b') D) + b.code.count x = cnt x (delFrom k L D) + b'.code.count x
  | [], _, _, _, _, _, h, _ => by simp at h
  | a :: l, k, 0, D, b, b', h, hD => by
    simp at h; subst h
    have hc : D.contains k = false := by simpa using hD
    simp only [List.set_cons_zero]
    rw [delFrom_cons, delFrom_cons]
    simp only [hc, Bool.false_eq_true, if_false, cnt_cons]
    omega
  | a :: l, k, i + 1, D, b, b', h, hD => by
    simp at h
    have ih := cnt_delFrom_set x l (k + 1) i D b b' h (by rw [show k + 1 + i = k + (i + 1) by omega]; exact hD)
    simp only [List.set_cons_succ]
    rw [delFrom_cons, delFrom_cons]
    cases D.contains k
    · simp only [Bool.false_eq_true, if_false, cnt_cons]; omega
    · simp only [if_true]; exact ih

/-! ### the merge loop under the guard -/

structure GuardP (n : Nat) (ml : List (Nat × Nat)) : Prop where
  nodup1 : (ml.map (·.1)).Nodup
  nodup2 : (ml.map (·.2)).Nodup
  disj : ∀ p ∈ ml, ∀ q ∈ ml, p.1 ≠ q.2
  bound : ∀ p ∈ ml, p.1 < n ∧ p.2 < n

theorem nodupNat_iff : ∀ (l : List Nat), nodupNat l = true ↔ l.Nodup
  | [] => by simp [nodupNat]
  | a :: l => by
    unfold nodupNat
    simp only [Bool.and_eq_true, Bool.not_eq_eq_eq_not, Bool.not_true, List.contains_eq_mem,
      decide_eq_false_iff_not, List.nodup_cons, nodupNat_iff l]

theorem guardP_of_mergeGuard {n : Nat} {ml : List (Nat × Nat)} (h : mergeGuard n ml = true) : GuardP n ml := by
  unfold mergeGuard at h
  simp only [Bool.and_eq_true, List.all_eq_true, Bool.not_eq_eq_eq_not, Bool.not_true, List.contains_eq_mem,
    decide_eq_false_iff_not, decide_eq_true_eq, nodupNat_iff] at h
  obtain ⟨⟨⟨h1, h2⟩, h3⟩, h4⟩ := h
  refine ⟨h1, h2, ?_, h4⟩
  intro p hp q hq heq
  exact h3 p hp (List.mem_map.2 ⟨q, hq, heq.symm⟩)

/-- invariant of the merge loop for a fixed op index `x`; `dn` = the pairs handled so far -/
structure MInv (B : List Block) (x : Nat) (dn : List (Nat × Nat)) (st : MergeSt) : Prop where
  len : st.blocks.length = B.length
  unmod : ∀ k, k ∉ dn.map (·.1) → st.blocks[k]? = B[k]?
  cntEq : cnt x (delFrom 0 st.blocks (dn.map (·.2))) + (poppedOps B dn).count x = cnt x B
  nonempty : ∀ b ∈ st.blocks, b.code ≠ []

theorem count_dropLast (x : Nat) (c : List Nat) (jb : Nat) (h : c.getLast? = some jb) :
    c.count x = c.dropLast.count x + (if jb = x then 1 else 0) := by
  obtain ⟨ys, rfl⟩ := List.getLast?_eq_some_iff.1 h
  by_cases hx : jb = x
  · subst hx; simp [List.count_append]
  · have : (jb == x) = false := by simpa using hx
    simp [List.count_append, List.count_cons, this, hx]

theorem mergeStep_inv {B : List Block} {x : Nat} {dn : List (Nat × Nat)} {st st' : MergeSt} {p : Nat × Nat}
    (hB : ∀ b ∈ B, b.code ≠ []) (inv : MInv B x dn st)
    (hb1 : p.1 < B.length) (hb2 : p.2 < B.length) (hne : p.1 ≠ p.2)
    (h11 : p.1 ∉ dn.map (·.1)) (h21 : p.2 ∉ dn.map (·.1)) (h12 : p.1 ∉ dn.map (·.2)) (h22 : p.2 ∉ dn.map (·.2))
    (h : mergeStep st p = .ok st') : MInv B x (dn ++ [p]) st' := by
  unfold mergeStep at h
  have e1 : st.blocks[p.1]? = some B[p.1] := by rw [inv.unmod p.1 h11]; exact List.getElem?_eq_getElem hb1
  have e2 : st.blocks[p.2]? = some B[p.2] := by rw [inv.unmod p.2 h21]; exact List.getElem?_eq_getElem hb2
  simp only [e1] at h
  have hcb : B[p.1].code ≠ [] := hB _ (List.getElem_mem hb1)
  have hcm : B[p.2].code ≠ [] := hB _ (List.getElem_mem hb2)
  cases hl : B[p.1].code.getLast? with
  | none => simp at hl; exact absurd hl hcb
  | some jb =>
    simp only [hl, hne, if_false, e2, Option.map_some, Option.getD_some] at h
    have hset2 : (st.blocks.set p.1 (Block.mk B[p.1].id (B[p.1].code.dropLast ++ B[p.2].code)))[p.2]? = some B[p.2] := by
      rw [List.getElem?_set_ne hne]; exact e2
    simp only [hset2, Option.bind_some] at h
    cases hh : B[p.2].code.head? with
    | none => simp at hh; exact absurd hh hcm
    | some first =>
      simp only [hh] at h
      -- the result, whatever the edge case
      have hst' : st'.blocks = st.blocks.set p.1 (Block.mk B[p.1].id (B[p.1].code.dropLast ++ B[p.2].code)) := by
        simp only [Except.ok.injEq] at h
        rw [← h]
      refine { len := ?_, unmod := ?_, cntEq := ?_, nonempty := ?_ }
      · rw [hst', List.length_set]; exact inv.len
      · intro k hk
        have hk1 : k ≠ p.1 := by
          intro heq; apply hk; simp [heq]
        have hk2 : k ∉ dn.map (·.1) := by
          intro hmem; apply hk; simp only [List.map_append, List.mem_append]; exact Or.inl hmem
        rw [hst', List.getElem?_set_ne (Ne.symm hk1)]
        exact inv.unmod k hk2
      · rw [hst']
        have hD : delFrom 0 (st.blocks.set p.1 (Block.mk B[p.1].id (B[p.1].code.dropLast ++ B[p.2].code)))
              ((dn ++ [p]).map (·.2)) =
            delFrom 0 (st.blocks.set p.1 (Block.mk B[p.1].id (B[p.1].code.dropLast ++ B[p.2].code)))
              ((0 + p.2) :: dn.map (·.2)) := by
          apply delFrom_congr
          intro j
          have hiff : (j ∈ (dn ++ [p]).map (·.2)) ↔ (j ∈ (0 + p.2) :: dn.map (·.2)) := by
            simp only [List.map_append, List.map_cons, List.map_nil, List.mem_append,
              List.mem_cons, Nat.zero_add, List.not_mem_nil, or_false]
            exact or_comm
          simp only [List.contains_eq_mem, decide_eq_decide]
          exact hiff
        rw [hD]
        have s1 := cnt_delFrom_del x _ 0 p.2 (dn.map (·.2)) B[p.2] hset2 (by simpa using h22)
        have s2 := cnt_delFrom_set x st.blocks 0 p.1 (dn.map (·.2)) B[p.1]
          (Block.mk B[p.1].id (B[p.1].code.dropLast ++ B[p.2].code)) e1 (by simpa using h12)
        have s3 := count_dropLast x B[p.1].code jb hl
        have s4 : (poppedOps B (dn ++ [p])).count x = (poppedOps B dn).count x + (if jb = x then 1 else 0) := by
          unfold poppedOps
          rw [List.filterMap_append, List.count_append]
          simp [List.getElem?_eq_getElem hb1, hl, List.count_cons]
        have s5 := inv.cntEq
        simp only [List.count_append] at s2
        omega
      · intro b hb
        rw [hst'] at hb
        rcases List.mem_or_eq_of_mem_set hb with hb | rfl
        · exact inv.nonempty b hb
        · simp only [ne_eq, List.append_eq_nil_iff, not_and]
          intro _; exact hcm

theorem mergeSteps_inv {B : List Block} {x : Nat} (hB : ∀ b ∈ B, b.code ≠ []) :
    ∀ (ps dn : List (Nat × Nat)) (st st' : MergeSt), GuardP B.length (dn ++ ps) → MInv B x dn st →
      mergeSteps st ps = .ok st' → MInv B x (dn ++ ps) st'
  | [], dn, st, st', _, inv, h => by simp [mergeSteps] at h; subst h; simpa using inv
  | p :: ps, dn, st, st', g, inv, h => by
    unfold mergeSteps at h
    cases h1 : mergeStep st p with
    | error e => simp [h1] at h
    | ok st1 =>
      simp only [h1] at h
      have hp : p ∈ dn ++ p :: ps := by simp
      have hb := g.bound p hp
      have hne : p.1 ≠ p.2 := g.disj p hp p hp
      have n1 := g.nodup1
      have n2 := g.nodup2
      simp only [List.map_append, List.map_cons] at n1 n2
      have h11 : p.1 ∉ dn.map (·.1) := by
        intro hm
        have := (List.nodup_append.1 n1).2.2 p.1 hm p.1 (by simp)
        exact this rfl
      have h22 : p.2 ∉ dn.map (·.2) := by
        intro hm
        have := (List.nodup_append.1 n2).2.2 p.2 hm p.2 (by simp)
        exact this rfl
      have h21 : p.2 ∉ dn.map (·.1) := by
        intro hm
        rcases List.mem_map.1 hm with ⟨q, hq, hq1⟩
        exact g.disj q (by simp [hq]) p hp hq1
      have h12 : p.1 ∉ dn.map (·.2) := by
        intro hm
        rcases List.mem_map.1 hm with ⟨q, hq, hq2⟩
        exact g.disj p hp q (by simp [hq]) hq2.symm
      have inv1 := mergeStep_inv hB inv hb.1 hb.2 hne h11 h21 h12 h22 h1
      have := mergeSteps_inv hB ps (dn ++ [p]) st1 st' (by simpa using g) inv1 h
      simpa using this

/-- `_remove_jmp_to_get_anext_and_merge` under the guard: blocks stay non-empty; every op of the input blocks
occurs in the output blocks as often as before, minus one occurrence for each time it is popped. -/
theorem mergeAnext_count {ops : Array Op} {B : List Block} {ml : List (Nat × Nat)} {out : SurgeryOut}
    (hB : ∀ b ∈ B, b.code ≠ []) (hml : mergeList ops B = .ok ml) (hg : mergeGuard B.length ml = true)
    (h : mergeAnext ops B = .ok out) :
    (∀ b ∈ out.blocks, b.code ≠ []) ∧
    ∀ x, (flat out.blocks).count x + (poppedOps B ml).count x = (flat B).count x := by
  unfold mergeAnext at h
  simp only [hml] at h
  cases h1 : mergeSteps { blocks := B } ml with
  | error e => simp [h1] at h
  | ok st =>
    simp only [h1] at h
    cases h2 : retarget st.mapTarget ops (deleteMerged st.blocks (ml.map (·.2))) with
    | error e => simp [h2] at h
    | ok ops' =>
      simp only [h2, Except.ok.injEq] at h
      subst h
      have g := guardP_of_mergeGuard hg
      have inv0 : ∀ x, MInv B x [] { blocks := B } := fun x =>
        { len := rfl, unmod := fun _ _ => rfl, nonempty := hB,
          cntEq := by
            simp only [List.map_nil, poppedOps, List.filterMap_nil, List.count_nil, Nat.add_zero]
            have : ∀ (L : List Block) (k : Nat), delFrom k L [] = L := by
              intro L
              induction L with
              | nil => intro k; simp [delFrom_nil]
              | cons a l ih => intro k; rw [delFrom_cons]; simp [ih]
            rw [this] }
      constructor
      · intro b hb
        have inv := mergeSteps_inv (x := 0) hB ml [] _ st (by simpa using g) (inv0 0) h1
        simp only at hb
        rw [deleteMerged_eq] at hb
        exact inv.nonempty b (mem_delFrom _ _ _ b hb)
      · intro x
        have inv := mergeSteps_inv (x := x) hB ml [] _ st (by simpa using g) (inv0 x) h1
        have := inv.cntEq
        simp only [List.nil_append] at this
        simpa [cnt, deleteMerged_eq] using this

/-! ### `_remove_jump_back_block` -/

def isJB (ops : Array Op) (b : Block) : Bool :=
  match isJumpBackBlock ops b with
  | .ok true => true
  | _ => false

theorem removeJumpBack_eq (ops : Array Op) : ∀ (bs bs' : List Block), removeJumpBack ops bs = .ok bs' →
    bs' = bs.filter (fun b => !isJB ops b)
  | [], bs', h => by simp [removeJumpBack] at h; subst h; rfl
  | b :: rest, bs', h => by
    unfold removeJumpBack at h
    cases h1 : isJumpBackBlock ops b with
    | error e => simp [h1] at h
    | ok drop =>
      cases h2 : removeJumpBack ops rest with
      | error e => simp [h1, h2] at h
      | ok rest' =>
        simp only [h1, h2, Except.ok.injEq] at h
        have ih := removeJumpBack_eq ops rest rest' h2
        subst h
        cases drop <;> simp [List.filter_cons, isJB, h1, ih]

theorem cnt_filter_split (x : Nat) (p : Block → Bool) : ∀ (bs : List Block),
    cnt x (bs.filter fun b => !p b) + cnt x (bs.filter p) = cnt x bs
  | [] => by simp [cnt_nil]
  | b :: bs => by
    have ih := cnt_filter_split x p bs
    simp only [List.filter_cons]
    cases p b <;> simp only [Bool.not_false, Bool.not_true, Bool.false_eq_true, if_true, if_false, cnt_cons] <;> omega

/-- the whole 3.12 surgery under the guard -/
theorem surgery_count {ops : Array Op} {B0 B1 : List Block} {ml : List (Nat × Nat)} {out : SurgeryOut}
    (hB : ∀ b ∈ B0, b.code ≠ []) (hrm : removeJumpBack ops B0 = .ok B1) (hml : mergeList ops B1 = .ok ml)
    (hg : mergeGuard B1.length ml = true) (h : surgery ops B0 = .ok out) :
    (∀ b ∈ out.blocks, b.code ≠ []) ∧
    ∀ x, (flat out.blocks).count x + (poppedOps B1 ml).count x + (jumpBackRemoved ops B0).count x =
      (flat B0).count x := by
  unfold surgery at h
  simp only [hrm] at h
  have heq := removeJumpBack_eq ops B0 B1 hrm
  have hB1 : ∀ b ∈ B1, b.code ≠ [] := by
    intro b hb; rw [heq] at hb; exact hB b (List.mem_filter.1 hb).1
  obtain ⟨hne, hc⟩ := mergeAnext_count hB1 hml hg h
  refine ⟨hne, ?_⟩
  intro x
  have := cnt_filter_split x (isJB ops) B0
  have hj : jumpBackRemoved ops B0 = flat (B0.filter (isJB ops)) := rfl
  rw [hj]
  have := hc x
  rw [heq] at this ⊢
  simp only [cnt] at *
  omega

/-- with a duplicate-free input: no op twice, and exactly the named ops are gone -/
theorem surgery_partition {ops : Array Op} {B0 B1 : List Block} {ml : List (Nat × Nat)} {out : SurgeryOut}
    (hB : ∀ b ∈ B0, b.code ≠ []) (hnd : (flat B0).Nodup) (hrm : removeJumpBack ops B0 = .ok B1)
    (hml : mergeList ops B1 = .ok ml) (hg : mergeGuard B1.length ml = true) (h : surgery ops B0 = .ok out) :
    (∀ b ∈ out.blocks, b.code ≠ []) ∧ (flat out.blocks).Nodup ∧
    ∀ x, x ∈ flat out.blocks ↔ (x ∈ flat B0 ∧ x ∉ poppedOps B1 ml ∧ x ∉ jumpBackRemoved ops B0) := by
  obtain ⟨hne, hc⟩ := surgery_count hB hrm hml hg h
  have h1 : ∀ x, (flat B0).count x ≤ 1 := List.nodup_iff_count.1 hnd
  refine ⟨hne, List.nodup_iff_count.2 (fun x => by have := hc x; have := h1 x; omega), ?_⟩
  intro x
  have e := hc x
  have l := h1 x
  rw [← List.count_pos_iff, ← List.count_pos_iff]
  constructor
  · intro hp
    refine ⟨by omega, ?_, ?_⟩
    · intro hm; have := List.count_pos_iff.2 hm; omega
    · intro hm; have := List.count_pos_iff.2 hm; omega
  · rintro ⟨hp, h2, h3⟩
    have z2 : (poppedOps B1 ml).count x = 0 := List.count_eq_zero.2 h2
    have z3 : (jumpBackRemoved ops B0).count x = 0 := List.count_eq_zero.2 h3
    omega

end PytypeModel.Blocks
