/-
Every graph reached by a well-formed history is well-formed (`Graph.WF`): `Binding::FindOrAddOrigin`
registers the binding at the node, nothing ever unregisters.
-/
import PytypeModel.Proofs.SolverFresh

namespace PytypeModel.Typegraph

/-- every origin's node lists the binding (implies `Graph.WF`; this is what `Graph.wfB` checks) -/
def Graph.Reg (g : Graph) : Prop :=
  ∀ b, b < g.bindings.length → ∀ o ∈ (g.binding b).origins, b ∈ (g.node o.node).bindings

theorem Graph.wf_of_reg {g : Graph} (h : g.Reg) : g.WF := by
  refine ⟨fun b n hb hs => ?_⟩
  cases ho : g.findOrigin b n with
  | none => simp [ho] at hs
  | some o =>
    obtain ⟨hmem, hn⟩ := findOrigin_some_mem ho
    exact hn ▸ h b hb o hmem

theorem getD_set' {α : Type} (l : List α) (i j : Nat) (x d : α) :
    (l.set i x).getD j d = if i = j ∧ i < l.length then x else l.getD j d := by
  simp only [List.getD_eq_getElem?_getD, List.getElem?_set]
  split
  · rename_i h; subst h
    split
    · rename_i h2; simp [h2]
    · rename_i h2; simp [h2]
  · rename_i h; simp [h]

theorem getD_append_left' {α : Type} (l r : List α) (j : Nat) (d : α) (h : j < l.length) :
    (l ++ r).getD j d = l.getD j d := by
  simp only [List.getD_eq_getElem?_getD, List.getElem?_append_left h]

theorem Graph.node_bindings_ge (g : Graph) (n : NodeId) (h : g.nodes.length ≤ n) :
    (g.node n).bindings = [] := by
  unfold Graph.node
  rw [List.getD_eq_getElem?_getD, List.getElem?_eq_none h]
  rfl

theorem Graph.Reg.node_lt {g : Graph} (h : g.Reg) {b : BId} (hb : b < g.bindings.length) {o : Origin}
    (ho : o ∈ (g.binding b).origins) : o.node < g.nodes.length := by
  have := h b hb o ho
  by_cases hlt : o.node < g.nodes.length
  · exact hlt
  · rw [g.node_bindings_ge _ (Nat.le_of_not_lt hlt)] at this
    exact absurd this List.not_mem_nil

/-! ### graph edits -/

theorem reg_addNode {g : Graph} (h : g.Reg) (c : Option BId) : (g.addNode c).Reg := by
  intro b hb o ho
  have hb' : b < g.bindings.length := hb
  have ho' : o ∈ (g.binding b).origins := ho
  have hlt := h.node_lt hb' ho'
  have : (g.addNode c).node o.node = g.node o.node := by
    unfold Graph.node Graph.addNode
    exact getD_append_left' _ _ _ _ hlt
  rw [this]
  exact h b hb' o ho'

theorem addEdge_node_bindings (g : Graph) (a b n : NodeId) :
    ((g.addEdge a b).node n).bindings = (g.node n).bindings := by
  unfold Graph.addEdge Graph.node
  simp only
  rw [getD_set']
  split
  · rename_i hc
    obtain ⟨rfl, _⟩ := hc
    simp only
    rw [getD_set']
    split
    · rename_i hc2
      obtain ⟨rfl, _⟩ := hc2
      rfl
    · rfl
  · rw [getD_set']
    split
    · rename_i hc2
      obtain ⟨rfl, _⟩ := hc2
      rfl
    · rfl

theorem reg_addEdge {g : Graph} (h : g.Reg) (a b : NodeId) : (g.addEdge a b).Reg := by
  intro x hx o ho
  rw [addEdge_node_bindings]
  exact h x hx o ho

theorem setCondition_node_bindings (g : Graph) (n : NodeId) (c : Option BId) (m : NodeId) :
    ((g.setCondition n c).node m).bindings = (g.node m).bindings := by
  unfold Graph.setCondition Graph.node
  simp only
  rw [getD_set']
  split
  · rename_i hc
    obtain ⟨rfl, _⟩ := hc
    rfl
  · rfl

theorem reg_setCondition {g : Graph} (h : g.Reg) (n : NodeId) (c : Option BId) : (g.setCondition n c).Reg := by
  intro x hx o ho
  rw [setCondition_node_bindings]
  exact h x hx o ho

theorem reg_newBinding {g : Graph} (h : g.Reg) (v : VId) (d a : Nat) : (g.newBinding v d a).1.Reg := by
  intro b hb o ho
  unfold Graph.newBinding at hb ho ⊢
  simp only [List.length_append, List.length_singleton] at hb
  by_cases hlt : b < g.bindings.length
  · have hbind : ({ g with bindings := g.bindings ++ [{ var := v, data := d, addr := a, origins := [] }] } : Graph).binding b
        = g.binding b := by
      unfold Graph.binding
      exact getD_append_left' _ _ _ _ hlt
    rw [hbind] at ho
    exact h b hlt o ho
  · have hb_eq : b = g.bindings.length := by omega
    subst hb_eq
    have hbind : (({ g with bindings := g.bindings ++ [{ var := v, data := d, addr := a, origins := [] }] } : Graph).binding
        g.bindings.length).origins = [] := by
      unfold Graph.binding
      simp [List.getD_eq_getElem?_getD]
    rw [hbind] at ho
    exact absurd ho List.not_mem_nil

theorem addOriginSS_lengths (g : Graph) (b : BId) (n : NodeId) (ss : List BId) :
    (g.addOriginSS b n ss).bindings.length = g.bindings.length ∧
    (g.addOriginSS b n ss).nodes.length = g.nodes.length := by
  unfold Graph.addOriginSS
  simp only
  split <;> simp

theorem reg_addOriginSS {g : Graph} (h : g.Reg) (b : BId) (n : NodeId) (ss : List BId)
    (_hb : b < g.bindings.length) (hn : n < g.nodes.length) : (g.addOriginSS b n ss).Reg := by
  intro x hx o ho
  have hx' : x < g.bindings.length := by rw [(addOriginSS_lengths g b n ss).1] at hx; exact hx
  unfold Graph.addOriginSS at ho ⊢
  simp only at ho ⊢
  split at ho
  · -- the origin exists: only source sets change
    rename_i hfind
    unfold Graph.binding at ho
    simp only at ho
    rw [getD_set'] at ho
    split at ho
    · rename_i hc
      obtain ⟨rfl, _⟩ := hc
      simp only [List.mem_map] at ho
      obtain ⟨o', ho', rfl⟩ := ho
      have hnode : (if (o'.node == n) = true then
          { o' with sourceSets := ssInsert g.addrOf (ofList ss) o'.sourceSets } else o').node = o'.node := by
        split <;> rfl
      rw [hnode]
      exact h b hx' o' ho'
    · exact h x hx' o ho
  · -- a new origin: the node registers the binding
    rename_i hfind
    have hnode : ∀ m, (({ g with
        bindings := g.bindings.set b { g.binding b with origins := (g.binding b).origins ++ [{ node := n, sourceSets := [ofList ss] }] },
        nodes := g.nodes.set n { g.node n with bindings := (g.node n).bindings ++ [b] } } : Graph).node m).bindings
        = if m = n then (g.node n).bindings ++ [b] else (g.node m).bindings := by
      intro m
      unfold Graph.node
      simp only
      rw [getD_set']
      split
      · rename_i hc
        obtain ⟨rfl, _⟩ := hc
        simp
      · rename_i hc
        have : n ≠ m := fun he => hc ⟨he, hn⟩
        simp [Ne.symm this]
    rw [hnode]
    unfold Graph.binding at ho
    simp only at ho
    rw [getD_set'] at ho
    split at ho
    · rename_i hc
      obtain ⟨rfl, _⟩ := hc
      simp only at ho
      rcases List.mem_append.1 ho with ho | ho
      · have := h b hx' o ho
        split
        · rename_i he; rw [he] at this; exact List.mem_append_left _ this
        · exact this
      · simp only [List.mem_singleton] at ho
        subst ho
        simp
    · have := h x hx' o ho
      split
      · rename_i he; rw [he] at this; exact List.mem_append_left _ this
      · exact this

/-! ### program operations -/

/-- the graph is registered and ids that were in range stay in range -/
structure Keeps (N B : Nat) (s : PState) : Prop where
  reg : s.g.Reg
  nodes : N ≤ s.g.nodes.length
  bindings : B ≤ s.g.bindings.length

theorem Keeps.mono {N B N' B' : Nat} {s : PState} (h : Keeps N B s) (hN : N' ≤ N) (hB : B' ≤ B) :
    Keeps N' B' s := ⟨h.reg, Nat.le_trans hN h.nodes, Nat.le_trans hB h.bindings⟩

theorem keeps_foldl {α : Type} {N B : Nat} (f : PState → α → PState) (P : α → Prop)
    (hf : ∀ s x, P x → Keeps N B s → Keeps N B (f s x)) :
    ∀ (xs : List α) (s : PState), (∀ x ∈ xs, P x) → Keeps N B s → Keeps N B (xs.foldl f s)
  | [], _, _, h => h
  | x :: xs, s, hp, h =>
    keeps_foldl f P hf xs (f s x) (fun y hy => hp y (List.mem_cons_of_mem _ hy))
      (hf s x (hp x List.mem_cons_self) h)

theorem keeps_newNode {N B : Nat} {s : PState} (h : Keeps N B s) (c) : Keeps N B (s.newNode c) :=
  ⟨reg_addNode h.reg c, by
    show N ≤ (s.g.addNode c).nodes.length
    unfold Graph.addNode; simp only [List.length_append, List.length_singleton]; exact Nat.le_succ_of_le h.nodes,
   h.bindings⟩

theorem addEdge_lengths (g : Graph) (a b : NodeId) :
    (g.addEdge a b).nodes.length = g.nodes.length ∧ (g.addEdge a b).bindings.length = g.bindings.length := by
  unfold Graph.addEdge; simp

theorem keeps_connectTo {N B : Nat} {s : PState} (h : Keeps N B s) (a b) : Keeps N B (s.connectTo a b) := by
  unfold PState.connectTo
  split
  · exact ⟨reg_addEdge h.reg a b, by
      show N ≤ (s.g.addEdge a b).nodes.length
      rw [(addEdge_lengths s.g a b).1]; exact h.nodes, by
      show B ≤ (s.g.addEdge a b).bindings.length
      rw [(addEdge_lengths s.g a b).2]; exact h.bindings⟩
  · exact h

theorem keeps_findOrAddBinding {N B : Nat} {s : PState} (h : Keeps N B s) (v d) :
    Keeps N B (s.findOrAddBinding v d).1 ∧ (s.findOrAddBinding v d).2 < (s.findOrAddBinding v d).1.g.bindings.length := by
  unfold PState.findOrAddBinding
  split
  · rename_i b hb
    refine ⟨h, ?_⟩
    simp only
    unfold Graph.findBinding at hb
    have := List.mem_of_find?_eq_some hb
    unfold Graph.varBindings at this
    rw [List.mem_filter, List.mem_range] at this
    exact this.1
  · have hr := reg_newBinding h.reg v d (s.addrs.getD s.g.bindings.length s.g.bindings.length)
    simp only [Graph.newBinding] at hr ⊢
    refine ⟨⟨hr, h.nodes, ?_⟩, ?_⟩
    · simp only [List.length_append, List.length_singleton]
      exact Nat.le_succ_of_le h.bindings
    · simp

theorem keeps_addOrigin {N B : Nat} {s : PState} (h : Keeps N B s) (b n ss)
    (hb : b < s.g.bindings.length) (hn : n < s.g.nodes.length) : Keeps N B (s.addOrigin b n ss) :=
  ⟨reg_addOriginSS h.reg b n ss hb hn, by
    show N ≤ (s.g.addOriginSS b n ss).nodes.length
    rw [(addOriginSS_lengths s.g b n ss).2]; exact h.nodes, by
    show B ≤ (s.g.addOriginSS b n ss).bindings.length
    rw [(addOriginSS_lengths s.g b n ss).1]; exact h.bindings⟩

theorem keeps_copyOrigins {N B : Nat} {s : PState} (h : Keeps N B s) (tgt other : BId) (w : Option NodeId)
    (add : List BId) (ht : tgt < s.g.bindings.length) (ho : other < s.g.bindings.length)
    (hw : ∀ n, w = some n → n < s.g.nodes.length) :
    Keeps N B (s.copyOrigins tgt other w add) ∧
    s.g.bindings.length ≤ (s.copyOrigins tgt other w add).g.bindings.length := by
  have hmono : ∀ s' : PState, Keeps s.g.nodes.length s.g.bindings.length s' →
      Keeps N B s' ∧ s.g.bindings.length ≤ s'.g.bindings.length :=
    fun s' hk => ⟨hk.mono h.nodes h.bindings, hk.bindings⟩
  have h0 : Keeps s.g.nodes.length s.g.bindings.length s := ⟨h.reg, Nat.le_refl _, Nat.le_refl _⟩
  unfold PState.copyOrigins
  split
  · rename_i n
    exact hmono _ (keeps_addOrigin h0 _ _ _ ht (hw n rfl))
  · apply hmono
    apply keeps_foldl _ (fun o : Origin => o.node < s.g.nodes.length) _ _ _ _ h0
    · intro s1 o hon hk
      apply keeps_foldl _ (fun _ : List BId => True) _ _ _ (fun _ _ => trivial) hk
      intro s2 ss _ hk2
      exact keeps_addOrigin hk2 _ _ _ (Nat.lt_of_lt_of_le ht hk2.bindings) (Nat.lt_of_lt_of_le hon hk2.nodes)
    · intro o hoo
      exact h.reg.node_lt ho hoo

theorem keeps_pasteBinding {N B : Nat} {s : PState} (h : Keeps N B s) (v : VId) (b : BId) (w : Option NodeId)
    (add : List BId) (hb : b < s.g.bindings.length) (hw : ∀ n, w = some n → n < s.g.nodes.length) :
    Keeps N B (s.pasteBinding v b w add) ∧ s.g.bindings.length ≤ (s.pasteBinding v b w add).g.bindings.length := by
  have h0 : Keeps s.g.nodes.length s.g.bindings.length s := ⟨h.reg, Nat.le_refl _, Nat.le_refl _⟩
  unfold PState.pasteBinding
  obtain ⟨h1, h2⟩ := keeps_findOrAddBinding h0 v (s.g.binding b).data
  generalize s.findOrAddBinding v (s.g.binding b).data = r at h1 h2
  obtain ⟨s1, nb⟩ := r
  simp only at h1 h2 ⊢
  have hb1 : b < s1.g.bindings.length := Nat.lt_of_lt_of_le hb h1.bindings
  have hw1 : ∀ n, w = some n → n < s1.g.nodes.length := fun n hn => Nat.lt_of_lt_of_le (hw n hn) h1.nodes
  have fin : ∀ w', (∀ n, w' = some n → n < s1.g.nodes.length) →
      Keeps N B (s1.copyOrigins nb b w' add) ∧ s.g.bindings.length ≤ (s1.copyOrigins nb b w' add).g.bindings.length := by
    intro w' hw'
    obtain ⟨k1, k2⟩ := keeps_copyOrigins h1 nb b w' add h2 hb1 hw'
    exact ⟨k1.mono h.nodes h.bindings, Nat.le_trans h1.bindings k2⟩
  split
  · exact fin none (by simp)
  · rename_i n
    split
    · exact fin (some n) hw1
    · exact fin none (by simp)

theorem keeps_setCond {N B : Nat} {s : PState} (h : Keeps N B s) (n c) : Keeps N B (s.setCond n c) :=
  ⟨reg_setCondition h.reg n c, by
    show N ≤ (s.g.setCondition n c).nodes.length
    unfold Graph.setCondition; simp only [List.length_set]; exact h.nodes,
   h.bindings⟩

/-- a well-formed operation keeps the graph registered -/
theorem reg_step (s : PState) (op : Op) (hreg : s.g.Reg) (hok : op.ok s = true) : (s.step op).g.Reg := by
  have h0 : Keeps s.g.nodes.length s.g.bindings.length s := ⟨hreg, Nat.le_refl _, Nat.le_refl _⟩
  have okON : ∀ w : Option NodeId, s.okON w = true → ∀ n, w = some n → n < s.g.nodes.length := by
    intro w hw n hn
    subst hn
    simpa [PState.okON, PState.okNode] using hw
  cases op with
  | newNode c => exact (keeps_newNode h0 c).reg
  | connectNew a c =>
    exact (keeps_connectTo (keeps_newNode h0 c) a _).reg
  | connectTo a b => exact (keeps_connectTo h0 a b).reg
  | newVar => exact hreg
  | newVarWith ds ss w =>
    simp only [Op.ok, Bool.and_eq_true, PState.okNode, decide_eq_true_eq] at hok
    show (s.newVarWith ds ss w).g.Reg
    unfold PState.newVarWith
    simp only [PState.newVar]
    have hk0 : Keeps s.g.nodes.length s.g.bindings.length ({ s with nVars := s.nVars + 1 } : PState) :=
      ⟨hreg, Nat.le_refl _, Nat.le_refl _⟩
    refine (keeps_foldl (N := s.g.nodes.length) (B := s.g.bindings.length) _ (fun _ : Nat => True) ?_ ds _
      (fun _ _ => trivial) hk0).reg
    intro s1 d _ hk
    obtain ⟨h1, h2⟩ := keeps_findOrAddBinding hk s.nVars d
    generalize s1.findOrAddBinding s.nVars d = r at h1 h2
    obtain ⟨s2, b⟩ := r
    exact keeps_addOrigin h1 _ _ _ h2 (Nat.lt_of_lt_of_le hok.2 h1.nodes)
  | addBinding v d o =>
    show (s.addBinding v d o).g.Reg
    unfold PState.addBinding
    obtain ⟨h1, h2⟩ := keeps_findOrAddBinding h0 v d
    generalize s.findOrAddBinding v d = r at h1 h2
    obtain ⟨s1, b⟩ := r
    simp only at h1 h2 ⊢
    split
    · exact h1.reg
    · rename_i ss w
      simp only [Op.ok, Bool.and_eq_true, PState.okNode, decide_eq_true_eq] at hok
      exact (keeps_addOrigin h1 _ _ _ h2 (Nat.lt_of_lt_of_le hok.2.2 h1.nodes)).reg
  | addOrigin b w ss =>
    simp only [Op.ok, Bool.and_eq_true, PState.okNode, PState.okB, decide_eq_true_eq] at hok
    exact (keeps_addOrigin h0 b w ss hok.1.1 hok.1.2).reg
  | pasteBinding v b w a =>
    simp only [Op.ok, Bool.and_eq_true, PState.okB, decide_eq_true_eq] at hok
    exact (keeps_pasteBinding h0 v b w a hok.1.1.2 (okON w hok.1.2)).1.reg
  | pasteVariable v v2 w a =>
    simp only [Op.ok, Bool.and_eq_true] at hok
    show (s.pasteVariable v v2 w a).g.Reg
    unfold PState.pasteVariable
    refine (keeps_foldl (N := s.g.nodes.length) (B := s.g.bindings.length) _
      (fun b : BId => b < s.g.bindings.length) ?_ _ _ ?_ h0).reg
    · intro s1 b hb hk
      exact (keeps_pasteBinding hk v b w a (Nat.lt_of_lt_of_le hb hk.bindings)
        (fun n hn => Nat.lt_of_lt_of_le (okON w hok.1.2 n hn) hk.nodes)).1
    · intro b hb
      unfold Graph.varBindings at hb
      rw [List.mem_filter, List.mem_range] at hb
      exact hb.1
  | pasteNewData v b d =>
    simp only [Op.ok, Bool.and_eq_true, PState.okB, decide_eq_true_eq] at hok
    show (s.pasteNewData v b d).g.Reg
    unfold PState.pasteNewData
    obtain ⟨h1, h2⟩ := keeps_findOrAddBinding h0 v d
    generalize s.findOrAddBinding v d = r at h1 h2
    obtain ⟨s1, nb⟩ := r
    exact (keeps_copyOrigins h1 nb b none [] h2 (Nat.lt_of_lt_of_le hok.2 h1.bindings) (by simp)).1.reg
  | assignBinding b w =>
    simp only [Op.ok, Bool.and_eq_true, PState.okB, decide_eq_true_eq] at hok
    show (s.assignBinding b w).g.Reg
    unfold PState.assignBinding
    simp only [PState.newVar]
    have h0' : Keeps s.g.nodes.length s.g.bindings.length { s with nVars := s.nVars + 1 } :=
      ⟨hreg, Nat.le_refl _, Nat.le_refl _⟩
    obtain ⟨h1, h2⟩ := keeps_findOrAddBinding h0' s.nVars (s.g.binding b).data
    generalize ({ s with nVars := s.nVars + 1 } : PState).findOrAddBinding s.nVars (s.g.binding b).data = r at h1 h2
    obtain ⟨s1, nb⟩ := r
    exact (keeps_copyOrigins h1 nb b w [] h2 (Nat.lt_of_lt_of_le hok.1 h1.bindings)
      (fun n hn => Nat.lt_of_lt_of_le (okON w hok.2 n hn) h1.nodes)).1.reg
  | assignVar v w =>
    simp only [Op.ok, Bool.and_eq_true] at hok
    show (s.assignVar v w).g.Reg
    unfold PState.assignVar
    simp only [PState.newVar]
    have hk0 : Keeps s.g.nodes.length s.g.bindings.length ({ s with nVars := s.nVars + 1 } : PState) :=
      ⟨hreg, Nat.le_refl _, Nat.le_refl _⟩
    refine (keeps_foldl (N := s.g.nodes.length) (B := s.g.bindings.length) _
      (fun b : BId => b < s.g.bindings.length) ?_ _ _ ?_ hk0).reg
    · intro s1 b hb hk
      obtain ⟨h1, h2⟩ := keeps_findOrAddBinding hk s.nVars (s1.g.binding b).data
      generalize s1.findOrAddBinding s.nVars (s1.g.binding b).data = r at h1 h2
      obtain ⟨s2, nb⟩ := r
      exact (keeps_copyOrigins h1 nb b w [] h2 (Nat.lt_of_lt_of_le hb h1.bindings)
        (fun n hn => Nat.lt_of_lt_of_le (okON w hok.2 n hn) h1.nodes)).1
    · intro b hb
      unfold Graph.varBindings at hb
      rw [List.mem_filter, List.mem_range] at hb
      exact hb.1
  | setCond n c => exact (keeps_setCond h0 n c).reg
  | query q => exact (ask_g s q).symm ▸ hreg

theorem reg_empty : Graph.empty.Reg := by
  intro b hb; simp [Graph.empty] at hb

theorem reg_run : ∀ (ops : List Op) (s : PState), s.g.Reg → wfHistory s ops = true → (s.run ops).g.Reg
  | [], _, h, _ => h
  | op :: ops, s, h, hwf => by
    simp only [wfHistory, Bool.and_eq_true] at hwf
    exact reg_run ops (s.step op) (reg_step s op h hwf.1) hwf.2

/-- **every graph built by a well-formed history is well-formed** -/
theorem wf_run (addrs : List Nat) (ops : List Op) (h : wfHistory (PState.init addrs) ops = true) :
    ((PState.init addrs).run ops).g.WF :=
  Graph.wf_of_reg (reg_run ops _ reg_empty h)

end PytypeModel.Typegraph
