import PytypeModel.Proofs.MatcherUnion

/-! Exactness for the one-parameter generics (`list`, `set`, `frozenset`, `tuple[a, ...]`, `Sequence`, `Iterable`). -/
namespace PytypeModel.Sem

/-- the views of `abs x` for the elements `x` of a display -/
theorem forall_absL {xs : List Val} {f : ATy → Prop} :
    (∀ t, t ∈ absL xs → f t) ↔ ∀ x, x ∈ xs → f (abs x) := by
  rw [absL_eq_map]; simp

/-- a container instance against a one-parameter generic: class table, then every view of every element -/
theorem cont_gen1 (H : Hierarchy) (c : Cont) (xs : List Val) (g : G1) (a : Ann) (hg : g ≠ .coll) :
    (∀ w, w ∈ views (.cont c (absL xs)) → matchV H w (.gen1 g a) = true) ↔
      contUnder c g = true ∧ ∀ x, x ∈ xs → ∀ w, w ∈ views (abs x) → matchV H w a = true := by
  have hgb : (g == G1.coll) = false := by cases g <;> simp at hg ⊢
  simp only [views, List.mem_map, forall_exists_index, and_imp, forall_apply_eq_imp_iff₂]
  simp only [matchV, hgb, Bool.false_or, Bool.and_eq_true]
  rw [← forall_absL (f := fun t => ∀ w, w ∈ views t → matchV H w a = true),
    ← forall_viewsVar (f := fun w => matchV H w a = true) (by simp [matchV])]
  constructor
  · intro h
    obtain ⟨p, hp⟩ := exists_viewsVar (absL xs)
    exact ⟨(h p hp).1, fun p hp => (h p hp).2⟩
  · rintro ⟨h1, h2⟩ p hp
    exact ⟨h1, h2 p hp⟩

/-- a tuple instance against a one-parameter generic -/
theorem tuple_gen1 (H : Hierarchy) (xs : List Val) (g : G1) (a : Ann) (hg : g ≠ .coll) :
    (∀ w, w ∈ views (.tuple (absL xs)) → matchV H w (.gen1 g a) = true) ↔
      tupleUnder g = true ∧ ∀ x, x ∈ xs → ∀ w, w ∈ views (abs x) → matchV H w a = true := by
  have hgb : (g == G1.coll) = false := by cases g <;> simp at hg ⊢
  simp only [views, List.mem_map, forall_exists_index, and_imp, forall_apply_eq_imp_iff₂]
  simp only [matchV, hgb, Bool.false_or, Bool.and_eq_true, List.all_eq_true]
  rw [← forall_absL (f := fun t => ∀ w, w ∈ views t → matchV H w a = true),
    ← forall_viewsProd_all (f := fun w => matchV H w a = true)]
  constructor
  · intro h
    obtain ⟨p, hp⟩ := exists_viewsProd (absL xs)
    exact ⟨(h p hp).1, fun p hp => (h p hp).2⟩
  · rintro ⟨h1, h2⟩ p hp
    exact ⟨h1, h2 p hp⟩

/-- a dict instance against a one-parameter generic: only `Iterable` (over the keys) -/
theorem dict_gen1 (H : Hierarchy) (ks vs : List Val) (g : G1) (a : Ann) (hg : g ≠ .coll) :
    (∀ w, w ∈ views (.dict (absL ks) (absL vs)) → matchV H w (.gen1 g a) = true) ↔
      g = .iter ∧ ∀ x, x ∈ ks → ∀ w, w ∈ views (abs x) → matchV H w a = true := by
  have hgb : (g == G1.coll) = false := by cases g <;> simp at hg ⊢
  simp only [views, List.mem_flatMap, List.mem_map, forall_exists_index, and_imp]
  rw [← forall_absL (f := fun t => ∀ w, w ∈ views t → matchV H w a = true),
    ← forall_viewsVar (f := fun w => matchV H w a = true) (by simp [matchV])]
  constructor
  · intro h
    obtain ⟨v0, hv0⟩ := exists_viewsVar (absL vs)
    obtain ⟨k0, hk0⟩ := exists_viewsVar (absL ks)
    have h0 := h _ k0 hk0 v0 hv0 rfl
    simp only [matchV, hgb, Bool.or_false, Bool.and_eq_true, beq_iff_eq] at h0
    refine ⟨h0.1, fun k hk => ?_⟩
    have := h _ k hk v0 hv0 rfl
    simp only [matchV, hgb, Bool.or_false, Bool.and_eq_true, beq_iff_eq] at this
    exact this.2
  · rintro ⟨rfl, h2⟩ w k hk v _ rfl
    simp [matchV, h2 k hk]

theorem gen1_ne_coll {v : Val} {g : G1} {a : Ann} (hG : Guard v (.gen1 g a) = true) : g ≠ .coll := by
  have := Guard.notColl hG
  simp only [Ann.allSub, Bool.and_eq_true] at this
  intro h; subst h
  simp [Ann.notColl] at this

theorem all_member_iff (H : Hierarchy) (a : Ann) (ih : Exact H a) (xs : List Val)
    (hG : ∀ x, x ∈ xs → Guard x a = true) :
    (∀ x, x ∈ xs → ∀ w, w ∈ views (abs x) → matchV H w a = true) ↔ (xs.all fun x => member H x a) = true := by
  simp only [List.all_eq_true]
  constructor
  · intro h x hx; exact (ih x (hG x hx)).1 (h x hx)
  · intro h x hx; exact (ih x (hG x hx)).2 (h x hx)

theorem exact_gen1 (H : Hierarchy) (g : G1) (a : Ann) (ih : Exact H a) : Exact H (.gen1 g a) := by
  intro v hG
  have hc := gen1_ne_coll hG
  cases v with
  | int _ | bool _ | float _ | complex _ | none | inst _ | clsobj _ | bclsobj _ | func _ =>
    simp [abs, views, matchV, member]
  | str n =>
    have hGa : Guard (.str n) a = true := Guard.step (ValStep.refl _) (AnnStep.gen1 g a) hG
    have hok : strIterOk g a = true := by
      simp only [Guard, Bool.and_eq_true, Bool.or_eq_true] at hG
      rcases hG.1.1.1 with h | h
      · simp [Val.allSub, Val.notStr] at h
      · simp only [Ann.allSub, Bool.and_eq_true, Ann.notStrIter] at h; exact h.1
    have ih' := ih (.str n) hGa
    simp only [abs, views, List.mem_singleton, forall_eq] at ih' ⊢
    cases g <;> simp [matchV, member, seqLike, hok, ih'] at hc ⊢
  | bytes n =>
    have hGa : Guard (.int 0) a = true := Guard.int 0 (by
      have := Guard.notColl hG
      simp only [Ann.allSub, Bool.and_eq_true] at this; exact this.2)
    have ih' := ih (.int 0) hGa
    simp only [abs, views, List.mem_singleton, forall_eq] at ih' ⊢
    cases g <;> simp [matchV, member, seqLike, ih'] at hc ⊢
  | list xs =>
    have hGx : ∀ x, x ∈ xs → Guard x a = true :=
      fun x hx => Guard.step (ValStep.list hx) (AnnStep.gen1 g a) hG
    simp only [abs]
    rw [cont_gen1 H .list xs g a hc, all_member_iff H a ih xs hGx]
    cases g <;> simp [contUnder, member] at hc ⊢
  | set xs =>
    have hGx : ∀ x, x ∈ xs → Guard x a = true :=
      fun x hx => Guard.step (ValStep.set hx) (AnnStep.gen1 g a) hG
    simp only [abs]
    rw [cont_gen1 H .set xs g a hc, all_member_iff H a ih xs hGx]
    cases g <;> simp [contUnder, member] at hc ⊢
  | fset xs =>
    have hGx : ∀ x, x ∈ xs → Guard x a = true :=
      fun x hx => Guard.step (ValStep.fset hx) (AnnStep.gen1 g a) hG
    simp only [abs]
    rw [cont_gen1 H .fset xs g a hc, all_member_iff H a ih xs hGx]
    cases g <;> simp [contUnder, member] at hc ⊢
  | tuple xs =>
    have hGx : ∀ x, x ∈ xs → Guard x a = true :=
      fun x hx => Guard.step (ValStep.tuple hx) (AnnStep.gen1 g a) hG
    simp only [abs]
    rw [tuple_gen1 H xs g a hc, all_member_iff H a ih xs hGx]
    cases g <;> simp [tupleUnder, member] at hc ⊢
  | dict ks vs =>
    have hGx : ∀ x, x ∈ ks → Guard x a = true :=
      fun x hx => Guard.step (ValStep.dictKey hx) (AnnStep.gen1 g a) hG
    simp only [abs]
    rw [dict_gen1 H ks vs g a hc, all_member_iff H a ih ks hGx]
    cases g <;> simp [member] at hc ⊢

end PytypeModel.Sem
