/-
Lemmas about the `Program` state machine (C08): which steps reset the solver, and that the graph part
of the state does not depend on the solver memo (so a fresh replica reaches the same graph).
-/
import PytypeModel.Typegraph.Program

namespace PytypeModel.Typegraph

/-- `s'` was obtained from `s` by code that either dropped the solver, or left graph and solver alone. -/
def Step (s s' : PState) : Prop :=
  (s'.memo = none ∨ (s'.g = s.g ∧ s'.memo = s.memo)) ∧ s'.addrs = s.addrs

theorem Step.rfl' (s : PState) : Step s s := ⟨Or.inr ⟨rfl, rfl⟩, rfl⟩

theorem Step.trans {a b c : PState} (h1 : Step a b) (h2 : Step b c) : Step a c := by
  refine ⟨?_, h2.2.trans h1.2⟩
  rcases h2.1 with h | ⟨hg, hm⟩
  · exact Or.inl h
  · rcases h1.1 with h | ⟨hg1, hm1⟩
    · exact Or.inl (hm.trans h)
    · exact Or.inr ⟨hg.trans hg1, hm.trans hm1⟩

theorem Step.foldl {α : Type} (f : PState → α → PState) (hf : ∀ s x, Step s (f s x)) :
    ∀ (xs : List α) (s : PState), Step s (xs.foldl f s)
  | [], s => Step.rfl' s
  | x :: xs, s => (hf s x).trans (Step.foldl f hf xs (f s x))

theorem step_invalidate_with (s : PState) (g' : Graph) : Step s { s.invalidate with g := g' } :=
  ⟨Or.inl rfl, rfl⟩

theorem step_newNode (s : PState) (c) : Step s (s.newNode c) := step_invalidate_with s _

theorem step_connectTo (s : PState) (a b) : Step s (s.connectTo a b) := by
  unfold PState.connectTo
  split
  · exact step_invalidate_with s _
  · exact Step.rfl' s

theorem step_connectNew (s : PState) (a c) : Step s (s.connectNew a c) :=
  (step_newNode s c).trans (step_connectTo _ _ _)

theorem step_newVar (s : PState) : Step s s.newVar.1 := ⟨Or.inr ⟨rfl, rfl⟩, rfl⟩

theorem step_findOrAddBinding (s : PState) (v d) : Step s (s.findOrAddBinding v d).1 := by
  unfold PState.findOrAddBinding
  split
  · exact Step.rfl' s
  · exact step_invalidate_with s _

theorem step_addOrigin (s : PState) (b n ss) : Step s (s.addOrigin b n ss) := step_invalidate_with s _

theorem step_copyOrigins (s : PState) (tgt other w add) : Step s (s.copyOrigins tgt other w add) := by
  unfold PState.copyOrigins
  split
  · exact step_addOrigin _ _ _ _
  · exact Step.foldl _ (fun s o => Step.foldl _ (fun s ss => step_addOrigin _ _ _ _) _ _) _ _

theorem step_pasteBinding (s : PState) (v b w add) : Step s (s.pasteBinding v b w add) := by
  unfold PState.pasteBinding
  have h1 := step_findOrAddBinding s v (s.g.binding b).data
  generalize s.findOrAddBinding v (s.g.binding b).data = r at h1
  obtain ⟨s1, nb⟩ := r
  dsimp only at h1 ⊢
  split
  · exact h1.trans (step_copyOrigins _ _ _ _ _)
  · split <;> exact h1.trans (step_copyOrigins _ _ _ _ _)

theorem step_pasteVariable (s : PState) (v v2 w add) : Step s (s.pasteVariable v v2 w add) :=
  Step.foldl _ (fun s b => step_pasteBinding s v b w add) _ _

theorem step_pasteNewData (s : PState) (v b d) : Step s (s.pasteNewData v b d) := by
  unfold PState.pasteNewData
  have h1 := step_findOrAddBinding s v d
  generalize s.findOrAddBinding v d = r at h1
  obtain ⟨s1, nb⟩ := r
  exact h1.trans (step_copyOrigins _ _ _ _ _)

theorem step_assignBinding (s : PState) (b w) : Step s (s.assignBinding b w) := by
  unfold PState.assignBinding
  have h0 := step_newVar s
  generalize s.newVar = r0 at h0
  obtain ⟨s1, v⟩ := r0
  dsimp only at h0 ⊢
  have h1 := step_findOrAddBinding s1 v (s1.g.binding b).data
  generalize s1.findOrAddBinding v (s1.g.binding b).data = r at h1
  obtain ⟨s2, nb⟩ := r
  exact h0.trans (h1.trans (step_copyOrigins _ _ _ _ _))

theorem step_assignVar (s : PState) (v w) : Step s (s.assignVar v w) := by
  unfold PState.assignVar
  have h0 := step_newVar s
  generalize s.newVar = r0 at h0
  obtain ⟨s1, v'⟩ := r0
  dsimp only at h0 ⊢
  refine h0.trans (Step.foldl _ (fun s b => ?_) _ _)
  have h1 := step_findOrAddBinding s v' (s.g.binding b).data
  generalize s.findOrAddBinding v' (s.g.binding b).data = r at h1
  obtain ⟨s2, nb⟩ := r
  exact h1.trans (step_copyOrigins _ _ _ _ _)

theorem step_newVarWith (s : PState) (ds ss w) : Step s (s.newVarWith ds ss w) := by
  unfold PState.newVarWith
  have h0 := step_newVar s
  generalize s.newVar = r0 at h0
  obtain ⟨s1, v⟩ := r0
  dsimp only at h0 ⊢
  refine h0.trans (Step.foldl _ (fun s d => ?_) _ _)
  have h1 := step_findOrAddBinding s v d
  generalize s.findOrAddBinding v d = r at h1
  obtain ⟨s2, nb⟩ := r
  exact h1.trans (step_addOrigin _ _ _ _)

theorem step_addBinding (s : PState) (v d o) : Step s (s.addBinding v d o) := by
  unfold PState.addBinding
  have h1 := step_findOrAddBinding s v d
  generalize s.findOrAddBinding v d = r at h1
  obtain ⟨s1, b⟩ := r
  dsimp only at h1 ⊢
  split
  · exact h1
  · exact h1.trans (step_addOrigin _ _ _ _)

theorem step_setCond (s : PState) (n c) : Step s (s.setCond n c) := step_invalidate_with s _

/-- every non-query operation either drops the solver or leaves graph and solver untouched -/
theorem step_of_nonquery (s : PState) (op : Op) (h : op.isQuery = false) : Step s (s.step op) := by
  cases op with
  | newNode c => exact step_newNode s c
  | connectNew a c => exact step_connectNew s a c
  | connectTo a b => exact step_connectTo s a b
  | newVar => exact step_newVar s
  | newVarWith ds ss w => exact step_newVarWith s ds ss w
  | addBinding v d o => exact step_addBinding s v d o
  | addOrigin b w ss => exact step_addOrigin s b w ss
  | pasteBinding v b w a => exact step_pasteBinding s v b w a
  | pasteVariable v v2 w a => exact step_pasteVariable s v v2 w a
  | pasteNewData v b d => exact step_pasteNewData s v b d
  | assignBinding b w => exact step_assignBinding s b w
  | assignVar v w => exact step_assignVar s v w
  | setCond n c => exact step_setCond s n c
  | query q => simp [Op.isQuery] at h

/-! ### queries leave everything but the memo alone -/

theorem ask_g (s : PState) (q : Query) : (s.ask q).2.g = s.g := by
  unfold PState.ask; split <;> rfl
theorem ask_nVars (s : PState) (q : Query) : (s.ask q).2.nVars = s.nVars := by
  unfold PState.ask; split <;> rfl
theorem ask_addrs (s : PState) (q : Query) : (s.ask q).2.addrs = s.addrs := by
  unfold PState.ask; split <;> rfl

theorem ask_fst (s : PState) (q : Query) : (s.ask q).1 = (answerWith s.g (s.memo.getD []) q).1 := by
  unfold PState.ask; split <;> simp_all

/-! ### the graph part of a step does not depend on the memo -/

/-- agreement on everything but the solver -/
def CoreEq (s t : PState) : Prop := s.g = t.g ∧ s.nVars = t.nVars ∧ s.addrs = t.addrs

theorem CoreEq.rfl' (s : PState) : CoreEq s s := ⟨rfl, rfl, rfl⟩

theorem CoreEq.foldl {α : Type} (f : PState → α → PState)
    (hf : ∀ s t x, CoreEq s t → CoreEq (f s x) (f t x)) :
    ∀ (xs : List α) (s t : PState), CoreEq s t → CoreEq (xs.foldl f s) (xs.foldl f t)
  | [], _, _, h => h
  | x :: xs, s, t, h => CoreEq.foldl f hf xs _ _ (hf s t x h)

theorem core_newNode {s t} (h : CoreEq s t) (c) : CoreEq (s.newNode c) (t.newNode c) := by
  obtain ⟨hg, hv, ha⟩ := h
  exact ⟨by simp [PState.newNode, hg], hv, ha⟩

theorem core_connectTo {s t} (h : CoreEq s t) (a b) : CoreEq (s.connectTo a b) (t.connectTo a b) := by
  obtain ⟨hg, hv, ha⟩ := h
  unfold PState.connectTo
  rw [hg]
  split
  · exact ⟨by simp, hv, ha⟩
  · exact ⟨hg, hv, ha⟩

theorem core_connectNew {s t} (h : CoreEq s t) (a c) : CoreEq (s.connectNew a c) (t.connectNew a c) := by
  unfold PState.connectNew
  rw [h.1]
  exact core_connectTo (core_newNode h c) _ _

theorem core_newVar {s t} (h : CoreEq s t) : CoreEq s.newVar.1 t.newVar.1 ∧ s.newVar.2 = t.newVar.2 := by
  obtain ⟨hg, hv, ha⟩ := h
  exact ⟨⟨hg, by simp [PState.newVar, hv], ha⟩, hv⟩

theorem core_findOrAddBinding {s t} (h : CoreEq s t) (v d) :
    CoreEq (s.findOrAddBinding v d).1 (t.findOrAddBinding v d).1 ∧
    (s.findOrAddBinding v d).2 = (t.findOrAddBinding v d).2 := by
  obtain ⟨hg, hv, ha⟩ := h
  unfold PState.findOrAddBinding
  rw [hg, ha]
  split
  · exact ⟨⟨hg, hv, ha⟩, rfl⟩
  · exact ⟨⟨by simp, hv, ha⟩, rfl⟩

theorem core_addOrigin {s t} (h : CoreEq s t) (b n ss) : CoreEq (s.addOrigin b n ss) (t.addOrigin b n ss) := by
  obtain ⟨hg, hv, ha⟩ := h
  exact ⟨by simp [PState.addOrigin, PState.invalidate, hg], hv, ha⟩

theorem core_copyOrigins {s t} (h : CoreEq s t) (tgt other w add) :
    CoreEq (s.copyOrigins tgt other w add) (t.copyOrigins tgt other w add) := by
  unfold PState.copyOrigins
  split
  · exact core_addOrigin h _ _ _
  · rw [h.1]
    apply CoreEq.foldl _ _ _ _ _ h
    intro s t o hst
    apply CoreEq.foldl _ _ _ _ _ hst
    intro s t ss hst
    exact core_addOrigin hst _ _ _

theorem core_pasteBinding {s t} (h : CoreEq s t) (v b w add) :
    CoreEq (s.pasteBinding v b w add) (t.pasteBinding v b w add) := by
  unfold PState.pasteBinding
  rw [h.1]
  have h1 := core_findOrAddBinding h v (t.g.binding b).data
  generalize s.findOrAddBinding v (t.g.binding b).data = r1 at h1
  generalize t.findOrAddBinding v (t.g.binding b).data = r2 at h1
  obtain ⟨s1, nb1⟩ := r1
  obtain ⟨t1, nb2⟩ := r2
  obtain ⟨hc, hb⟩ := h1
  dsimp only at hc hb ⊢
  subst hb
  split
  · exact core_copyOrigins hc _ _ _ _
  · rw [hc.1]
    split <;> exact core_copyOrigins hc _ _ _ _

theorem core_pasteVariable {s t} (h : CoreEq s t) (v v2 w add) :
    CoreEq (s.pasteVariable v v2 w add) (t.pasteVariable v v2 w add) := by
  unfold PState.pasteVariable
  rw [h.1]
  apply CoreEq.foldl _ _ _ _ _ h
  intro s t b hst
  exact core_pasteBinding hst _ _ _ _

theorem core_pasteNewData {s t} (h : CoreEq s t) (v b d) :
    CoreEq (s.pasteNewData v b d) (t.pasteNewData v b d) := by
  unfold PState.pasteNewData
  have h1 := core_findOrAddBinding h v d
  generalize s.findOrAddBinding v d = r1 at h1
  generalize t.findOrAddBinding v d = r2 at h1
  obtain ⟨s1, nb1⟩ := r1
  obtain ⟨t1, nb2⟩ := r2
  obtain ⟨hc, hb⟩ := h1
  dsimp only at hc hb ⊢
  subst hb
  exact core_copyOrigins hc _ _ _ _

theorem core_assignBinding {s t} (h : CoreEq s t) (b w) :
    CoreEq (s.assignBinding b w) (t.assignBinding b w) := by
  unfold PState.assignBinding
  have h0 := core_newVar h
  generalize s.newVar = r1 at h0
  generalize t.newVar = r2 at h0
  obtain ⟨s1, v1⟩ := r1
  obtain ⟨t1, v2⟩ := r2
  obtain ⟨hc0, hv⟩ := h0
  dsimp only at hc0 hv ⊢
  subst hv
  rw [hc0.1]
  have h1 := core_findOrAddBinding hc0 v1 (t1.g.binding b).data
  generalize s1.findOrAddBinding v1 (t1.g.binding b).data = q1 at h1
  generalize t1.findOrAddBinding v1 (t1.g.binding b).data = q2 at h1
  obtain ⟨s2, nb1⟩ := q1
  obtain ⟨t2, nb2⟩ := q2
  obtain ⟨hc, hb⟩ := h1
  dsimp only at hc hb ⊢
  subst hb
  exact core_copyOrigins hc _ _ _ _

theorem core_assignVar {s t} (h : CoreEq s t) (v w) :
    CoreEq (s.assignVar v w) (t.assignVar v w) := by
  unfold PState.assignVar
  have h0 := core_newVar h
  generalize s.newVar = r1 at h0
  generalize t.newVar = r2 at h0
  obtain ⟨s1, v1⟩ := r1
  obtain ⟨t1, v2⟩ := r2
  obtain ⟨hc0, hv⟩ := h0
  dsimp only at hc0 hv ⊢
  subst hv
  rw [h.1]
  apply CoreEq.foldl _ _ _ _ _ hc0
  intro s t b hst
  rw [hst.1]
  have h1 := core_findOrAddBinding hst v1 (t.g.binding b).data
  generalize s.findOrAddBinding v1 (t.g.binding b).data = q1 at h1
  generalize t.findOrAddBinding v1 (t.g.binding b).data = q2 at h1
  obtain ⟨s2, nb1⟩ := q1
  obtain ⟨t2, nb2⟩ := q2
  obtain ⟨hc, hb⟩ := h1
  dsimp only at hc hb ⊢
  subst hb
  exact core_copyOrigins hc _ _ _ _

theorem core_newVarWith {s t} (h : CoreEq s t) (ds ss w) :
    CoreEq (s.newVarWith ds ss w) (t.newVarWith ds ss w) := by
  unfold PState.newVarWith
  have h0 := core_newVar h
  generalize s.newVar = r1 at h0
  generalize t.newVar = r2 at h0
  obtain ⟨s1, v1⟩ := r1
  obtain ⟨t1, v2⟩ := r2
  obtain ⟨hc0, hv⟩ := h0
  dsimp only at hc0 hv ⊢
  subst hv
  apply CoreEq.foldl _ _ _ _ _ hc0
  intro s t d hst
  have h1 := core_findOrAddBinding hst v1 d
  generalize s.findOrAddBinding v1 d = q1 at h1
  generalize t.findOrAddBinding v1 d = q2 at h1
  obtain ⟨s2, nb1⟩ := q1
  obtain ⟨t2, nb2⟩ := q2
  obtain ⟨hc, hb⟩ := h1
  dsimp only at hc hb ⊢
  subst hb
  exact core_addOrigin hc _ _ _

theorem core_addBinding {s t} (h : CoreEq s t) (v d o) :
    CoreEq (s.addBinding v d o) (t.addBinding v d o) := by
  unfold PState.addBinding
  have h1 := core_findOrAddBinding h v d
  generalize s.findOrAddBinding v d = q1 at h1
  generalize t.findOrAddBinding v d = q2 at h1
  obtain ⟨s2, nb1⟩ := q1
  obtain ⟨t2, nb2⟩ := q2
  obtain ⟨hc, hb⟩ := h1
  dsimp only at hc hb ⊢
  subst hb
  split
  · exact hc
  · exact core_addOrigin hc _ _ _

theorem core_setCond {s t} (h : CoreEq s t) (n c) : CoreEq (s.setCond n c) (t.setCond n c) := by
  obtain ⟨hg, hv, ha⟩ := h
  exact ⟨by simp [PState.setCond, PState.invalidate, hg], hv, ha⟩

theorem core_step {s t} (h : CoreEq s t) (op : Op) : CoreEq (s.step op) (t.step op) := by
  cases op with
  | newNode c => exact core_newNode h c
  | connectNew a c => exact core_connectNew h a c
  | connectTo a b => exact core_connectTo h a b
  | newVar => exact (core_newVar h).1
  | newVarWith ds ss w => exact core_newVarWith h ds ss w
  | addBinding v d o => exact core_addBinding h v d o
  | addOrigin b w ss => exact core_addOrigin h b w ss
  | pasteBinding v b w a => exact core_pasteBinding h v b w a
  | pasteVariable v v2 w a => exact core_pasteVariable h v v2 w a
  | pasteNewData v b d => exact core_pasteNewData h v b d
  | assignBinding b w => exact core_assignBinding h b w
  | assignVar v w => exact core_assignVar h v w
  | setCond n c => exact core_setCond h n c
  | query q =>
    obtain ⟨hg, hv, ha⟩ := h
    exact ⟨by simp [PState.step, ask_g, hg], by simp [PState.step, ask_nVars, hv],
           by simp [PState.step, ask_addrs, ha]⟩

theorem core_query (s : PState) (q : Query) : CoreEq (s.step (.query q)) s :=
  ⟨ask_g s q, ask_nVars s q, ask_addrs s q⟩

/-- the replica (queries dropped) reaches the same graph and never owns a solver -/
theorem replica_core : ∀ (h : List Op) (s t : PState), CoreEq s t → s.memo = none →
    CoreEq (s.run (replicaOps h)) (t.run h) ∧ (s.run (replicaOps h)).memo = none
  | [], s, t, hc, hm => ⟨hc, hm⟩
  | op :: ops, s, t, hc, hm => by
    cases hq : op.isQuery with
    | true =>
      have : replicaOps (op :: ops) = replicaOps ops := by simp [replicaOps, List.filter, hq]
      rw [this]
      cases op with
      | query q =>
        have hc' : CoreEq s (t.step (.query q)) :=
          ⟨hc.1.trans (ask_g t q).symm, hc.2.1.trans (ask_nVars t q).symm, hc.2.2.trans (ask_addrs t q).symm⟩
        exact replica_core ops s _ hc' hm
      | _ => simp [Op.isQuery] at hq
    | false =>
      have : replicaOps (op :: ops) = op :: replicaOps ops := by simp [replicaOps, List.filter, hq]
      rw [this]
      have hs := step_of_nonquery s op hq
      have hm' : (s.step op).memo = none := by
        rcases hs.1 with h | ⟨_, h⟩
        · exact h
        · exact h.trans hm
      exact replica_core ops _ _ (core_step hc op) hm'

end PytypeModel.Typegraph
