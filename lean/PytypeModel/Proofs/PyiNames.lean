import PytypeModel.Pytd.PyiConvert

/-! Lemmas about dotted names (`comps`, `joinDots`, `classify`) for C05. -/
namespace PytypeModel.Pytd

theorem splitDotsL_ne_nil (acc cs : List Char) : splitDotsL acc cs ≠ [] := by
  induction cs generalizing acc with
  | nil => simp [splitDotsL]
  | cons c cs ih =>
    unfold splitDotsL
    split
    · simp
    · exact ih _

theorem joinDots_cons_of_ne_nil (a : String) (l : List String) (h : l ≠ []) :
    joinDots (a :: l) = a ++ "." ++ joinDots l := by
  cases l with
  | nil => exact absurd rfl h
  | cons b rest => rfl

theorem joinDots_splitDotsL (acc cs : List Char) :
    joinDots (splitDotsL acc cs) = String.ofList (acc.reverse ++ cs) := by
  induction cs generalizing acc with
  | nil => simp [splitDotsL, joinDots]
  | cons c cs ih =>
    unfold splitDotsL
    split
    · next h =>
      subst h
      rw [joinDots_cons_of_ne_nil _ _ (splitDotsL_ne_nil _ _), ih]
      simp [String.ofList_append, String.append_assoc]
    · rw [ih]; simp

/-- joining the components gives the name back: splitting at dots loses nothing -/
theorem joinDots_comps (n : String) : joinDots (comps n) = n := by
  unfold comps
  rw [joinDots_splitDotsL]
  simp [String.ofList_toList]

theorem comps_inj {a b : String} (h : comps a = comps b) : a = b := by
  rw [← joinDots_comps a, ← joinDots_comps b, h]

theorem comps_single {n x : String} (h : comps n = [x]) : n = x := by
  have := joinDots_comps n
  rw [h] at this
  simpa [joinDots] using this.symm

theorem comps_ne_nil (n : String) : comps n ≠ [] := splitDotsL_ne_nil _ _

/-- splitting `p ++ "." ++ x` when `p` has no dot -/
theorem splitDotsL_prefix (p : List Char) (hp : '.' ∉ p) (acc rest : List Char) :
    splitDotsL acc (p ++ '.' :: rest) = String.ofList (acc.reverse ++ p) :: splitDotsL [] rest := by
  induction p generalizing acc with
  | nil => simp [splitDotsL]
  | cons c p ih =>
    have hc : c ≠ '.' := fun h => hp (by simp [h])
    have hp' : '.' ∉ p := fun h => hp (by simp [h])
    simp only [List.cons_append, splitDotsL, hc, if_false]
    rw [ih hp']
    simp

theorem comps_prefix (p x : String) (hp : '.' ∉ p.toList) : comps (p ++ "." ++ x) = p :: comps x := by
  unfold comps
  have : (p ++ "." ++ x).toList = p.toList ++ '.' :: x.toList := by
    simp [String.toList_append]
  rw [this, splitDotsL_prefix _ hp]
  simp [String.ofList_toList]

theorem comps_two {n p x : String} (h : comps n = [p, x]) : n = p ++ "." ++ x := by
  have := joinDots_comps n
  rw [h] at this
  simpa [joinDots] using this.symm

/-- the last component of a two-component name is itself a single component -/
theorem comps_snd {n p x : String} (h : comps n = [p, x]) (hp : '.' ∉ p.toList) : comps x = [x] := by
  have hn := comps_two h
  rw [hn, comps_prefix p x hp] at h
  have : comps x = [x] := by simpa using h
  exact this

theorem comps_typing (x : String) (h : comps x = [x]) : comps ("typing." ++ x) = ["typing", x] := by
  have : "typing." ++ x = "typing" ++ "." ++ x := by
    rw [String.append_assoc]; rfl
  rw [this, comps_prefix _ _ (by decide), h]

theorem typing_name {n x : String} (h : comps n = ["typing", x]) : n = "typing." ++ x := by
  rw [comps_two h, String.append_assoc]; rfl

theorem comps_builtins_snd {n x : String} (h : comps n = ["builtins", x]) : comps x = [x] :=
  comps_snd h (by decide)

theorem comps_typing_snd {n x : String} (h : comps n = ["typing", x]) : comps x = [x] :=
  comps_snd h (by decide)

end PytypeModel.Pytd
