import PytypeModel.Sem.ArgBindPytd
import PytypeModel.Proofs.ArgBindMain
import PytypeModel.Proofs.ArgBindSelf

/-! # The binder for functions declared in stubs (`PyTDSignature._map_args`) against the interpreter binder and CPython

`mapArgsPytd` tests the same five conditions as `mapArgs`, in another order (too many positionals first) and with the
duplicate / missing tests phrased over `arg_dict` instead of over `callargs`.  The two phrasings are the same Boolean
(`hasDuplicatePytd_eq`, `hasMissingPytd_eq`, no well-formedness needed), so the accept / reject decision is the
interpreter binder's (`pytd_ok_iff_interp`) and hence CPython's (`pytd_bind_ok_iff`); the error *class* may differ
(`pytd_error_class_differs`). -/
namespace PytypeModel.ArgBind

/-! ### the two phrasings of the duplicate and of the missing test -/

theorem lookup_isSome_iff_keys (d : Dict) (p : Name) :
    (d.lookup p).isSome = true ↔ ∃ e ∈ d, e.1 = p := by
  rw [← lookup_ne_none_iff_keys]
  cases d.lookup p <;> simp

/-- `key in kws` for a key of `positional` that is not positional-only, or `name in arg_dict` for a keyword that is
not positional-only: the same test -/
theorem hasDuplicatePytd_eq (s : Sig) (c : Call) : hasDuplicatePytd s c = hasDuplicate s c := by
  rw [Bool.eq_iff_iff]
  unfold hasDuplicatePytd hasDuplicate
  rw [List.any_eq_true, List.any_eq_true]
  constructor
  · rintro ⟨k, hk, hp⟩
    rw [Bool.and_eq_true, lookup_isSome_iff_keys] at hp
    obtain ⟨hpo, e, he, heq⟩ := hp
    refine ⟨e, he, ?_⟩
    rw [heq, Bool.and_eq_true]
    exact ⟨hpo, by simpa using hk⟩
  · rintro ⟨e, he, hp⟩
    rw [Bool.and_eq_true] at hp
    refine ⟨e.1, by simpa using hp.2, ?_⟩
    rw [Bool.and_eq_true, lookup_isSome_iff_keys]
    exact ⟨hp.1, e, he, rfl⟩

/-- removing the keywords in `kwnames & posonly_names` is removing the positional-only names -/
theorem filter_posonlyKws (s : Sig) (c : Call) :
    (c.kws.filter fun k => !(posonlyKws s c).contains k) = c.kws.filter fun k => !s.posonly.contains k := by
  apply List.filter_congr
  intro k hk
  simp [posonlyKws, hk]

/-- `callargs` is `arg_dict` on top of the defaults -/
theorem callargs0_eq (s : Sig) (c : Call) : callargs0 s c = argDictPytd s c ++ defaultsDict s := by
  unfold callargs0 argDictPytd
  rw [filter_posonlyKws]

theorem callargs0_lookup_pytd (s : Sig) (c : Call) (p : Name) :
    (callargs0 s c).lookup p =
      ((argDictPytd s c).lookup p).or (if p ∈ s.defaults then some .default else none) := by
  rw [callargs0_eq, List.lookup_append, lookup_defaultsDict]

theorem callargs0_isNone_pytd (s : Sig) (c : Call) (p : Name) :
    ((callargs0 s c).lookup p).isNone = true ↔
      ((argDictPytd s c).lookup p).isNone = true ∧ p ∉ s.defaults := by
  rw [callargs0_lookup_pytd]
  cases (argDictPytd s c).lookup p with
  | some v => simp
  | none => by_cases h : p ∈ s.defaults <;> simp [h]

/-- "non-default positional parameters and all keyword-only parameters, absent from `callargs`" (which holds the
defaults) or "non-optional parameters absent from `arg_dict`": the same test -/
theorem hasMissingPytd_eq (s : Sig) (c : Call) : hasMissingPytd s c = hasMissing s c := by
  rw [Bool.eq_iff_iff]
  unfold hasMissingPytd hasMissing requiredPytd required
  rw [List.any_eq_true, List.any_eq_true]
  constructor
  · rintro ⟨k, hk, hn⟩
    rw [List.mem_filter, List.mem_append] at hk
    have hnd : k ∉ s.defaults := by simpa using hk.2
    refine ⟨k, ?_, (callargs0_isNone_pytd s c k).2 ⟨hn, hnd⟩⟩
    rw [List.mem_append, List.mem_filter]
    rcases hk.1 with h | h
    · exact Or.inl ⟨h, hk.2⟩
    · exact Or.inr h
  · rintro ⟨k, hk, hn⟩
    obtain ⟨hn', hnd⟩ := (callargs0_isNone_pytd s c k).1 hn
    refine ⟨k, ?_, hn'⟩
    rw [List.mem_filter, List.mem_append]
    rw [List.mem_append, List.mem_filter] at hk
    refine ⟨?_, by simpa using hnd⟩
    rcases hk with h | h
    · exact Or.inl h.1
    · exact Or.inr h

/-! ### accept / reject -/

/-- the stub binder's decision in terms of the interpreter binder's tests -/
theorem mapArgsPytd_eq (s : Sig) (c : Call) :
    mapArgsPytd s c =
      if c.npos > s.params.length && s.varargs.isNone then .error .wrongArgCount
      else if hasDuplicate s c then .error .duplicateKeyword
      else if !(extraKws s c).isEmpty && s.kwargs.isNone then .error .wrongKeywordArgs
      else if !(posonlyKws s c).isEmpty && s.kwargs.isNone then .error .wrongKeywordArgs
      else if hasMissing s c then .error .missingParameter
      else .ok (argDictPytd s c) := by
  unfold mapArgsPytd
  rw [hasDuplicatePytd_eq, hasMissingPytd_eq]

theorem mapArgs_eq (s : Sig) (c : Call) :
    mapArgs s c =
      if hasDuplicate s c then .error .duplicateKeyword
      else if !(extraKws s c).isEmpty && s.kwargs.isNone then .error .wrongKeywordArgs
      else if !(posonlyKws s c).isEmpty && s.kwargs.isNone then .error .wrongKeywordArgs
      else if hasMissing s c then .error .missingParameter
      else if c.npos > s.params.length && s.varargs.isNone then .error .wrongArgCount
      else .ok (withKwargs s c
        ((s.varargs.toList.map fun v => (v, ArgRef.varargsTuple (extraneous s c))) ++ callargs0 s c)) := by
  unfold mapArgs
  rw [withVarargs_eq]
  by_cases h : (decide (c.npos > s.params.length) && s.varargs.isNone) = true
  · simp only [h, if_true]
  · simp only [h, Bool.false_eq_true, if_false]

/-- the stub binder accepts exactly the calls the interpreter binder accepts (this direction of the comparison does
not even need distinct parameter names) -/
theorem pytd_ok_iff_interp' (s : Sig) (c : Call) :
    (∃ d, mapArgsPytd s c = .ok d) ↔ (∃ d, mapArgs s c = .ok d) := by
  rw [mapArgsPytd_eq, mapArgs_eq]
  by_cases h0 : (decide (c.npos > s.params.length) && s.varargs.isNone) = true <;>
  by_cases h1 : hasDuplicate s c = true <;>
  by_cases h2 : (!(extraKws s c).isEmpty && s.kwargs.isNone) = true <;>
  by_cases h3 : (!(posonlyKws s c).isEmpty && s.kwargs.isNone) = true <;>
  by_cases h4 : hasMissing s c = true <;>
  simp only [h0, h1, h2, h3, h4, if_true, if_false, reduceCtorEq, exists_false, Except.ok.injEq, exists_eq']

/-- the stub binder accepts exactly the calls the interpreter binder accepts -/
theorem pytd_ok_iff_interp (s : Sig) (c : Call) (_hs : s.WF) (_hc : c.WF) :
    (∃ d, mapArgsPytd s c = .ok d) ↔ (∃ d, mapArgs s c = .ok d) :=
  pytd_ok_iff_interp' s c


/-! ### what is bound -/

/-- a successful stub binding returns `arg_dict`, in which nothing required is absent -/
theorem mapArgsPytd_ok (s : Sig) (c : Call) (d : Dict) (hm : mapArgsPytd s c = .ok d) :
    d = argDictPytd s c ∧ hasMissingPytd s c = false := by
  unfold mapArgsPytd at hm
  split at hm
  · cases hm
  · split at hm
    · cases hm
    · split at hm
      · cases hm
      · split at hm
        · cases hm
        · split at hm
          · cases hm
          · rename_i h
            cases hm
            exact ⟨rfl, by simpa using h⟩

/-- a successful interpreter binding has `callargs` below the `*args` / `**kwargs` entries -/
theorem mapArgs_ok_lookup_named (s : Sig) (c : Call) (hd : Disj s) (dm : Dict) (hm : mapArgs s c = .ok dm)
    (p : Name) (hp : p ∈ s.params ++ s.kwonly) : dm.lookup p = (callargs0 s c).lookup p := by
  by_cases hk : KwCond s c.kws (positional s c)
  · rw [mapArgs_normal s c hd hk] at hm
    split at hm
    · cases hm
    · split at hm
      · cases hm
      · cases hm
        exact modelResult_lookup_named s c hd p hp
  · obtain ⟨e, he, _⟩ := mapArgs_of_not_cond s c hd hk
    rw [he] at hm
    cases hm

/-- when both succeed, every declared parameter that the stub binder has an argument for is given the argument
CPython gives it, and a declared parameter it has no argument for takes its default in CPython -/
theorem pytd_bind_same_of (s : Sig) (c : Call) (hs : s.WF) (hc : c.WF) (d d' : Dict)
    (hm : mapArgsPytd s c = .ok d)
    (hI : ∀ dm, mapArgs s c = .ok dm → ∀ p ∈ s.allNames, dm.lookup p = d'.lookup p) :
    ∀ p ∈ s.params ++ s.kwonly,
      (∀ r, d.lookup p = some r → d'.lookup p = some r) ∧ (d.lookup p = none → d'.lookup p = some .default) := by
  intro p hpn
  have hd := hs.disj
  obtain ⟨dm, hdm⟩ := (pytd_ok_iff_interp s c hs hc).1 ⟨d, hm⟩
  obtain ⟨rfl, hmiss⟩ := mapArgsPytd_ok s c d hm
  have hall : p ∈ s.allNames := by
    unfold Sig.allNames
    unfold Sig.params at hpn
    simp only [List.mem_append] at hpn ⊢
    rcases hpn with (h | h) | h
    · exact Or.inl (Or.inl (Or.inl (Or.inl h)))
    · exact Or.inl (Or.inl (Or.inl (Or.inr h)))
    · exact Or.inl (Or.inr h)
  have hsame : d'.lookup p = ((argDictPytd s c).lookup p).or (if p ∈ s.defaults then some .default else none) := by
    rw [← hI dm hdm p hall,
      mapArgs_ok_lookup_named s c hd dm hdm p hpn, callargs0_lookup_pytd]
  constructor
  · intro r hr
    rw [hsame, hr]
    rfl
  · intro hn
    have hdef : p ∈ s.defaults := by
      apply Classical.byContradiction
      intro hnd
      have : hasMissingPytd s c = true := by
        unfold hasMissingPytd requiredPytd
        rw [List.any_eq_true]
        refine ⟨p, ?_, by rw [hn]; rfl⟩
        rw [List.mem_filter]
        exact ⟨hpn, by simpa using hnd⟩
      rw [hmiss] at this
      exact Bool.noConfusion this
    rw [hsame, hn, if_pos hdef]
    rfl

/-! ### the error class -/

/-- `def f(x): ...; f(1, 2, zz=3)`: the stub binder tests the number of positional arguments first and says
wrong-arg-count (arity); CPython runs the keyword loop first and says "unexpected keyword argument" (keyword).  The
accept / reject decision never differs (`pytd_bind_ok_iff`), the class of the error may. -/
theorem pytd_error_class_differs :
    ∃ (s : Sig) (c : Call), s.WF ∧ c.WF ∧ outcomeM (mapArgsPytd s c) ≠ outcomeC (cpyBind s c) :=
  ⟨⟨[], [0], none, [], none, []⟩, ⟨2, [7]⟩, by decide, by decide, by decide⟩

end PytypeModel.ArgBind
