import PytypeModel.Proofs.PyiUnionE

/-! C05, types: every fragment type is `TyGood` (print ∘ norm = print, same `typing` members,
post ∘ parse ∘ print = norm). -/
namespace PytypeModel.Pytd

theorem size_mem_lt : ∀ {ts : List Ty} {t : Ty}, t ∈ ts → t.size < Ty.size.sizeList ts + 1
  | a :: as, t, h => by
    simp only [Ty.size.sizeList]
    rcases List.mem_cons.1 h with rfl | h
    · omega
    · have := size_mem_lt h; omega

theorem sizeList_append (a b : List Ty) :
    Ty.size.sizeList (a ++ b) = Ty.size.sizeList a + Ty.size.sizeList b := by
  induction a with
  | nil => simp [Ty.size.sizeList]
  | cons x xs ih => simp [Ty.size.sizeList, ih]; omega

theorem fTys_of_all {g : GCtx} {ip : Bool} {ts : List Ty} (h : ∀ t ∈ ts, fTy g ip t = true) :
    fTys g ip ts = true := by
  induction ts with
  | nil => rfl
  | cons a as ih =>
    simp only [fTys, Bool.and_eq_true]
    exact ⟨h a (by simp), ih (fun t ht => h t (by simp [ht]))⟩

theorem fTys_append {g : GCtx} {ip : Bool} {a b : List Ty} (h : fTys g ip (a ++ b) = true) :
    fTys g ip a = true ∧ fTys g ip b = true :=
  ⟨fTys_of_all (fun t ht => fTys_mem h (List.mem_append_left _ ht)),
   fTys_of_all (fun t ht => fTys_mem h (List.mem_append_right _ ht))⟩

theorem tyGood_aux {g : GCtx} (hg : GOK g) (ip : Bool) : ∀ (n : Nat) (t : Ty), t.size ≤ n →
    fTy g ip t = true → (∀ x ∈ tyAdds ip t, x ∈ g.adds) → TyGood g ip t := by
  intro n
  induction n with
  | zero =>
    intro t hs
    cases t <;> simp [Ty.size] at hs
  | succ n ihn =>
    intro t hs hf hsub
    -- lists of strictly smaller types
    have hlist : ∀ ps : List Ty, Ty.size.sizeList ps ≤ n → fTys g ip ps = true →
        (∀ x ∈ tysAdds ip ps, x ∈ g.adds) → ListGood g ip ps := by
      intro ps hps hfp hsp p hp
      have := size_mem_lt hp
      exact ihn p (by omega) (fTys_mem hfp hp) (fun x hx => hsp x (mem_tysAdds.2 ⟨p, hp, hx⟩))
    cases t with
    | any => exact good_any hg ip
    | nothing => exact good_nothing g ip
    | named n' => exact good_nameTy hg ip (b := .named n') rfl (by simpa [fTy, tyBaseName] using hf)
    | cls n' => exact good_nameTy hg ip (b := .cls n') rfl (by simpa [fTy, tyBaseName] using hf)
    | late n' => exact good_nameTy hg ip (b := .late n') rfl (by simpa [fTy, tyBaseName] using hf)
    | typeParam n' s => exact good_typeParam hg ip n' s hf
    | literal v => exact good_literal hg ip v hf hsub
    | annotated t' as =>
      simp only [fTy, Bool.and_eq_true, Bool.not_eq_true'] at hf
      have hne : as ≠ [] := by intro e; subst e; simp at hf
      simp only [Ty.size] at hs
      exact good_annotated hg ip t' as hne hf.2
        (ihn t' (by omega) hf.1.1 (fun x hx => hsub x (by simp [tyAdds, hx]))) hsub
    | generic b ps =>
      obtain ⟨hb, hbase, _, hne, hfps, hshape⟩ := fTy_generic_unpack hf
      simp only [Ty.size] at hs
      by_cases ht : tyExpr false b = .name "tuple"
      · rw [if_pos ht] at hshape
        have hf' : fBase g (tyBaseName b) = true := by
          rcases hbase with h | h
          · exact h
          · exfalso
            rw [(nameTy_facts hb g.tps false g).1, h] at ht
            revert ht; decide
        cases ps with
        | nil => exact absurd rfl hne
        | cons p rest =>
          cases rest with
          | cons _ _ => simp at hshape
          | nil =>
            simp only [Ty.size.sizeList] at hs
            have e1 : tyExpr ip b = .name "tuple" := by
              rw [(nameTy_facts hb g.tps ip g).1, ← (nameTy_facts hb g.tps false g).1]; exact ht
            exact good_generic_tuple hg ip b p hb hf' ht
              (ihn p (by omega) (fTys_mem hfps (by simp)) (fun x hx => hsub x (by
                rw [tyAdds_generic, e1]; simp [hx])))
      · rw [if_neg ht] at hshape
        by_cases hc : tyBaseName b = "typing.Callable"
        · rw [if_pos hc] at hshape
          cases ps with
          | nil => simp [anyThenOne] at hshape
          | cons p rest =>
            cases rest with
            | nil => simp [anyThenOne] at hshape
            | cons r rest2 =>
              cases rest2 with
              | cons _ _ => cases p <;> simp [anyThenOne] at hshape
              | nil =>
                cases p <;> simp [anyThenOne] at hshape
                simp only [Ty.size.sizeList] at hs
                have hntE : ¬ (tyExpr ip b = .name "tuple") := by
                  rw [(nameTy_facts hb g.tps ip g).1, ← (nameTy_facts hb g.tps false g).1]; exact ht
                exact good_generic_callable hg ip b r hb hc
                  (ihn r (by omega) (fTys_mem hfps (by simp)) (fun x hx => hsub x (by
                    rw [tyAdds_generic]; simp [hc, hntE, tysAdds, hx]))) hsub
        · have hf' : fBase g (tyBaseName b) = true := by
            rcases hbase with h | h
            · exact h
            · exact absurd h hc
          have haddsG : tyAdds ip (.generic b ps) = tyAdds ip b ++ tysAdds ip ps := by
            rw [tyAdds_generic]
            cases ps with
            | nil => exact absurd rfl hne
            | cons p rest => simp [hc, tysAdds]
          exact good_generic_plain hg ip b ps hb hf' ht hc hne
            (hlist ps (by omega) hfps (fun x hx => hsub x (by rw [haddsG]; simp [hx]))) hsub
    | tuple b ps =>
      simp only [fTy, Bool.and_eq_true, decide_eq_true_eq] at hf
      obtain ⟨⟨⟨⟨hb, _⟩, ht⟩, hfps⟩, hfb⟩ := hf
      simp only [Ty.size] at hs
      exact good_tuple hg ip b ps hb hfb ht
        (hlist ps (by omega) hfps (fun x hx => hsub x (by simp [tyAdds, hx])))
    | callable b ps =>
      simp only [fTy, Bool.and_eq_true, decide_eq_true_eq, Bool.not_eq_true'] at hf
      obtain ⟨⟨⟨⟨⟨hb, hn⟩, _⟩, hne⟩, hfps⟩, hnn⟩ := hf
      simp only [Ty.size] at hs
      have hne' : ps ≠ [] := by intro e; subst e; simp at hne
      obtain ⟨qs, r, rfl⟩ : ∃ qs r, ps = qs ++ [r] :=
        ⟨ps.dropLast, ps.getLast hne', (List.dropLast_concat_getLast hne').symm⟩
      have hsz := sizeList_append qs [r]
      simp only [Ty.size.sizeList] at hsz
      obtain ⟨hfq, hfr⟩ := fTys_append hfps
      have hnn' : normTys g.tps ip qs ≠ [.nothing] := by simpa using hnn
      exact good_callable hg ip b qs r hb hn hnn'
        (hlist qs (by omega) hfq (fun x hx => hsub x (by simp [tyAdds, tysAdds_append, hx])))
        (ihn r (by omega) (fTys_mem hfr (by simp)) (fun x hx => hsub x (by
          simp [tyAdds, tysAdds_append, tysAdds, hx]))) hsub
    | union ts =>
      simp only [fTy, Bool.and_eq_true, Bool.not_eq_true'] at hf
      obtain ⟨⟨⟨⟨_, hu⟩, hfts⟩, hd⟩, hne⟩ := hf
      simp only [Ty.size] at hs
      have hsubm : ∀ x ∈ tysAdds ip ts, x ∈ g.adds := fun x hx => hsub x (by
        rw [tyAdds_union]; exact List.mem_append_left _ hx)
      have ihl := hlist ts (by omega) hfts hsubm
      have hne' : unionRes ip (normTys g.tps ip ts) ≠ [] := by
        intro e; rw [e] at hne; simp at hne
      exact ⟨union_expr ihl, union_adds ihl hfts hu hsubm,
        fun d henv => good_union_parse hg ihl hfts hu hd hne' hsub d henv⟩

/-- every fragment type round-trips -/
theorem tyGood {g : GCtx} (hg : GOK g) (ip : Bool) (t : Ty) (hf : fTy g ip t = true)
    (hsub : ∀ x ∈ tyAdds ip t, x ∈ g.adds) : TyGood g ip t :=
  tyGood_aux hg ip t.size t (Nat.le_refl _) hf hsub

theorem tysGood {g : GCtx} (hg : GOK g) (ip : Bool) (ts : List Ty) (hf : fTys g ip ts = true)
    (hsub : ∀ x ∈ tysAdds ip ts, x ∈ g.adds) : ListGood g ip ts :=
  fun t ht => tyGood hg ip t (fTys_mem hf ht) (fun x hx => hsub x (mem_tysAdds.2 ⟨t, ht, hx⟩))

end PytypeModel.Pytd
