import PytypeModel.Proofs.Plan

/-! `setup_build` raises no KeyError when the groups are in dependency order
(`depsClosed`, the contract of `deps_from_import_graph`). -/
namespace PytypeModel.Plan

/-- every module of `ms` already has a `module_to_output` entry (or the loop is past the point
where it skips everything) -/
def Cov (req : List Nat) (st : St) (ms : List Mod) : Prop :=
  skipping req st = true ∨ ∀ m ∈ ms, ∃ o, dget st.m2o m = some o

theorem getImportsMapAux_ok (m2im : List (Mod × ImportsMap)) (m2o : List (Mod × Out)) :
    ∀ (deps : List Mod) (im : ImportsMap), (∀ m ∈ deps, ∃ o, dget m2o m = some o) →
      ∃ res, getImportsMapAux m2im m2o deps im = .ok res := by
  intro deps
  induction deps with
  | nil => intro im _; exact ⟨im, rfl⟩
  | cons d ds ih =>
    intro im h
    obtain ⟨o, ho⟩ := h d List.mem_cons_self
    simp only [getImportsMapAux, ho]
    exact ih _ (fun m hm => h m (List.mem_cons_of_mem _ hm))

theorem stepItem_total {req : List Nat} {st : St} {it : Item} {ms : List Mod}
    (hc : Cov req st ms) (hd : ∀ d ∈ it.deps, d ∈ ms) :
    ∃ st', stepItem req st it = .ok st' ∧ Cov req st' (it.mod :: ms) := by
  unfold stepItem
  by_cases hs : skipping req st = true
  · simp only [hs, if_true]
    exact ⟨st, rfl, .inl hs⟩
  · have hs' : skipping req st = false := by simpa using hs
    have hall : ∀ m ∈ ms, ∃ o, dget st.m2o m = some o := by
      rcases hc with h | h
      · exact absurd h hs
      · exact h
    simp only [hs', Bool.false_eq_true, if_false]
    by_cases hg : it.act = .genDefault
    · simp only [hg, if_true]
      refine ⟨_, rfl, .inr ?_⟩
      intro m hm
      simp only [dget_dset]
      by_cases hk : it.mod = m
      · simp [hk]
      · simp only [hk, if_false]
        rcases List.mem_cons.1 hm with h | h
        · exact absurd h.symm hk
        · exact hall m h
    · simp only [hg, if_false]
      obtain ⟨im, him⟩ := getImportsMapAux_ok st.m2im st.m2o it.deps []
        (fun m hm => hall m (hd m hm))
      have him' : getImportsMap it.deps st.m2im st.m2o = .ok im := him
      simp only [him']
      refine ⟨_, rfl, .inr ?_⟩
      intro m hm
      simp only [dget_dset]
      by_cases hk : it.mod = m
      · simp [hk]
      · simp only [hk, if_false]
        rcases List.mem_cons.1 hm with h | h
        · exact absurd h.symm hk
        · exact hall m h

/-- every item's deps are among `ms` and the modules of the items before it -/
def DepsIn : List Mod → List Item → Prop
  | _, [] => True
  | ms, it :: r => (∀ d ∈ it.deps, d ∈ ms) ∧ DepsIn (it.mod :: ms) r

theorem Cov.mono {req : List Nat} {st : St} {ms ms' : List Mod} (h : Cov req st ms)
    (hsub : ∀ x ∈ ms', x ∈ ms) : Cov req st ms' := by
  rcases h with h | h
  · exact .inl h
  · exact .inr fun m hm => h m (hsub m hm)

theorem DepsIn.mono : ∀ (items : List Item) (ms ms' : List Mod), (∀ x ∈ ms, x ∈ ms') →
    DepsIn ms items → DepsIn ms' items := by
  intro items
  induction items with
  | nil => intro _ _ _ _; trivial
  | cons it r ih =>
    intro ms ms' hsub h
    refine ⟨fun d hd => hsub d (h.1 d hd), ih _ _ ?_ h.2⟩
    intro x hx
    rcases List.mem_cons.1 hx with rfl | hx
    · exact List.mem_cons_self
    · exact List.mem_cons_of_mem _ (hsub x hx)

theorem DepsIn.of_all : ∀ (items : List Item) (ms : List Mod),
    (∀ it ∈ items, ∀ d ∈ it.deps, d ∈ ms) → DepsIn ms items := by
  intro items
  induction items with
  | nil => intro _ _; trivial
  | cons it r ih =>
    intro ms h
    refine ⟨h it List.mem_cons_self, ?_⟩
    exact ih _ fun x hx d hd => List.mem_cons_of_mem _ (h x (List.mem_cons_of_mem _ hx) d hd)

theorem DepsIn.append : ∀ (a b : List Item) (ms : List Mod), DepsIn ms a →
    (∀ ms', (∀ x ∈ ms, x ∈ ms') → (∀ it ∈ a, it.mod ∈ ms') → DepsIn ms' b) →
    DepsIn ms (a ++ b) := by
  intro a
  induction a with
  | nil => intro b ms _ hb; exact hb ms (fun _ h => h) (fun _ h => by cases h)
  | cons it r ih =>
    intro b ms ha hb
    refine ⟨ha.1, ih b _ ha.2 ?_⟩
    intro ms' hsub hmods
    apply hb ms' (fun x hx => hsub x (List.mem_cons_of_mem _ hx))
    intro x hx
    rcases List.mem_cons.1 hx with rfl | hx
    · exact hsub _ List.mem_cons_self
    · exact hmods x hx

theorem runItems_total {req : List Nat} : ∀ (items : List Item) (st : St) (ms : List Mod),
    Cov req st ms → DepsIn ms items → ∃ st', runItems req items st = .ok st' := by
  intro items
  induction items with
  | nil => intro st _ _ _; exact ⟨st, rfl⟩
  | cons it r ih =>
    intro st ms hc hd
    obtain ⟨st1, h1, hc1⟩ := stepItem_total hc hd.1
    simp only [runItems, h1]
    exact ih st1 _ hc1 hd.2

theorem yieldGroup_covers (req : List Nat) (g : List Mod × List Mod) :
    ∀ m ∈ g.1, ∃ it ∈ yieldGroup req g, it.mod = m := by
  intro m hm
  by_cases hl : g.1.length = 1
  · obtain ⟨a, ha⟩ := length_one _ hl
    rw [yieldGroup_single req g a ha]
    rw [ha, List.mem_singleton] at hm
    exact ⟨_, List.mem_singleton.2 rfl, hm.symm⟩
  · rw [yieldGroup_multi req g hl]
    exact ⟨⟨m, firstAct (moduleAction req m), g.2, .first⟩,
      List.mem_append_left _ (List.mem_map.2 ⟨m, hm, rfl⟩), rfl⟩

theorem yieldGroup_depsIn (req : List Nat) (g : List Mod × List Mod) (ms : List Mod)
    (h : ∀ d ∈ g.2, d ∈ ms) : DepsIn ms (yieldGroup req g) := by
  by_cases hl : g.1.length = 1
  · obtain ⟨a, ha⟩ := length_one _ hl
    rw [yieldGroup_single req g a ha]
    exact ⟨h, trivial⟩
  · rw [yieldGroup_multi req g hl]
    apply DepsIn.append
    · apply DepsIn.of_all
      intro it hit d hd
      obtain ⟨m, _, rfl⟩ := List.mem_map.1 hit
      exact h d hd
    · intro ms' hsub hmods
      apply DepsIn.of_all
      intro it hit d hd
      obtain ⟨m, _, rfl⟩ := List.mem_map.1 hit
      rcases List.mem_append.1 hd with hd | hd
      · exact hsub d (h d hd)
      · exact hmods ⟨d, firstAct (moduleAction req d), g.2, .first⟩ (List.mem_map.2 ⟨d, hd, rfl⟩)

theorem yieldSorted_depsIn (req : List Nat) : ∀ (gs : List (List Mod × List Mod))
    (seen ms : List Mod), depsClosedAux seen gs = true → (∀ x ∈ seen, x ∈ ms) →
    DepsIn ms (yieldSorted req gs) := by
  intro gs
  induction gs with
  | nil => intro _ _ _ _; simp [yieldSorted, DepsIn]
  | cons g t ih =>
    intro seen ms hc hsub
    simp only [depsClosedAux, Bool.and_eq_true, List.all_eq_true] at hc
    have e : yieldSorted req (g :: t) = yieldGroup req g ++ yieldSorted req t := by
      simp [yieldSorted]
    rw [e]
    apply DepsIn.append
    · apply yieldGroup_depsIn
      intro d hd
      have := hc.1 d hd
      exact hsub d (by simpa using this)
    · intro ms' hsub' hmods
      apply ih (seen ++ g.1) ms' hc.2
      intro x hx
      rcases List.mem_append.1 hx with hx | hx
      · exact hsub' x (hsub x hx)
      · obtain ⟨it, hit, rfl⟩ := yieldGroup_covers req g x hx
        exact hmods it hit

theorem setupBuild_total (req : List Nat) (gs : List (List Mod × List Mod))
    (h : depsClosed gs = true) : ∃ st, setupBuild req gs = .ok st := by
  unfold setupBuild
  exact runItems_total _ St.init [] (.inr fun m hm => by cases hm)
    (yieldSorted_depsIn req gs [] [] h (fun x hx => by cases hx))

end PytypeModel.Plan
