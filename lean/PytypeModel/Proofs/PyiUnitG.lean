import PytypeModel.Proofs.PyiUnitF

/-! C05, unit level, part G: `VerifyVisitor` accepts the normal form; `canonical_pyi`. -/
namespace PytypeModel.Pytd

theorem verifyTys_of_all {l : List Ty} (h : ∀ t ∈ l, verifyTy t = true) : verifyTys l = true := by
  induction l with
  | nil => rfl
  | cons a as ih =>
    simp only [verifyTys, Bool.and_eq_true]
    exact ⟨h a (by simp), ih (fun t ht => h t (by simp [ht]))⟩

theorem verify_simpleNorm (tps : List String) (x : String) : verifyTy (simpleNorm tps x) = true := by
  unfold simpleNorm noneTy
  split
  · rfl
  · split <;> rfl

theorem verify_normName (tps : List String) (n : String) : verifyTy (normName tps n) = true := by
  unfold normName
  split
  · exact verify_simpleNorm _ _
  · exact verify_simpleNorm _ _
  · rfl
  · rfl

theorem verify_norm_nameTy {b : Ty} (hb : isNameTy b = true) (tps : List String) (ip : Bool) :
    verifyTy (normTy tps ip b) = true := by
  cases b <;> simp [isNameTy] at hb <;> simp only [normTy] <;> exact verify_normName _ _

theorem verify_norm_aux {g : GCtx} (ip : Bool) : ∀ (n : Nat) (t : Ty), t.size ≤ n → fTy g ip t = true →
    verifyTy (normTy g.tps ip t) = true := by
  intro n
  induction n with
  | zero => intro t hs; cases t <;> simp [Ty.size] at hs
  | succ n ihn =>
    intro t hs hf
    have hlist : ∀ ps : List Ty, Ty.size.sizeList ps ≤ n → fTys g ip ps = true →
        ∀ p ∈ normTys g.tps ip ps, verifyTy p = true := by
      intro ps hps hfp p hp
      rw [normTys_eq_map] at hp
      obtain ⟨q, hq, rfl⟩ := List.mem_map.1 hp
      have := size_mem_lt hq
      exact ihn q (by omega) (fTys_mem hfp hq)
    cases t with
    | any => simp [normTy, verifyTy]
    | nothing => simp [normTy, verifyTy]
    | named n' => simp only [normTy]; exact verify_normName _ _
    | cls n' => simp only [normTy]; exact verify_normName _ _
    | late n' => simp only [normTy]; exact verify_normName _ _
    | typeParam n' s => simp only [normTy]; exact verify_simpleNorm _ _
    | literal v => simp [normTy, verifyTy]
    | annotated t' as =>
      simp only [fTy, Bool.and_eq_true] at hf
      simp only [Ty.size] at hs
      simp only [normTy, verifyTy]
      exact ihn t' (by omega) hf.1.1
    | generic b ps =>
      obtain ⟨hb, _, _, hne, hfps, _⟩ := fTy_generic_unpack hf
      simp only [Ty.size] at hs
      have hps := hlist ps (by omega) hfps
      have hnne : normTys g.tps ip ps ≠ [] := by
        cases ps with
        | nil => exact absurd rfl hne
        | cons _ _ => simp [normTys]
      rw [normTy_generic]
      split
      · have : verifyTys (normTys g.tps ip ps).tail = true :=
          verifyTys_of_all (fun t ht => hps t (List.mem_of_mem_tail ht))
        simp [verifyTy, verifyTys, verify_norm_nameTy hb, this]
      · simp only [verifyTy, verify_norm_nameTy hb, Bool.and_eq_true, Bool.not_eq_true', true_and, and_true]
        exact ⟨by simpa using hnne, verifyTys_of_all hps⟩
    | tuple b ps =>
      simp only [fTy, Bool.and_eq_true, decide_eq_true_eq] at hf
      simp only [Ty.size] at hs
      simp only [normTy, verifyTy, verify_norm_nameTy hf.1.1.1.1, Bool.true_and]
      exact verifyTys_of_all (hlist ps (by omega) hf.1.2)
    | callable b ps =>
      simp only [fTy, Bool.and_eq_true, decide_eq_true_eq, Bool.not_eq_true'] at hf
      simp only [Ty.size] at hs
      have hne : normTys g.tps ip ps ≠ [] := by
        cases ps with
        | nil => simp at hf
        | cons _ _ => simp [normTys]
      simp only [normTy, verifyTy, verify_norm_nameTy hf.1.1.1.1.1, Bool.and_eq_true, Bool.not_eq_true',
        true_and, and_true]
      exact ⟨by simpa using hne, verifyTys_of_all (hlist ps (by omega) hf.1.2)⟩
    | union ts =>
      simp only [fTy, Bool.and_eq_true, Bool.not_eq_true'] at hf
      simp only [Ty.size] at hs
      have hm := hlist ts (by omega) hf.1.1.2
      rw [normTy_union]
      unfold normUnion
      have hres : ∀ a ∈ unionRes ip (normTys g.tps ip ts), verifyTy a = true :=
        fun a ha => hm a (mem_formSetK (mem_unionRes.1 ha))
      unfold singleOrUnion
      split
      · next x hx => exact hres x (by rw [hx]; simp)
      · simp only [verifyTy]; exact verifyTys_of_all hres

theorem verify_norm {g : GCtx} (ip : Bool) (t : Ty) (hf : fTy g ip t = true) :
    verifyTy (normTy g.tps ip t) = true :=
  verify_norm_aux ip t.size t (Nat.le_refl _) hf

/-! ### the unit -/

theorem disjoint_of_nodup : ∀ (ls : List (List String)), ls.flatten.Nodup → disjointNameSets ls = true
  | [], _ => rfl
  | l :: ls, h => by
    simp only [List.flatten_cons] at h
    rw [List.nodup_append] at h
    obtain ⟨_, h2, h3⟩ := h
    simp only [disjointNameSets, Bool.and_eq_true, List.all_eq_true, Bool.not_eq_true', Bool.eq_false_iff,
      List.contains_iff_mem]
    refine ⟨?_, disjoint_of_nodup ls h2⟩
    intro m hm x hx hxm
    exact h3 x hx x (List.mem_flatten.2 ⟨m, hm, List.contains_iff_mem.1 hxm⟩) rfl

theorem disjoint_of_nodup3 {a b c : List String} (h : (a ++ b ++ c).Nodup) :
    disjointNameSets [a, b, [], [], c] = true := by
  apply disjoint_of_nodup
  simpa [List.append_assoc] using h

/-- **Verify (norm u)** on the fragment -/
theorem verify_normUnit {u : TUnit} (hfr : inFragment u = true) : verifyUnit (normUnit u) = true := by
  have hf := frag_of_inFragment hfr
  have htps : (unitCtx u).tps = u.typeParams.map (·.name) := rfl
  have hnames := hf.namesOnce
  unfold unitNames at hnames
  rw [hf.noFunc, hf.noClass] at hnames
  simp only [List.map_nil, List.nil_append, List.append_nil] at hnames
  unfold verifyUnit normUnit
  simp only [hf.noClass, hf.noFunc, normClasses_nil, List.map_nil, List.all_nil, Bool.and_true, List.map_map,
    Bool.and_eq_true]
  rw [← htps]
  have hperm : ((sortDecls (u.typeParams.map (normDecl (unitCtx u).tps))).map (·.name)).Perm
      (u.typeParams.map (·.name)) := by
    have e : (u.typeParams.map (normDecl (unitCtx u).tps)).map (·.name) = u.typeParams.map (·.name) := by
      rw [List.map_map]; apply List.map_congr_left; intro d _; rfl
    rw [← e]
    exact (perm_sortDecls _).map _
  refine ⟨⟨⟨⟨?_, ?_⟩, ?_⟩, ?_⟩, ?_⟩
  · apply disjoint_of_nodup3
    have hp : (u.constants.map (·.name) ++ (sortDecls (u.typeParams.map (normDecl (unitCtx u).tps))).map (·.name) ++
        u.aliases.map (·.name)).Perm
        (u.constants.map (·.name) ++ u.typeParams.map (·.name) ++ u.aliases.map (·.name)) :=
      List.Perm.append (List.Perm.append (List.Perm.refl _) hperm) (List.Perm.refl _)
    have : (u.constants.map ((fun x => x.name) ∘ normConst (unitCtx u).tps)) = u.constants.map (·.name) := by
      apply List.map_congr_left; intro c _; rfl
    rw [this]
    have h2 : (u.aliases.map ((fun x => x.name) ∘ fun a => ({ a with ty := normTy (unitCtx u).tps false a.ty } : Alias)))
        = u.aliases.map (·.name) := by
      apply List.map_congr_left; intro c _; rfl
    rw [h2]
    exact hp.nodup_iff.2 hnames
  · rw [List.all_eq_true]
    intro c hc
    obtain ⟨c0, hc0, rfl⟩ := List.mem_map.1 hc
    exact verify_norm false c0.ty (fConst_ty (List.all_eq_true.1 hf.consts c0 hc0))
  · rw [List.all_eq_true]
    intro t ht
    obtain ⟨t0, ht0, rfl⟩ := List.mem_map.1 (mem_sortDecls.1 ht)
    obtain ⟨hc, hb⟩ := fDecl_tys (List.all_eq_true.1 hf.tps t0 ht0)
    unfold verifyDecl normDecl
    simp only [Bool.and_eq_true, List.all_eq_true, List.mem_map]
    refine ⟨?_, ?_⟩
    · rintro x ⟨c, hcm, rfl⟩
      exact verify_norm false c (fTys_mem hc hcm)
    · cases hbd : t0.bound with
      | none => rfl
      | some b => exact verify_norm false b (hb b hbd)
  · simp [verifyClasses]
  · rw [List.all_eq_true]
    intro a ha
    obtain ⟨a0, ha0, rfl⟩ := List.mem_map.1 ha
    exact verify_norm false a0.ty (fAlias_ty (List.all_eq_true.1 hf.aliases a0 ha0))

/-! ### `canonical_pyi` -/

theorem modelledGuards_of_inFragment {u : TUnit} (h : inFragment u = true) :
    (modelledGuards u).all (·.2) = true := by
  have hm := (frag_of_inFragment h).modelled
  unfold modelled at hm
  simp only [Bool.and_eq_true] at hm
  exact hm.1

theorem canonicalPyi_print {u : TUnit} (hfr : inFragment u = true)
    (hv : verifyUnit (canonUnit (normUnit u)) = true)
    (hm : (modelledGuards (canonUnit (normUnit u))).all (·.2) = true) :
    canonicalPyi (printUnit u) = .ok (printUnit (canonUnit (normUnit u))) := by
  unfold canonicalPyi
  rw [convert_print hfr]
  simp [bind, Except.bind, hv, hm]

end PytypeModel.Pytd
