import PytypeModel.Sem.MiniFlow

namespace PytypeModel.MiniFlow

/-! ### refinement preserves everything the analyser looks at -/

theorem refinesL_isEmpty : ∀ (cs as : List V), refinesL cs as = true → cs.isEmpty = as.isEmpty
  | [], [], _ => rfl
  | _ :: _, _ :: _, _ => rfl
  | [], _ :: _, h => by simp [refinesL] at h
  | _ :: _, [], h => by simp [refinesL] at h

theorem truth_refines (c a : V) (h : refines c a = true) (hu : a ≠ .ubool) : truth c = truth a := by
  cases a <;> cases c <;> simp_all [refines, truth]
  all_goals first
    | (rename_i xs ys; rw [refinesL_isEmpty _ _ h])
    | (rename_i k1 v1 k2 v2; rw [refinesL_isEmpty _ _ h.1])

theorem isNoneV_refines (c a : V) (h : refines c a = true) : isNoneV c = isNoneV a := by
  cases a <;> cases c <;> simp_all [refines, isNoneV]

theorem isInst_refines (c a : V) (t : TestTy) (h : refines c a = true) : isInst c t = isInst a t := by
  cases a <;> cases c <;> simp_all [refines] <;> (cases t <;> try rfl) <;> (rename_i b; cases b <;> rfl)

theorem refines_narrow (c a : V) (b : Bool) (h : refines c a = true) (ht : truth c = b) :
    refines c (narrow b a) = true := by
  cases a <;> cases c <;> simp_all [refines, narrow, truth]

theorem decSem_sound : DecSound decSem := by
  intro a b hd c hr
  cases a <;> simp [decSem] at hd <;> (subst hd; exact truth_refines _ _ hr (by simp))

/-! ### types admit the values they were computed from -/

theorem admitsAny_of_mem : ∀ (ts : List Ty) (t : Ty) (c : V), t ∈ ts → admits t c = true → admitsAny ts c = true
  | [], _, _, h, _ => by cases h
  | u :: us, t, c, h, ha => by
    rw [admitsAny]
    rcases List.mem_cons.1 h with rfl | h'
    · simp [ha]
    · simp [admitsAny_of_mem us t c h' ha]

theorem admits_unionOf (ts : List Ty) (t : Ty) (c : V) (hm : t ∈ ts) (ha : admits t c = true) :
    admits (unionOf ts) c = true := by
  match ts, hm with
  | [u], hm => simp at hm; subst hm; simpa [unionOf]
  | u :: v :: rest, hm =>
    simp only [unionOf]
    rw [admits]
    exact admitsAny_of_mem _ t c hm ha

theorem admitsAll_mono (t u : Ty) (h : ∀ c, admits t c = true → admits u c = true) :
    ∀ cs, admitsAll t cs = true → admitsAll u cs = true
  | [], _ => by simp [admitsAll]
  | c :: cs, hc => by
    simp only [admitsAll, Bool.and_eq_true] at hc ⊢
    exact ⟨h c hc.1, admitsAll_mono t u h cs hc.2⟩

mutual
theorem admits_typeOf : ∀ (c a : V), refines c a = true → admits (typeOf a) c = true
  | .bool _, .ubool, _ => by simp [typeOf, admits]
  | .int _, .int _, _ => by simp [typeOf, admits]
  | .float _, .float _, _ => by simp [typeOf, admits]
  | .str _, .str _, _ => by simp [typeOf, admits]
  | .bytes _, .bytes _, _ => by simp [typeOf, admits]
  | .bool _, .bool _, _ => by simp [typeOf, admits]
  | .none, .none, _ => by simp [typeOf, admits]
  | .list cs, .list as, h => by
    simp only [refines] at h
    simp only [typeOf, admits]
    exact admitsAll_union cs as as (fun t ht => ht) h
  | .set cs, .set as, h => by
    simp only [refines] at h
    simp only [typeOf, admits]
    exact admitsAll_union cs as as (fun t ht => ht) h
  | .tuple cs, .tuple as, h => by
    simp only [refines] at h
    simp only [typeOf, admits]
    exact admitsEach_typesOf cs as h
  | .dict ck cv, .dict ak av, h => by
    simp only [refines, Bool.and_eq_true] at h
    simp only [typeOf, admits, Bool.and_eq_true]
    exact ⟨admitsAll_union ck ak ak (fun t ht => ht) h.1, admitsAll_union cv av av (fun t ht => ht) h.2⟩
  | .int _, .float _, h | .int _, .str _, h | .int _, .bytes _, h | .int _, .bool _, h | .int _, .none, h
  | .int _, .ubool, h | .int _, .list _, h | .int _, .tuple _, h | .int _, .set _, h | .int _, .dict _ _, h
  | .float _, .int _, h | .float _, .str _, h | .float _, .bytes _, h | .float _, .bool _, h | .float _, .none, h
  | .float _, .ubool, h | .float _, .list _, h | .float _, .tuple _, h | .float _, .set _, h | .float _, .dict _ _, h
  | .str _, .int _, h | .str _, .float _, h | .str _, .bytes _, h | .str _, .bool _, h | .str _, .none, h
  | .str _, .ubool, h | .str _, .list _, h | .str _, .tuple _, h | .str _, .set _, h | .str _, .dict _ _, h
  | .bytes _, .int _, h | .bytes _, .float _, h | .bytes _, .str _, h | .bytes _, .bool _, h | .bytes _, .none, h
  | .bytes _, .ubool, h | .bytes _, .list _, h | .bytes _, .tuple _, h | .bytes _, .set _, h | .bytes _, .dict _ _, h
  | .bool _, .int _, h | .bool _, .float _, h | .bool _, .str _, h | .bool _, .bytes _, h | .bool _, .none, h
  | .bool _, .list _, h | .bool _, .tuple _, h | .bool _, .set _, h | .bool _, .dict _ _, h
  | .none, .int _, h | .none, .float _, h | .none, .str _, h | .none, .bytes _, h | .none, .bool _, h
  | .none, .ubool, h | .none, .list _, h | .none, .tuple _, h | .none, .set _, h | .none, .dict _ _, h
  | .ubool, _, h
  | .list _, .int _, h | .list _, .float _, h | .list _, .str _, h | .list _, .bytes _, h | .list _, .bool _, h
  | .list _, .none, h | .list _, .ubool, h | .list _, .tuple _, h | .list _, .set _, h | .list _, .dict _ _, h
  | .tuple _, .int _, h | .tuple _, .float _, h | .tuple _, .str _, h | .tuple _, .bytes _, h | .tuple _, .bool _, h
  | .tuple _, .none, h | .tuple _, .ubool, h | .tuple _, .list _, h | .tuple _, .set _, h | .tuple _, .dict _ _, h
  | .set _, .int _, h | .set _, .float _, h | .set _, .str _, h | .set _, .bytes _, h | .set _, .bool _, h
  | .set _, .none, h | .set _, .ubool, h | .set _, .list _, h | .set _, .tuple _, h | .set _, .dict _ _, h
  | .dict _ _, .int _, h | .dict _ _, .float _, h | .dict _ _, .str _, h | .dict _ _, .bytes _, h | .dict _ _, .bool _, h
  | .dict _ _, .none, h | .dict _ _, .ubool, h | .dict _ _, .list _, h | .dict _ _, .tuple _, h | .dict _ _, .set _, h => by
    simp [refines] at h
/-- every element of `cs` (refining the corresponding element of a suffix `as` of `all`) is admitted by
the union of the types of `all`. -/
theorem admitsAll_union : ∀ (cs as all : List V), (∀ t, t ∈ typesOf as → t ∈ typesOf all) →
    refinesL cs as = true → admitsAll (unionOf (typesOf all)) cs = true
  | [], [], _, _, _ => by simp [admitsAll]
  | c :: cs, a :: as, all, hsub, h => by
    simp only [refinesL, Bool.and_eq_true] at h
    simp only [admitsAll, Bool.and_eq_true]
    refine ⟨?_, admitsAll_union cs as all (fun t ht => hsub t (by simp [typesOf, ht])) h.2⟩
    exact admits_unionOf _ (typeOf a) c (hsub _ (by simp [typesOf])) (admits_typeOf c a h.1)
  | [], _ :: _, _, _, h => by simp [refinesL] at h
  | _ :: _, [], _, _, h => by simp [refinesL] at h
theorem admitsEach_typesOf : ∀ (cs as : List V), refinesL cs as = true → admitsEach (typesOf as) cs = true
  | [], [], _ => by simp [typesOf, admitsEach]
  | c :: cs, a :: as, h => by
    simp only [refinesL, Bool.and_eq_true] at h
    simp only [typesOf, admitsEach, Bool.and_eq_true]
    exact ⟨admits_typeOf c a h.1, admitsEach_typesOf cs as h.2⟩
  | [], _ :: _, h => by simp [refinesL] at h
  | _ :: _, [], h => by simp [refinesL] at h
end

end PytypeModel.MiniFlow

namespace PytypeModel.MiniFlow

theorem refines_scalar (s : Scalar) : refines s.toV s.toV = true := by
  cases s <;> simp [Scalar.toV, refines]

theorem get_refines : ∀ (cenv aenv : Env) (x : String) (c : V), refinesEnv cenv aenv = true →
    cenv.get x = some c → ∃ a, aenv.get x = some a ∧ refines c a = true
  | [], [], _, _, _, h => by simp [Env.get] at h
  | (y, cv) :: ce, (z, av) :: ae, x, c, henv, h => by
    simp only [refinesEnv, Bool.and_eq_true, beq_iff_eq] at henv
    obtain ⟨⟨hyz, hr⟩, hrest⟩ := henv
    subst hyz
    simp only [Env.get] at h ⊢
    by_cases hx : (x == y) = true
    · simp only [hx, if_true] at h ⊢
      cases h
      exact ⟨av, rfl, hr⟩
    · simp only [hx] at h ⊢
      exact get_refines ce ae x c hrest h
  | [], _ :: _, _, _, henv, _ => by simp [refinesEnv] at henv
  | _ :: _, [], _, _, henv, _ => by simp [refinesEnv] at henv

theorem set_refines (cenv aenv : Env) (x : String) (c a : V) (henv : refinesEnv cenv aenv = true)
    (h : refines c a = true) : refinesEnv (cenv.set x c) (aenv.set x a) = true := by
  simp [Env.set, refinesEnv, henv, h]

theorem mem_bindAll {α β : Type} {xs : List α} {f : α → List β} {b : β} :
    b ∈ bindAll xs f ↔ ∃ a, a ∈ xs ∧ b ∈ f a := by
  simp [bindAll, List.mem_flatMap]

section sim
variable (dec : Dec) (hd : DecSound dec) (ρ : Nat → Bool)
include hd

mutual
theorem evalA_sim (cenv aenv : Env) (henv : refinesEnv cenv aenv = true) :
    ∀ (e : Expr) (c : V), evalC ρ cenv e = some c → ∃ a, a ∈ evalA dec aenv e ∧ refines c a = true
  | .lit s, c, h => by
    simp only [evalC, Option.some.injEq] at h; subst h
    exact ⟨s.toV, by simp [evalA], refines_scalar s⟩
  | .name x, c, h => by
    simp only [evalC] at h
    obtain ⟨a, ha, hr⟩ := get_refines cenv aenv x c henv h
    exact ⟨a, by simp [evalA, ha], hr⟩
  | .list es, c, h => by
    simp only [evalC, Option.map_eq_some_iff] at h
    obtain ⟨cs, hcs, rfl⟩ := h
    obtain ⟨as, hmem, hr⟩ := evalAs_sim cenv aenv henv es cs hcs
    exact ⟨.list as, by simp only [evalA, List.mem_map]; exact ⟨as, hmem, rfl⟩, by simpa [refines] using hr⟩
  | .tuple es, c, h => by
    simp only [evalC, Option.map_eq_some_iff] at h
    obtain ⟨cs, hcs, rfl⟩ := h
    obtain ⟨as, hmem, hr⟩ := evalAs_sim cenv aenv henv es cs hcs
    exact ⟨.tuple as, by simp only [evalA, List.mem_map]; exact ⟨as, hmem, rfl⟩, by simpa [refines] using hr⟩
  | .set es, c, h => by
    simp only [evalC, Option.map_eq_some_iff] at h
    obtain ⟨cs, hcs, rfl⟩ := h
    obtain ⟨as, hmem, hr⟩ := evalAs_sim cenv aenv henv es cs hcs
    exact ⟨.set as, by simp only [evalA, List.mem_map]; exact ⟨as, hmem, rfl⟩, by simpa [refines] using hr⟩
  | .dict ks vs, c, h => by
    simp only [evalC] at h
    split at h
    · rename_i ck cv hk hv
      simp only [Option.some.injEq] at h; subst h
      obtain ⟨ak, hmk, hrk⟩ := evalAs_sim cenv aenv henv ks ck hk
      obtain ⟨av, hmv, hrv⟩ := evalAs_sim cenv aenv henv vs cv hv
      refine ⟨.dict ak av, ?_, by simp [refines, hrk, hrv]⟩
      simp only [evalA, mem_bindAll, List.mem_map]
      exact ⟨ak, hmk, av, hmv, rfl⟩
    · cases h
  | .ifexp cnd a b, c, h => by
    simp only [evalC] at h
    split at h
    · rename_i vc hvc
      obtain ⟨avc, hmc, hrc⟩ := evalA_sim cenv aenv henv cnd vc hvc
      simp only [evalA, mem_bindAll]
      by_cases ht : truth vc = true
      · simp only [ht, if_true] at h
        obtain ⟨r, hm, hr⟩ := evalA_sim cenv aenv henv a c h
        refine ⟨r, ⟨avc, hmc, ?_⟩, hr⟩
        cases hdec : dec avc with
        | none => simp [hm]
        | some bb =>
          have := hd avc bb hdec vc hrc
          rw [ht] at this; subst this; simpa using hm
      · simp only [ht] at h
        obtain ⟨r, hm, hr⟩ := evalA_sim cenv aenv henv b c h
        refine ⟨r, ⟨avc, hmc, ?_⟩, hr⟩
        cases hdec : dec avc with
        | none => simp [hm]
        | some bb =>
          have := hd avc bb hdec vc hrc
          simp only [Bool.not_eq_true] at ht
          rw [ht] at this; subst this; simpa using hm
    · cases h
  | .and a b, c, h => by
    simp only [evalC] at h
    split at h
    · rename_i va hva
      obtain ⟨ava, hma, hra⟩ := evalA_sim cenv aenv henv a va hva
      simp only [evalA, mem_bindAll]
      by_cases ht : truth va = true
      · simp only [ht, if_true] at h
        obtain ⟨r, hm, hr⟩ := evalA_sim cenv aenv henv b c h
        refine ⟨r, ⟨ava, hma, ?_⟩, hr⟩
        cases hdec : dec ava with
        | none => simp [hm]
        | some bb =>
          have := hd ava bb hdec va hra
          rw [ht] at this; subst this; simpa using hm
      · simp only [ht, Bool.false_eq_true, if_false, Option.some.injEq] at h
        subst h
        cases hdec : dec ava with
        | none =>
          exact ⟨narrow false ava, ⟨ava, hma, by simp [hdec]⟩,
            refines_narrow va ava false hra (by simpa using ht)⟩
        | some bb =>
          have := hd ava bb hdec va hra
          simp only [Bool.not_eq_true] at ht
          rw [ht] at this; subst this
          exact ⟨ava, ⟨ava, hma, by simp [hdec]⟩, hra⟩
    · cases h
  | .or a b, c, h => by
    simp only [evalC] at h
    split at h
    · rename_i va hva
      obtain ⟨ava, hma, hra⟩ := evalA_sim cenv aenv henv a va hva
      simp only [evalA, mem_bindAll]
      by_cases ht : truth va = true
      · simp only [ht, if_true, Option.some.injEq] at h
        subst h
        cases hdec : dec ava with
        | none =>
          exact ⟨narrow true ava, ⟨ava, hma, by simp [hdec]⟩, refines_narrow va ava true hra ht⟩
        | some bb =>
          have := hd ava bb hdec va hra
          rw [ht] at this; subst this
          exact ⟨ava, ⟨ava, hma, by simp [hdec]⟩, hra⟩
      · simp only [ht] at h
        obtain ⟨r, hm, hr⟩ := evalA_sim cenv aenv henv b c h
        refine ⟨r, ⟨ava, hma, ?_⟩, hr⟩
        cases hdec : dec ava with
        | none => simp [hm]
        | some bb =>
          have := hd ava bb hdec va hra
          simp only [Bool.not_eq_true] at ht
          rw [ht] at this; subst this; simpa using hm
    · cases h
  | .not a, c, h => by
    simp only [evalC, Option.map_eq_some_iff] at h
    obtain ⟨va, hva, rfl⟩ := h
    obtain ⟨ava, hma, hra⟩ := evalA_sim cenv aenv henv a va hva
    simp only [evalA, List.mem_map]
    cases hdec : dec ava with
    | none => exact ⟨.ubool, ⟨ava, hma, by simp [hdec]⟩, by simp [refines]⟩
    | some bb =>
      have := hd ava bb hdec va hra
      exact ⟨.bool (!bb), ⟨ava, hma, by simp [hdec]⟩, by simp [refines, this]⟩
  | .isNone a, c, h => by
    simp only [evalC, Option.map_eq_some_iff] at h
    obtain ⟨va, hva, rfl⟩ := h
    obtain ⟨ava, hma, hra⟩ := evalA_sim cenv aenv henv a va hva
    exact ⟨.bool (isNoneV ava), by simp only [evalA, List.mem_map]; exact ⟨ava, hma, rfl⟩,
      by simp [refines, isNoneV_refines va ava hra]⟩
  | .isNotNone a, c, h => by
    simp only [evalC, Option.map_eq_some_iff] at h
    obtain ⟨va, hva, rfl⟩ := h
    obtain ⟨ava, hma, hra⟩ := evalA_sim cenv aenv henv a va hva
    exact ⟨.bool (!isNoneV ava), by simp only [evalA, List.mem_map]; exact ⟨ava, hma, rfl⟩,
      by simp [refines, isNoneV_refines va ava hra]⟩
  | .isinst a t, c, h => by
    simp only [evalC, Option.map_eq_some_iff] at h
    obtain ⟨va, hva, rfl⟩ := h
    obtain ⟨ava, hma, hra⟩ := evalA_sim cenv aenv henv a va hva
    exact ⟨.bool (isInst ava t), by simp only [evalA, List.mem_map]; exact ⟨ava, hma, rfl⟩,
      by simp [refines, isInst_refines va ava t hra]⟩
  | .opaque k, c, h => by
    simp only [evalC, Option.some.injEq] at h; subst h
    exact ⟨.ubool, by simp [evalA], by simp [refines]⟩
theorem evalAs_sim (cenv aenv : Env) (henv : refinesEnv cenv aenv = true) :
    ∀ (es : List Expr) (cs : List V), evalCs ρ cenv es = some cs →
      ∃ as, as ∈ evalAs dec aenv es ∧ refinesL cs as = true
  | [], cs, h => by
    simp only [evalCs, Option.some.injEq] at h; subst h
    exact ⟨[], by simp [evalAs], by simp [refinesL]⟩
  | e :: es, cs, h => by
    simp only [evalCs] at h
    split at h
    · rename_i v vs hv hvs
      simp only [Option.some.injEq] at h; subst h
      obtain ⟨a, hma, hra⟩ := evalA_sim cenv aenv henv e v hv
      obtain ⟨as, hmas, hras⟩ := evalAs_sim cenv aenv henv es vs hvs
      refine ⟨a :: as, ?_, by simp [refinesL, hra, hras]⟩
      simp only [evalAs, mem_bindAll, List.mem_map]
      exact ⟨a, hma, as, hmas, rfl⟩
    · cases h
end

mutual
theorem execA_sim : ∀ (s : Stmt) (cenv aenv cenv' : Env), refinesEnv cenv aenv = true →
    execC ρ cenv s = some cenv' → ∃ aenv', aenv' ∈ execA dec aenv s ∧ refinesEnv cenv' aenv' = true
  | .assign x e, cenv, aenv, cenv', henv, h => by
    simp only [execC, Option.map_eq_some_iff] at h
    obtain ⟨c, hc, rfl⟩ := h
    obtain ⟨a, hma, hra⟩ := evalA_sim dec hd ρ cenv aenv henv e c hc
    exact ⟨aenv.set x a, by simp only [execA, List.mem_map]; exact ⟨a, hma, rfl⟩,
      set_refines _ _ _ _ _ henv hra⟩
  | .ite cnd thn els, cenv, aenv, cenv', henv, h => by
    simp only [execC] at h
    split at h
    · rename_i vc hvc
      obtain ⟨avc, hmc, hrc⟩ := evalA_sim dec hd ρ cenv aenv henv cnd vc hvc
      simp only [execA, mem_bindAll]
      by_cases ht : truth vc = true
      · simp only [ht, if_true] at h
        obtain ⟨r, hm, hr⟩ := execAs_sim thn cenv aenv cenv' henv h
        refine ⟨r, ⟨avc, hmc, ?_⟩, hr⟩
        cases hdec : dec avc with
        | none => simp [hm]
        | some bb =>
          have := hd avc bb hdec vc hrc
          rw [ht] at this; subst this; simpa using hm
      · simp only [ht] at h
        obtain ⟨r, hm, hr⟩ := execAs_sim els cenv aenv cenv' henv h
        refine ⟨r, ⟨avc, hmc, ?_⟩, hr⟩
        cases hdec : dec avc with
        | none => simp [hm]
        | some bb =>
          have := hd avc bb hdec vc hrc
          simp only [Bool.not_eq_true] at ht
          rw [ht] at this; subst this; simpa using hm
    · cases h
theorem execAs_sim : ∀ (ss : List Stmt) (cenv aenv cenv' : Env), refinesEnv cenv aenv = true →
    execCs ρ cenv ss = some cenv' → ∃ aenv', aenv' ∈ execAs dec aenv ss ∧ refinesEnv cenv' aenv' = true
  | [], cenv, aenv, cenv', henv, h => by
    simp only [execCs, Option.some.injEq] at h; subst h
    exact ⟨aenv, by simp [execAs], henv⟩
  | s :: ss, cenv, aenv, cenv', henv, h => by
    simp only [execCs] at h
    split at h
    · rename_i cmid hmid
      obtain ⟨amid, hm1, hr1⟩ := execA_sim s cenv aenv cmid henv hmid
      obtain ⟨afin, hm2, hr2⟩ := execAs_sim ss cmid amid cenv' hr1 h
      exact ⟨afin, by simp only [execAs, mem_bindAll]; exact ⟨amid, hm1, hm2⟩, hr2⟩
    · cases h
end

end sim

end PytypeModel.MiniFlow
