/-
C11 proofs, part 9: the visitors that lose nothing (SimplifyUnions, SimplifyContainers,
SimplifyUnionsWithSuperclasses are exact), and the idempotent ones (JoinTypes, RemoveDuplicates).
-/
import PytypeModel.Proofs.OptimizePipeline

namespace PytypeModel.Pytd

/-! ### the reverse inclusion through the bottom-up visitor -/

theorem PW.map_rev {S : Sem} (f : Ty → Ty) : ∀ (ps : List Ty), (∀ p, p ∈ ps → TyLe S (f p) p) → PW S (ps.map f) ps
  | [], _ => PW_nil _ _
  | p :: ps, h => ⟨h p List.mem_cons_self, PW.map_rev f ps (fun q hq => h q (List.mem_cons_of_mem _ hq))⟩

theorem denAny_map_rev {S : Sem} (f : Ty → Ty) (ts : List Ty) (h : ∀ t, t ∈ ts → TyLe S (f t) t) (v : Val)
    (hd : denAny S (ts.map f) v) : denAny S ts v := by
  obtain ⟨t', ht', hv⟩ := (denAny_iff S _ v).1 hd
  obtain ⟨t, ht, rfl⟩ := List.mem_map.1 ht'
  exact (denAny_iff S _ v).2 ⟨t, ht, h t ht v hv⟩

section
variable {S : Sem} {hook : Ty → Ty} (hh : ∀ t, TyLe S (hook t) t)
include hh

mutual
theorem bu_ge : ∀ t, TyLe S (t.bu hook) t
  | .generic b ps => by
    simp only [Ty.bu]
    refine TyLe.trans (hh _) ?_
    rw [buList_eq_map]
    exact generic_mono (bu_ge b) (PW.map_rev _ ps (fun p hp => buList_ge ps p hp))
  | .tuple b ps => by
    simp only [Ty.bu]
    refine TyLe.trans (hh _) ?_
    rw [buList_eq_map]
    exact tuple_mono (bu_ge b) (PW.map_rev _ ps (fun p hp => buList_ge ps p hp)) (by simp)
  | .callable b ps => by
    simp only [Ty.bu]
    refine TyLe.trans (hh _) ?_
    rw [buList_eq_map]
    exact callable_mono (bu_ge b) (PW.map_rev _ ps (fun p hp => buList_ge ps p hp)) (by simp)
  | .union ts => by
    simp only [Ty.bu]
    refine TyLe.trans (hh _) ?_
    intro v hv
    rw [mkUnion_den, buList_eq_map] at hv
    rw [den_union]
    exact denAny_map_rev _ ts (fun t ht => buList_ge ts t ht) v hv
  | .annotated t as => by
    simp only [Ty.bu]
    refine TyLe.trans (hh _) ?_
    intro v hv
    simp at hv ⊢
    exact bu_ge t v hv
  | .any => by simpa [Ty.bu] using hh .any
  | .nothing => by simpa [Ty.bu] using hh .nothing
  | .named n => by simpa [Ty.bu] using hh (.named n)
  | .cls n => by simpa [Ty.bu] using hh (.cls n)
  | .late n => by simpa [Ty.bu] using hh (.late n)
  | .typeParam n s => by simpa [Ty.bu] using hh (.typeParam n s)
  | .literal l => by simpa [Ty.bu] using hh (.literal l)
theorem buList_ge : ∀ (ts : List Ty) (t : Ty), t ∈ ts → TyLe S (t.bu hook) t
  | [], _, ht => by cases ht
  | a :: as, t, ht => by
    cases ht with
    | head => exact bu_ge a
    | tail _ ht => exact buList_ge as t ht
end
end

theorem simplifyUnions_ge (S : Sem) (t : Ty) : TyLe S (simplifyUnions t) t := by
  apply bu_ge
  intro t v hv
  cases t <;> simp only [suHook] at hv <;> try exact hv
  rw [den_union]
  exact (joinTypes_den S _ v).1 hv

theorem denSlots_allAny (S : Sem) : ∀ (ps : List Ty) (ss : List (List Val)), ps.all Ty.isAny = true → denSlots S ps ss
  | [], _, _ => by simp [denSlots]
  | _ :: _, [], _ => by simp [denSlots]
  | p :: ps, es :: ess, h => by
    simp only [List.all_cons, Bool.and_eq_true] at h
    simp only [denSlots]
    refine ⟨?_, denSlots_allAny S ps ess h.2⟩
    intro e _
    cases p <;> simp [Ty.isAny] at h
    simp

theorem simplifyContainers_ge (S : Sem) (t : Ty) : TyLe S (simplifyContainers t) t := by
  apply bu_ge
  intro t v hv
  cases t <;> simp only [scHook] at hv <;> try exact hv
  rename_i b ps
  split at hv
  · rename_i hall
    rw [den_generic]
    exact ⟨hv, denSlots_allAny S ps _ hall⟩
  · exact hv

theorem suws_ge (S : Sem) (H : Hier) (t : Ty) : TyLe S (suws H t) t := by
  apply bu_ge
  intro t v hv
  cases t <;> simp only [suwsHook] at hv <;> try exact hv
  rw [den_union]
  obtain ⟨x, hx, hd⟩ := (denAny_iff S _ v).1 ((joinTypes_den S _ v).1 hv)
  exact (denAny_iff S _ v).2 ⟨x, (List.mem_filter.1 hx).1, hd⟩

/-! ### RemoveDuplicates is idempotent -/

theorem dedupSigsAux_idem : ∀ (ss seen : List Sig), dedupSigsAux seen (dedupSigsAux seen ss) = dedupSigsAux seen ss
  | [], _ => by simp [dedupSigsAux]
  | a :: ss, seen => by
    by_cases h : seen.any (fun x => x.pyEq a) = true
    · simp only [dedupSigsAux, h, if_true]
      exact dedupSigsAux_idem ss seen
    · have e : dedupSigsAux seen (a :: ss) = a :: dedupSigsAux (a :: seen) ss := by simp [dedupSigsAux, h]
      rw [e]
      simp only [dedupSigsAux, h]
      simp only [Bool.false_eq_true, if_false]
      rw [dedupSigsAux_idem ss (a :: seen)]

theorem removeDuplicates_idem (f : Func) : removeDuplicates (removeDuplicates f) = removeDuplicates f := by
  simp only [removeDuplicates, dedupSigsAux_idem]

/-! ### JoinTypes is idempotent -/

def Ty.isFlat : Ty → Bool
  | .union _ | .nothing => false
  | _ => true

mutual
theorem flatTy_flat : ∀ t x, x ∈ flatTy t → x.isFlat = true
  | .union ts, x, h => by simp only [flatTy] at h; exact flatList_flat ts x h
  | .nothing, x, h => by simp [flatTy] at h
  | .any, x, h => by simp [flatTy] at h; subst h; rfl
  | .named _, x, h => by simp [flatTy] at h; subst h; rfl
  | .cls _, x, h => by simp [flatTy] at h; subst h; rfl
  | .late _, x, h => by simp [flatTy] at h; subst h; rfl
  | .typeParam _ _, x, h => by simp [flatTy] at h; subst h; rfl
  | .generic _ _, x, h => by simp [flatTy] at h; subst h; rfl
  | .tuple _ _, x, h => by simp [flatTy] at h; subst h; rfl
  | .callable _ _, x, h => by simp [flatTy] at h; subst h; rfl
  | .literal _, x, h => by simp [flatTy] at h; subst h; rfl
  | .annotated _ _, x, h => by simp [flatTy] at h; subst h; rfl
theorem flatList_flat : ∀ ts x, x ∈ flatList ts → x.isFlat = true
  | [], _, h => by simp [flatList] at h
  | t :: ts, x, h => by
    simp only [flatList, List.mem_append] at h
    rcases h with h | h
    · exact flatTy_flat t x h
    · exact flatList_flat ts x h
end

theorem flatTy_of_flat {t : Ty} (h : t.isFlat = true) : flatTy t = [t] := by
  cases t <;> simp [Ty.isFlat] at h <;> simp [flatTy]

theorem flatList_of_flat : ∀ (l : List Ty), (∀ x, x ∈ l → x.isFlat = true) → flatList l = l
  | [], _ => by simp [flatList]
  | a :: l, h => by
    simp only [flatList]
    rw [flatTy_of_flat (h a List.mem_cons_self), flatList_of_flat l (fun x hx => h x (List.mem_cons_of_mem _ hx))]
    rfl

theorem flattenUnionMembers_of_flat : ∀ (l : List Ty), (∀ x, x ∈ l → x.isFlat = true) → flattenUnionMembers l = l
  | [], _ => by simp [flattenUnionMembers]
  | a :: l, h => by
    have ih := flattenUnionMembers_of_flat l (fun x hx => h x (List.mem_cons_of_mem _ hx))
    have ha := h a List.mem_cons_self
    cases a <;> simp [Ty.isFlat] at ha <;> simp [flattenUnionMembers, ih]

theorem dedupAux_of_nodup : ∀ (l seen : List Ty), PyNodup l → (∀ t, t ∈ l → pyMem seen t = false) → dedupAux seen l = l
  | [], _, _, _ => by simp [dedupAux]
  | a :: l, seen, hn, hs => by
    have ha := hs a List.mem_cons_self
    simp only [dedupAux, ha]
    simp only [Bool.false_eq_true, if_false, List.cons.injEq, true_and]
    have hn' := List.Pairwise.of_cons hn
    apply dedupAux_of_nodup l (a :: seen) hn'
    intro t ht
    have h1 : a.pyEq t = false := List.rel_of_pairwise_cons hn ht
    have h2 := hs t (List.mem_cons_of_mem _ ht)
    simp only [pyMem, List.any_cons, h1, Bool.false_or] at h2 ⊢
    exact h2

theorem dedupPy_of_nodup (l : List Ty) (hn : PyNodup l) : dedupPy l = l :=
  dedupAux_of_nodup l [] hn (fun _ _ => by simp [pyMem])

theorem dedupPy_idem (l : List Ty) : dedupPy (dedupPy l) = dedupPy l := dedupPy_of_nodup _ (dedupPy_nodup l)

theorem joinTypes_single {t : Ty} (ht : t.isFlat = true) : joinTypes [t] = t := by
  have : dedupPy (flatList [t]) = [t] := by
    simp only [flatList, flatTy_of_flat ht, List.append_nil]
    simp [dedupPy, dedupAux, pyMem]
  simp only [joinTypes, this, joinCore]

theorem joinCore_idem (L : List Ty) (hflat : ∀ x, x ∈ L → x.isFlat = true) (hnd : PyNodup L) :
    joinTypes [joinCore L] = joinCore L := by
  unfold joinCore
  split
  · rename_i t
    exact joinTypes_single (hflat t List.mem_cons_self)
  · rename_i ms hns
    split
    · split
      · -- Union[Any, NoneType]
        have : dedupPy (flatList [Ty.union [Ty.any, Ty.named noneName]]) = [Ty.any, Ty.named noneName] := by
          simp [flatList, flatTy, dedupPy, dedupAux, pyMem, Ty.pyEq]
        simp only [joinTypes, this, joinCore]
        simp [Ty.isAny, Ty.isNoneNamed, noneName]
      · exact joinTypes_single rfl
    · rename_i hnoany
      split
      · -- nothing
        simp [joinTypes, joinCore, flatList, flatTy, dedupPy, dedupAux]
      · rename_i hne
        have hmk : mkUnion L = .union L := by
          simp only [mkUnion, flattenUnionMembers_of_flat L hflat, dedupPy_of_nodup L hnd]
        rw [hmk]
        have : dedupPy (flatList [Ty.union L]) = L := by
          simp only [flatList, flatTy, List.append_nil]
          rw [flatList_of_flat L hflat, dedupPy_of_nodup L hnd]
        simp only [joinTypes, this]
        unfold joinCore
        split
        · exact (hns _ rfl).elim
        · simp only [hnoany, hne]
          simp only [Bool.false_eq_true, if_false]
          exact hmk

/-- `JoinTypes([JoinTypes(ts)]) = JoinTypes(ts)` -/
theorem joinTypes_idem (ts : List Ty) : joinTypes [joinTypes ts] = joinTypes ts :=
  joinCore_idem _ (fun x hx => flatList_flat ts x (dedupPy_sub _ x hx)) (dedupPy_nodup (flatList ts))

end PytypeModel.Pytd
