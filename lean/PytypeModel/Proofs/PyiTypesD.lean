import PytypeModel.Proofs.PyiTypesC

/-! C05, types, part D: argument lists, `any`, `nothing`, type parameters, literals, `Annotated`. -/
namespace PytypeModel.Pytd

/-! ### parsing argument lists made of types -/

theorem parseArgs_cons_type (d : Defs) (e : PyExpr) (es : List PyExpr) (he : isTypeExpr e = true) :
    parseArgs d (e :: es) = (do let t ← parseTy d e; let ps ← parseArgs d es; .ok (.ty t :: ps)) := by
  cases e <;> simp [isTypeExpr] at he <;> simp [parseArgs]

/-- `es` are type expressions that parse to `pres` -/
def ParsesTo (d : Defs) : List PyExpr → List Ty → Prop
  | [], [] => True
  | e :: es, p :: ps => (parseTy d e = .ok p ∧ isTypeExpr e = true) ∧ ParsesTo d es ps
  | _, _ => False

theorem parseArgs_types {d : Defs} : ∀ {es : List PyExpr} {pres : List Ty}, ParsesTo d es pres →
    parseArgs d es = .ok (pres.map PArg.ty)
  | [], [], _ => by simp [parseArgs]
  | e :: es, p :: ps, h => by
    obtain ⟨⟨h1, h2⟩, h3⟩ := h
    rw [parseArgs_cons_type d e es h2, h1, parseArgs_types h3]
    rfl
  | [], _ :: _, h => by simp [ParsesTo] at h
  | _ :: _, [], h => by simp [ParsesTo] at h

theorem parseTys_types {d : Defs} : ∀ {es : List PyExpr} {pres : List Ty}, ParsesTo d es pres →
    parseTys d es = .ok pres
  | [], [], _ => by simp [parseTys]
  | e :: es, p :: ps, h => by
    obtain ⟨⟨h1, _⟩, h3⟩ := h
    simp only [parseTys, h1, parseTys_types h3]
    rfl
  | [], _ :: _, h => by simp [ParsesTo] at h
  | _ :: _, [], h => by simp [ParsesTo] at h

theorem ParsesTo.length {d : Defs} : ∀ {es : List PyExpr} {pres : List Ty}, ParsesTo d es pres →
    es.length = pres.length
  | [], [], _ => rfl
  | _ :: es, _ :: ps, h => by simp [ParsesTo.length h.2]
  | [], _ :: _, h => by simp [ParsesTo] at h
  | _ :: _, [], h => by simp [ParsesTo] at h

theorem ParsesTo.append {d : Defs} : ∀ {es1 : List PyExpr} {ps1 : List Ty} {es2 : List PyExpr} {ps2 : List Ty},
    ParsesTo d es1 ps1 → ParsesTo d es2 ps2 → ParsesTo d (es1 ++ es2) (ps1 ++ ps2)
  | [], [], _, _, _, h2 => h2
  | _ :: _, _ :: _, _, _, h1, h2 => ⟨h1.1, ParsesTo.append h1.2 h2⟩
  | [], _ :: _, _, _, h, _ => by simp [ParsesTo] at h
  | _ :: _, [], _, _, h, _ => by simp [ParsesTo] at h

theorem pargTys_map (ts : List Ty) : pargTys (ts.map PArg.ty) = .ok ts := by
  induction ts with
  | nil => rfl
  | cons t ts ih => simp [pargTys, ih]; rfl

theorem any_map_ty (ts : List Ty) (p : PArg → Bool) (hp : ∀ t, p (.ty t) = false) :
    (ts.map PArg.ty).any p = false := by
  induction ts with
  | nil => rfl
  | cons t ts ih => simp [hp, ih]

theorem cleanParams_types (bn : String) (ts : List Ty) (c : Bool) :
    cleanParams bn (ts.map PArg.ty) c = .ok (ts.map PArg.ty) := by
  unfold cleanParams
  have h1 : (ts.map PArg.ty).any PArg.isEllipsis = false := any_map_ty ts _ (fun _ => rfl)
  have h2 : (ts.map PArg.ty).tail.any PArg.isList = false := by
    cases ts with
    | nil => rfl
    | cons t ts => exact any_map_ty ts _ (fun _ => rfl)
  have h3 : ((ts.map PArg.ty).head?.map PArg.isList).getD false = false := by
    cases ts <;> rfl
  simp only [h1, h2, h3, Bool.and_false, Bool.or_false, Bool.false_eq_true, if_false]
  congr 1
  induction ts with
  | nil => rfl
  | cons t ts ih => simp [ih]

/-! ### the simple constructors -/

theorem tps_not_dotted {g : GCtx} (hg : GOK g) {n : String} {a b : String} {l : List String}
    (hn : comps n = a :: b :: l) : g.tps.contains n = false := by
  rw [Bool.eq_false_iff]
  intro hmem
  have := hg.tpsSingle n (by simpa using hmem)
  rw [hn] at this
  simp at this

theorem good_any {g : GCtx} (hg : GOK g) (ip : Bool) : TyGood g ip .any := by
  refine ⟨by simp [normTy], by simp [normTy], ?_⟩
  intro d henv
  refine ⟨.named "typing.Any", ?_, ?_, headOK_typing (n := "typing.Any") (x := "Any") (by decide) (by decide) (by decide) (by decide) (by decide) (by decide) rfl⟩
  · have : tyExpr ip .any = .name "Any" := by simp [tyExpr]
    rw [this, parseTy_name]
    apply newType_bare
    · rw [resolveType_imp henv (by simp [tyAdds]) (by decide)]; rfl
    · decide
  · rw [postTy_named, tps_not_dotted hg (n := "typing.Any") (a := "typing") (b := "Any") (l := []) (by decide)]
    simp [normTy]
    decide

theorem good_nothing (g : GCtx) (ip : Bool) : TyGood g ip .nothing := by
  refine ⟨by simp [normTy], by simp [normTy], ?_⟩
  intro d _
  refine ⟨.nothing, ?_, by simp [postTy, normTy], headOK_empty rfl⟩
  have : tyExpr ip .nothing = .name "nothing" := by simp [tyExpr]
  rw [this, parseTy_name]
  unfold newType resolveType
  simp

theorem good_typeParam {g : GCtx} (hg : GOK g) (ip : Bool) (n : String) (s : Option String)
    (hf : fTy g ip (.typeParam n s) = true) : TyGood g ip (.typeParam n s) := by
  simp only [fTy, Bool.and_eq_true, decide_eq_true_eq] at hf
  obtain ⟨⟨⟨hid, _⟩, hfs⟩, hNT⟩ := hf
  obtain ⟨h1, h2, h3⟩ := good_simple hg ip hid hfs
  have hexpr : simpleNameExpr n = .name n := by
    unfold simpleNameExpr
    simp [hNT, identOK_ne_None hid]
  have hn : normTy g.tps ip (.typeParam n s) = simpleNorm g.tps n := by simp [normTy]
  rw [hexpr] at h1 h3
  refine ⟨?_, ?_, ?_⟩
  · rw [hn, h1, tyExpr_typeParam]
  · intro X; rw [hn, h2, tyAdds_typeParam]
  · intro d henv
    rw [hn, tyExpr_typeParam]
    exact h3 d _ henv

/-! ### literals -/

theorem joinTypes_single_lit (v : Lit) : joinTypes [.literal v] = .literal v := by
  simp [joinTypes, flattenUnionMembers, dedupPy]

theorem adds_not_alias {g : GCtx} (hg : GOK g) {x : String} (h : x ∈ g.adds) :
    g.aliasNames.contains x = false := hg.addsAlias x h

theorem good_literal {g : GCtx} (hg : GOK g) (ip : Bool) (v : Lit) (hf : fTy g ip (.literal v) = true)
    (hsub : ∀ x ∈ tyAdds ip (.literal v), x ∈ g.adds) : TyGood g ip (.literal v) := by
  refine ⟨by simp [normTy], by simp [normTy], ?_⟩
  intro d henv
  have hLit : "Literal" ∈ g.adds := hsub _ (by simp [tyAdds])
  have hsp : special d "Literal" = .literal := by
    rw [special_of_single henv (by decide) (adds_not_alias hg hLit)]; rfl
  have hres : resolveType d "Literal" = .named "typing.Literal" := by
    rw [resolveType_imp henv (by simp [tyAdds]) (by decide)]; rfl
  refine ⟨.literal v, ?_, by simp [postTy, normTy], headOK_empty rfl⟩
  have hargs : parseLitArgs d [litExpr v] = .ok [.lit v] := by
    cases v with
    | int n => simp [litExpr, parseLitArgs]; rfl
    | str s => simp [litExpr, parseLitArgs]; rfl
    | bool b => simp [litExpr, parseLitArgs]; rfl
    | enumMember c m => simp [fTy] at hf
  have : tyExpr ip (.literal v) = .sub (.name "Literal") [litExpr v] := by simp [tyExpr]
  rw [this]
  simp only [parseTy, dottedName, hsp, hargs]
  show newType d "Literal" (some [.lit v]) = _
  unfold newType
  rw [hres]
  simp only [List.length_cons, List.length_nil]
  unfold parameterized
  rw [special_typing_Literal]
  simp only [pytdLiteral, litParamsTypes, litParamTypes]
  show Except.ok (joinTypes ([Ty.literal v] ++ [])) = _
  rw [List.append_nil, joinTypes_single_lit]

end PytypeModel.Pytd
