import PytypeModel.Merge.MergePyi

/-! C20 helper lemmas about the stub side: what the two pre-filters leave, what `collect` records,
and that the dequalifier / quoting do not change the meaning of an annotation. -/
namespace PytypeModel.Merge

theorem itemsL_append (q : List String) : ∀ (l1 l2 : List Stmt),
    itemsL q (l1 ++ l2) = itemsL q l1 ++ itemsL q l2 := by
  intro l1
  induction l1 with
  | nil => intro l2; simp [itemsL]
  | cons s ss ih => intro l2; simp [itemsL, ih]

theorem itemsL_single (q : List String) (s : Stmt) : itemsL q [s] = items q s := by
  simp [itemsL]

/-- a definition item (function or variable), as opposed to a class / TypeVar record -/
def Item.isDef : Item → Prop
  | .func _ _ _ => True
  | .var _ _ => True
  | _ => False

/-! ### `RemoveTrivialTypesTransformer` only removes variable declarations -/

mutual
theorem items_filterTV : ∀ (s : Stmt) (q : List String) (it : Item),
    it ∈ itemsL q (filterTV s) → it.isDef → it ∈ items q s
  | .funcDef n d ps r b, q, it, h, _ => by
    simpa [filterTV, itemsL, items] using h
  | .classDef n d bs b, q, it, h, hd => by
    simp only [filterTV, itemsL_single, items, List.mem_cons] at h ⊢
    rcases h with h | h
    · subst h; exact absurd hd (by simp [Item.isDef])
    · exact Or.inr (items_filterTVs b _ it h hd)
  | .annAssign t a v, q, it, h, _ => by
    cases v with
    | none =>
      simp only [filterTV] at h
      split at h
      · simp [itemsL] at h
      · simpa [itemsL] using h
    | some v => simpa [filterTV, itemsL] using h
  | .block hd' b, q, it, h, hd => by
    simp only [filterTV, itemsL_single, items] at h ⊢
    exact items_filterTVs b _ it h hd
  | .assign ts v tv, q, it, h, _ => by simpa [filterTV, itemsL] using h
  | .other t, q, it, h, _ => by simpa [filterTV, itemsL] using h
  | .importFrom m ns, q, it, h, _ => by simpa [filterTV, itemsL] using h
  | .importMod m, q, it, h, _ => by simpa [filterTV, itemsL] using h
theorem items_filterTVs : ∀ (ss : List Stmt) (q : List String) (it : Item),
    it ∈ itemsL q (filterTVs ss) → it.isDef → it ∈ itemsL q ss
  | [], q, it, h, _ => by simpa [filterTVs] using h
  | s :: ss, q, it, h, hd => by
    simp only [filterTVs, itemsL_append, List.mem_append, itemsL] at h ⊢
    rcases h with h | h
    · exact Or.inl (items_filterTV s q it h hd)
    · exact Or.inr (items_filterTVs ss q it h hd)
end

/-! ### `RemoveAnyNeverTransformer` -/

/-- relation between an item of the filtered stub and the items `orig` of the unfiltered one -/
def ANrel (orig : List Item) : Item → Prop
  | .var qn a => Item.var qn a ∈ orig ∧ isAnyNever a = false
  | .func qn ps r => ∃ r0, Item.func qn ps r0 ∈ orig ∧ r = (if optAnyNever r0 then none else r0)
  | _ => True

theorem ANrel_mono {o1 o2 : List Item} (h : ∀ x, x ∈ o1 → x ∈ o2) : ∀ it, ANrel o1 it → ANrel o2 it
  | .var _ _, ⟨a, b⟩ => ⟨h _ a, b⟩
  | .func _ _ _, ⟨r0, a, b⟩ => ⟨r0, h _ a, b⟩
  | .cls _ _ _ _, _ => trivial
  | .tvar _ _, _ => trivial

mutual
theorem items_filterAN : ∀ (s : Stmt) (q : List String) (it : Item),
    it ∈ itemsL q (filterAN s) → ANrel (items q s) it
  | .funcDef n d ps r b, q, it, h => by
    simp only [filterAN] at h
    split at h
    · rename_i hr
      simp only [itemsL_single, items, List.mem_singleton] at h
      subst h
      exact ⟨r, by simp [items], by simp [hr]⟩
    · rename_i hr
      simp only [itemsL_single, items, List.mem_singleton] at h
      subst h
      exact ⟨r, by simp [items], by simp [hr]⟩
  | .classDef n d bs b, q, it, h => by
    simp only [filterAN, itemsL_single, items, List.mem_cons] at h
    rcases h with h | h
    · subst h; trivial
    · exact ANrel_mono (fun x hx => by simp [items, hx]) it (items_filterANs b _ it h)
  | .annAssign t a v, q, it, h => by
    simp only [filterAN] at h
    split at h
    · cases v with
      | none => simp [itemsL] at h
      | some v => simp [itemsL, items] at h
    · rename_i ha
      simp only [itemsL_single] at h
      simp only [items] at h ⊢
      split at h
      · simp only [List.mem_singleton] at h
        subst h
        exact ⟨by simp, by simpa using ha⟩
      · simp at h
  | .block hd b, q, it, h => by
    simp only [filterAN, itemsL_single, items] at h ⊢
    exact items_filterANs b _ it h
  | .assign ts v tv, q, it, h => by
    simp only [filterAN, itemsL_single] at h
    simp only [items] at h
    split at h
    · split at h
      · split at h
        · simp only [List.mem_singleton] at h; subst h; trivial
        · simp at h
      · simp at h
    · simp at h
  | .other t, q, it, h => by simp [filterAN, itemsL, items] at h
  | .importFrom m ns, q, it, h => by simp [filterAN, itemsL, items] at h
  | .importMod m, q, it, h => by simp [filterAN, itemsL, items] at h
theorem items_filterANs : ∀ (ss : List Stmt) (q : List String) (it : Item),
    it ∈ itemsL q (filterANs ss) → ANrel (itemsL q ss) it
  | [], q, it, h => by simp [filterANs, itemsL] at h
  | s :: ss, q, it, h => by
    simp only [filterANs, itemsL_append, List.mem_append] at h
    rcases h with h | h
    · exact ANrel_mono (fun x hx => by simp [itemsL, hx]) it (items_filterAN s q it h)
    · exact ANrel_mono (fun x hx => by simp [itemsL, hx]) it (items_filterANs ss q it h)
end

/-- what the prefiltered stub offers comes from the raw stub, and no offered return / variable
annotation is the bare `Any` / `Never` -/
theorem prefilter_var {pyi : List Stmt} {qn : String} {a : Ann}
    (h : Item.var qn a ∈ itemsL [] (prefilter pyi)) :
    Item.var qn a ∈ itemsL [] pyi ∧ isAnyNever a = false := by
  have h1 := items_filterTVs _ _ _ h trivial
  exact items_filterANs _ _ _ h1

theorem prefilter_func {pyi : List Stmt} {qn : String} {ps : List Param} {r : Option Ann}
    (h : Item.func qn ps r ∈ itemsL [] (prefilter pyi)) :
    ∃ r0, Item.func qn ps r0 ∈ itemsL [] pyi ∧ r = (if optAnyNever r0 then none else r0) := by
  have h1 := items_filterTVs _ _ _ h trivial
  exact items_filterANs _ _ _ h1

/-! ### `collect` -/

theorem lookupLast_mem {α β : Type} [DecidableEq α] : ∀ (l : List (α × β)) (k : α) (v : β),
    lookupLast l k = some v → (k, v) ∈ l := by
  intro l
  induction l with
  | nil => intro k v h; simp [lookupLast] at h
  | cons p rest ih =>
    intro k v h
    obtain ⟨k', v'⟩ := p
    simp only [lookupLast] at h
    split at h
    · rename_i r hr
      cases h
      exact List.mem_cons_of_mem _ (ih k _ hr)
    · split at h
      · rename_i hk
        cases h
        subst hk
        exact List.mem_cons_self
      · cases h

theorem mem_attrEntries (c : Ctx) : ∀ (its : List Item) (qn : String) (x : Ann),
    (qn, x) ∈ attrEntries c its → ∃ raw, Item.var qn raw ∈ its ∧ x = dequal c raw := by
  intro its
  induction its with
  | nil => intro qn x h; simp [attrEntries] at h
  | cons it its ih =>
    intro qn x h
    cases it with
    | var qn' a =>
      simp only [attrEntries, List.mem_cons, Prod.mk.injEq] at h
      rcases h with ⟨h1, h2⟩ | h
      · subst h1; subst h2; exact ⟨a, List.mem_cons_self, rfl⟩
      · obtain ⟨raw, hm, he⟩ := ih qn x h
        exact ⟨raw, List.mem_cons_of_mem _ hm, he⟩
    | func _ _ _ =>
      simp only [attrEntries] at h
      obtain ⟨raw, hm, he⟩ := ih qn x h
      exact ⟨raw, List.mem_cons_of_mem _ hm, he⟩
    | cls _ _ _ _ =>
      simp only [attrEntries] at h
      obtain ⟨raw, hm, he⟩ := ih qn x h
      exact ⟨raw, List.mem_cons_of_mem _ hm, he⟩
    | tvar _ _ =>
      simp only [attrEntries] at h
      obtain ⟨raw, hm, he⟩ := ih qn x h
      exact ⟨raw, List.mem_cons_of_mem _ hm, he⟩

theorem mem_funcEntries (c : Ctx) : ∀ (its : List Item) (k : FKey) (sps : List Param) (sr : Option Ann),
    (k, (sps, sr)) ∈ funcEntries c its →
    ∃ qn ps r, Item.func qn ps r ∈ its ∧ k = fkeyOf qn ps ∧ sps = ps.map (dequalParam c) ∧
      sr = r.map (dequal c) := by
  intro its
  induction its with
  | nil => intro k sps sr h; simp [funcEntries] at h
  | cons it its ih =>
    intro k sps sr h
    cases it with
    | func qn ps r =>
      simp only [funcEntries, List.mem_cons, Prod.mk.injEq] at h
      rcases h with ⟨h1, h2, h3⟩ | h
      · exact ⟨qn, ps, r, List.mem_cons_self, h1, h2, h3⟩
      · obtain ⟨qn', ps', r', hm, he⟩ := ih k sps sr h
        exact ⟨qn', ps', r', List.mem_cons_of_mem _ hm, he⟩
    | var _ _ =>
      simp only [funcEntries] at h
      obtain ⟨qn', ps', r', hm, he⟩ := ih k sps sr h
      exact ⟨qn', ps', r', List.mem_cons_of_mem _ hm, he⟩
    | cls _ _ _ _ =>
      simp only [funcEntries] at h
      obtain ⟨qn', ps', r', hm, he⟩ := ih k sps sr h
      exact ⟨qn', ps', r', List.mem_cons_of_mem _ hm, he⟩
    | tvar _ _ =>
      simp only [funcEntries] at h
      obtain ⟨qn', ps', r', hm, he⟩ := ih k sps sr h
      exact ⟨qn', ps', r', List.mem_cons_of_mem _ hm, he⟩

/-! ### presentation (`dequal`, `quote`) keeps the meaning -/

theorem normAnn_quote (g v : List String) (x : Ann) : normAnn (quote g v x) = normAnn x := by
  cases x with
  | name n => simp only [quote]; split <;> rfl
  | _ => rfl

theorem normT_dequal (c : Ctx) : ∀ (a : Ann), annOK c a = true → normT (dequal c a) = normT a
  | .name s, h => by
    cases hm : lookupFirst c.stubFrom s with
    | none => simp only [dequal, hm]
    | some m =>
      simp only [dequal, annOK, hm] at h ⊢
      by_cases hc : c.existing.contains m = true
      · simp only [hc, Bool.not_true, Bool.false_or, beq_iff_eq] at h
        subst h
        rw [if_pos hc]
        simp [normT]
      · simp only [hc]
        rfl
  | .dotted m s, h => by
    simp only [dequal, annOK] at h ⊢
    by_cases hc : c.existing.contains m = true
    · simp only [hc, if_true]
    · have hc' : c.existing.contains m = false := by simpa using hc
      simp only [hc', Bool.false_or, beq_iff_eq] at h
      subst h
      rw [if_neg hc]
      simp [normT]
  | .sub v sl, h => by
    simp only [dequal, annOK] at h ⊢
    split
    · rename_i ht
      simp [ht] at h
      simp [normT, normT_dequal c v h]
    · rename_i ht
      simp [ht] at h
      simp [normT, normT_dequal c v h.1, normT_dequal c sl h.2]
  | .tup a b, h => by
    simp only [annOK, Bool.and_eq_true] at h
    simp [dequal, normT, normT_dequal c a h.1, normT_dequal c b h.2]
  | .bor a b, h => by
    simp only [annOK, Bool.and_eq_true] at h
    simp [dequal, normT, normT_dequal c a h.1, normT_dequal c b h.2]
  | .lst a, h => by
    simp only [annOK] at h
    simp [dequal, normT, normT_dequal c a h]
  | .const s, _ => rfl
  | .str s, _ => rfl

theorem normAnn_dequal (c : Ctx) (a : Ann) (h : annOK c a = true) : normAnn (dequal c a) = normAnn a := by
  simp [normAnn, normT_dequal c a h]

/-- an annotation that is not bare / dotted `Any`, `Never` is not presented as bare `Any` / `Never` -/
theorem present_not_any (c : Ctx) (g v : List String) (a : Ann)
    (h1 : isAnyNever a = false) (h2 : isDottedAny a = false) :
    isAnyNever (quote g v (dequal c a)) = false := by
  cases a with
  | name s =>
    simp only [dequal]
    split
    · split
      · simp [quote, isAnyNever]
      · simp only [quote]; split
        · simp [isAnyNever]
        · exact h1
    · simp only [quote]; split
      · simp [isAnyNever]
      · exact h1
  | dotted m s =>
    simp only [dequal]
    split
    · simp [quote, isAnyNever]
    · simp only [quote]; split
      · simp [isAnyNever]
      · simpa [isAnyNever, isDottedAny] using h2
  | sub v sl => simp only [dequal]; split <;> simp [quote, isAnyNever]
  | tup a b => simp [dequal, quote, isAnyNever]
  | bor a b => simp [dequal, quote, isAnyNever]
  | lst a => simp [dequal, quote, isAnyNever]
  | const s => simp [dequal, quote, isAnyNever]
  | str s => simp [dequal, quote, isAnyNever]

end PytypeModel.Merge
