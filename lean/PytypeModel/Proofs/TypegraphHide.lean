import PytypeModel.Typegraph.Expl
import PytypeModel.Typegraph.Program

/-! Visibility of a single binding, declaratively: when a later binding of the same variable hides it, and why rebinding
(`AssignToNewVariable` + `PasteVariable` at the node) keeps it visible.  Used by `Props/C01.lean`. -/
namespace PytypeModel.Typegraph

theorem ClearPath.mono {g : Graph} {bl bl' : List NodeId} (h : ∀ x, x ∈ bl → x ∈ bl') {n m : NodeId}
    (p : ClearPath g bl' n m) : ClearPath g bl n m := by
  induction p with
  | here m => exact .here m
  | step hn hk _ ih => exact .step (fun hx => hn (h _ hx)) hk ih

theorem removal_nil {g : Graph} {n : NodeId} {seen R N R' N' : List BId}
    (h : Removal g n [] seen R N R' N') : R' = R ∧ N' = N := by
  cases h with
  | done => exact ⟨rfl, rfl⟩

/-- a goal that is not produced at `n` is visible from `n` iff an origin node of it is reached by a backward path on
which its variable is not re-bound, and it is visible there -/
theorem visible_away_iff (g : Graph) (b : BId) (n : NodeId) (hreg : (g.node n).bindings.contains b = false) :
    Expl g n [b] ↔ ∃ m, m ∈ finishNodes g [b] ∧ ClearPath g (blockedOf g [b]) n m ∧ Expl g m [b] := by
  have hmem : b ∉ (g.node n).bindings := by simpa using hreg
  have hh : hereGoals g n [b] = [] := by simp [hereGoals, hmem]
  have ha : awayGoals g n [b] = [b] := by simp [awayGoals, hmem]
  constructor
  · intro h
    cases h with
    | fin hr _ =>
      rw [hh, ha] at hr
      have := (removal_nil hr).2
      simp at this
    | move hr _ hne hm hp he =>
      rw [hh, ha] at hr
      obtain ⟨_, hN⟩ := removal_nil hr
      subst hN
      exact ⟨_, hm, hp, he⟩
  · rintro ⟨m, hm, hp, he⟩
    refine Expl.move (R := []) (N := [b]) ?_ ?_ (by simp) hm hp he
    · rw [hh, ha]; exact .done _ _ _
    · simp [NoConflict, goalsConflict]

/-- **A later binding hides the older ones.**  If the variable of `b` is bound at a node `k` (`k ∈ blockedOf g [b]`: any
other binding of the same variable has an origin there) and no backward path from `n` reaches an origin node of `b`
without passing through `k`, then `b` is not visible from `n` — in any graph, however it was built. -/
theorem later_binding_hides (g : Graph) (b : BId) (n k : NodeId) (hreg : (g.node n).bindings.contains b = false)
    (hk : k ∈ blockedOf g [b]) (hsep : ∀ m, m ∈ finishNodes g [b] → ¬ ClearPath g [k] n m) : ¬ Expl g n [b] := by
  intro h
  obtain ⟨m, hm, hp, _⟩ := (visible_away_iff g b n hreg).1 h
  exact hsep m hm (hp.mono (by intro x hx; simp at hx; subst hx; exact hk))

/-- **Rebinding keeps them visible.**  `param.PasteVariable(param.AssignToNewVariable(k), k)` gives every binding `b`
of the parameter an origin at `k` whose source set is `{b}` itself (the copy's only origin is at `k`, so `PasteBinding`
copies it verbatim): `b` is visible at `k`… -/
theorem rebound_visible_here (g : Graph) (b : BId) (k : NodeId) (ob : Origin)
    (hreg : (g.node k).bindings.contains b = true)
    (hb : g.findOrigin b k = some ob) (hbs : [b] ∈ ob.sourceSets) : Expl g k [b] := by
  have hmem : b ∈ (g.node k).bindings := by simpa using hreg
  have hh : hereGoals g k [b] = [b] := by simp [hereGoals, hmem]
  have ha : awayGoals g k [b] = [] := by simp [awayGoals, hmem]
  refine Expl.fin (R := sinsert b []) ?_ (by simp [NoConflict, goalsConflict, sinsert])
  rw [hh, ha]
  refine Removal.expand (o := ob) (ss := [b]) (by simp) hb hbs ?_
  have e1 : sunion [] [b] = [b] := by simp [sunion, sinsert]
  rw [e1]
  exact Removal.skip (by simp) (Removal.done _ _ _)

/-- … and from every later node that reaches `k` by a backward path on which the variable is not bound again. -/
theorem rebound_visible_later (g : Graph) (b : BId) (n k : NodeId) (hreg : (g.node n).bindings.contains b = false)
    (hk : k ∈ finishNodes g [b]) (hp : ClearPath g (blockedOf g [b]) n k) (hv : Expl g k [b]) : Expl g n [b] :=
  (visible_away_iff g b n hreg).2 ⟨k, hk, hp, hv⟩

theorem mem_ssInsert_self (addr : BId → Nat) (s : List BId) : ∀ (l : List (List BId)), s ∈ ssInsert addr s l
  | [] => by simp [ssInsert]
  | t :: ts => by
    unfold ssInsert
    split
    · simp
    · split
      · rename_i h; simp [h]
      · exact List.mem_cons_of_mem _ (mem_ssInsert_self addr s ts)

theorem ofList_single (b : BId) : ofList [b] = [b] := by simp [ofList, sunion, sinsert]

theorem find_map_node (l : List Origin) (k : NodeId) (f : Origin → Origin) (hf : ∀ o, (f o).node = o.node) :
    (l.map f).find? (fun o => o.node == k) = (l.find? (fun o => o.node == k)).map f := by
  induction l with
  | nil => rfl
  | cons o r ih =>
    simp only [List.map_cons, List.find?_cons, hf]
    cases h : (o.node == k) <;> simp [ih]

/-- `Binding::AddOrigin(k, {b})` on `b` itself: afterwards `b` has an origin at `k` one of whose source sets is `{b}`,
and it is registered at `k` -/
theorem addOriginSS_self (g : Graph) (hwf : g.WF) (b : BId) (k : NodeId) (hb : b < g.bindings.length)
    (hk : k < g.nodes.length) :
    ∃ ob, (g.addOriginSS b k [b]).findOrigin b k = some ob ∧ [b] ∈ ob.sourceSets ∧
      ((g.addOriginSS b k [b]).node k).bindings.contains b = true := by
  cases hfo : (g.binding b).origins.find? (fun o => o.node == k) with
  | some o =>
    have e : g.addOriginSS b k [b] = { g with bindings := g.bindings.set b { g.binding b with origins :=
        ((g.binding b).origins.map fun o' =>
          if o'.node == k then { o' with sourceSets := ssInsert g.addrOf [b] o'.sourceSets } else o') } } := by
      unfold Graph.addOriginSS
      rw [ofList_single]
      simp only [hfo]
    rw [e]
    have hon : (o.node == k) = true := by
      have := List.find?_some hfo
      simpa using this
    refine ⟨{ o with sourceSets := ssInsert g.addrOf [b] o.sourceSets }, ?_, mem_ssInsert_self _ _ _, ?_⟩
    · simp only [Graph.findOrigin, Graph.binding, List.getD_eq_getElem?_getD, List.getElem?_set_self hb,
        Option.getD_some]
      rw [find_map_node _ _ _ (by intro o'; split <;> rfl)]
      simp only [Graph.binding, List.getD_eq_getElem?_getD] at hfo
      rw [hfo]
      have hk' : o.node = k := by simpa using hon
      simp [hk']
    · have hreg := hwf.registered b k hb (by simp [Graph.findOrigin, hfo])
      simpa [Graph.node] using hreg
  | none =>
    have e : g.addOriginSS b k [b] = { g with
        bindings := g.bindings.set b { g.binding b with origins := (g.binding b).origins ++ [{ node := k, sourceSets := [[b]] }] },
        nodes := g.nodes.set k { g.node k with bindings := (g.node k).bindings ++ [b] } } := by
      unfold Graph.addOriginSS
      rw [ofList_single]
      simp only [hfo]
    rw [e]
    refine ⟨{ node := k, sourceSets := [[b]] }, ?_, by simp, ?_⟩
    · simp only [Graph.findOrigin, Graph.binding, List.getD_eq_getElem?_getD, List.getElem?_set_self hb,
        Option.getD_some, List.find?_append]
      simp only [Graph.binding, List.getD_eq_getElem?_getD] at hfo
      rw [hfo]
      simp
    · simp [Graph.node, List.getElem?_set_self hk]

/-- the operation itself: `Binding::AddOrigin(k, {b})` on `b` makes `b` visible at `k`, in every well-formed graph -/
theorem addOrigin_self_visible (g : Graph) (hwf : g.WF) (b : BId) (k : NodeId) (hb : b < g.bindings.length)
    (hk : k < g.nodes.length) : Expl (g.addOriginSS b k [b]) k [b] := by
  obtain ⟨ob, h1, h2, h3⟩ := addOriginSS_self g hwf b k hb hk
  exact rebound_visible_here _ b k ob h3 h1 h2

end PytypeModel.Typegraph
