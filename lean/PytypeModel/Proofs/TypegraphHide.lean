import PytypeModel.Typegraph.Expl
import PytypeModel.Typegraph.Program

/-! Visibility of a single binding, declaratively: when a later binding of the same variable hides it, and why rebinding
(`AssignToNewVariable` + `PasteVariable` at the node) keeps it visible.  Used by `Props/C01.lean`. -/
namespace PytypeModel.Typegraph

theorem ClearPath.mono {g : Graph} {bl bl' : List NodeId} (h : ∀ x, x ∈ bl → x ∈ bl') {n m : NodeId}
    (p : ClearPath g bl' n m) : ClearPath g bl n m := by
  induction p with
  | here m => exact .here m
  | step hn hk _ ih => exact .step (fun hx => hn (h _ hx)) hk ih

theorem removal_nil {g : Graph} {n : NodeId} {seen R N R' N' : List BId}
    (h : Removal g n [] seen R N R' N') : R' = R ∧ N' = N := by
  cases h with
  | done => exact ⟨rfl, rfl⟩

/-- a goal that is not produced at `n` is visible from `n` iff an origin node of it is reached by a backward path on
which its variable is not re-bound, and it is visible there -/
theorem visible_away_iff (g : Graph) (b : BId) (n : NodeId) (hreg : (g.node n).bindings.contains b = false) :
    Expl g n [b] ↔ ∃ m, m ∈ finishNodes g [b] ∧ ClearPath g (blockedOf g [b]) n m ∧ Expl g m [b] := by
  have hmem : b ∉ (g.node n).bindings := by simpa using hreg
  have hh : hereGoals g n [b] = [] := by simp [hereGoals, hmem]
  have ha : awayGoals g n [b] = [b] := by simp [awayGoals, hmem]
  constructor
  · intro h
    cases h with
    | fin hr _ =>
      rw [hh, ha] at hr
      have := (removal_nil hr).2
      simp at this
    | move hr _ hne hm hp he =>
      rw [hh, ha] at hr
      obtain ⟨_, hN⟩ := removal_nil hr
      subst hN
      exact ⟨_, hm, hp, he⟩
  · rintro ⟨m, hm, hp, he⟩
    refine Expl.move (R := []) (N := [b]) ?_ ?_ (by simp) hm hp he
    · rw [hh, ha]; exact .done _ _ _
    · simp [NoConflict, goalsConflict]

/-- **A later binding hides the older ones.**  If the variable of `b` is bound at a node `k` (`k ∈ blockedOf g [b]`: any
other binding of the same variable has an origin there) and no backward path from `n` reaches an origin node of `b`
without passing through `k`, then `b` is not visible from `n` — in any graph, however it was built. -/
theorem later_binding_hides (g : Graph) (b : BId) (n k : NodeId) (hreg : (g.node n).bindings.contains b = false)
    (hk : k ∈ blockedOf g [b]) (hsep : ∀ m, m ∈ finishNodes g [b] → ¬ ClearPath g [k] n m) : ¬ Expl g n [b] := by
  intro h
  obtain ⟨m, hm, hp, _⟩ := (visible_away_iff g b n hreg).1 h
  exact hsep m hm (hp.mono (by intro x hx; simp at hx; subst hx; exact hk))

/-- **Rebinding keeps them visible.**  `param.PasteVariable(param.AssignToNewVariable(k), k)` gives every binding `b`
of the parameter an origin at `k` whose source set is `{b}` itself (the copy's only origin is at `k`, so `PasteBinding`
copies it verbatim): `b` is visible at `k`… -/
theorem rebound_visible_here (g : Graph) (b : BId) (k : NodeId) (ob : Origin)
    (hreg : (g.node k).bindings.contains b = true)
    (hb : g.findOrigin b k = some ob) (hbs : [b] ∈ ob.sourceSets) : Expl g k [b] := by
  have hmem : b ∈ (g.node k).bindings := by simpa using hreg
  have hh : hereGoals g k [b] = [b] := by simp [hereGoals, hmem]
  have ha : awayGoals g k [b] = [] := by simp [awayGoals, hmem]
  refine Expl.fin (R := sinsert b []) ?_ (by simp [NoConflict, goalsConflict, sinsert])
  rw [hh, ha]
  refine Removal.expand (o := ob) (ss := [b]) (by simp) hb hbs ?_
  have e1 : sunion [] [b] = [b] := by simp [sunion, sinsert]
  rw [e1]
  exact Removal.skip (by simp) (Removal.done _ _ _)

/-- … and from every later node that reaches `k` by a backward path on which the variable is not bound again. -/
theorem rebound_visible_later (g : Graph) (b : BId) (n k : NodeId) (hreg : (g.node n).bindings.contains b = false)
    (hk : k ∈ finishNodes g [b]) (hp : ClearPath g (blockedOf g [b]) n k) (hv : Expl g k [b]) : Expl g n [b] :=
  (visible_away_iff g b n hreg).2 ⟨k, hk, hp, hv⟩

end PytypeModel.Typegraph
