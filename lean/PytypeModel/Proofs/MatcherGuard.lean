import PytypeModel.Proofs.MatcherViews

/-! Monotonicity of `Guard` along the steps the matcher takes (to a nested value / nested annotation). -/
namespace PytypeModel.Sem

theorem Val.allSubL_iff (p : Val → Bool) (xs : List Val) :
    Val.allSubL p xs = true ↔ ∀ x, x ∈ xs → Val.allSub p x = true := by
  induction xs with
  | nil => simp [Val.allSubL]
  | cons x xs ih => simp [Val.allSubL, ih]

theorem Ann.allSubL_iff (p : Ann → Bool) (as : List Ann) :
    Ann.allSubL p as = true ↔ ∀ a, a ∈ as → Ann.allSub p a = true := by
  induction as with
  | nil => simp [Ann.allSubL]
  | cons a as ih => simp [Ann.allSubL, ih]

/-- `v'` is `v` itself or nested in `v` -/
def ValStep (v v' : Val) : Prop := ∀ p, Val.allSub p v = true → Val.allSub p v' = true
/-- `a'` is `a` itself or nested in `a` -/
def AnnStep (a a' : Ann) : Prop := ∀ p, Ann.allSub p a = true → Ann.allSub p a' = true

theorem Guard.step {v v' : Val} {a a' : Ann} (hv : ValStep v v') (ha : AnnStep a a')
    (h : Guard v a = true) : Guard v' a' = true := by
  simp only [Guard, Bool.and_eq_true, Bool.or_eq_true] at h ⊢
  obtain ⟨⟨⟨h1, h2⟩, h3⟩, h4⟩ := h
  refine ⟨⟨⟨?_, ?_⟩, ?_⟩, ?_⟩
  · exact h1.imp (hv _) (ha _)
  · exact h2.imp (hv _) (ha _)
  · exact ha _ h3
  · exact h4.imp (hv _) (ha _)

theorem ValStep.refl (v : Val) : ValStep v v := fun _ h => h
theorem ValStep.list {xs : List Val} {x : Val} (hx : x ∈ xs) : ValStep (.list xs) x :=
  fun p h => by
    simp only [Val.allSub, Bool.and_eq_true] at h
    exact (Val.allSubL_iff p xs).1 h.2 x hx
theorem ValStep.tuple {xs : List Val} {x : Val} (hx : x ∈ xs) : ValStep (.tuple xs) x :=
  fun p h => by
    simp only [Val.allSub, Bool.and_eq_true] at h
    exact (Val.allSubL_iff p xs).1 h.2 x hx
theorem ValStep.set {xs : List Val} {x : Val} (hx : x ∈ xs) : ValStep (.set xs) x :=
  fun p h => by
    simp only [Val.allSub, Bool.and_eq_true] at h
    exact (Val.allSubL_iff p xs).1 h.2 x hx
theorem ValStep.fset {xs : List Val} {x : Val} (hx : x ∈ xs) : ValStep (.fset xs) x :=
  fun p h => by
    simp only [Val.allSub, Bool.and_eq_true] at h
    exact (Val.allSubL_iff p xs).1 h.2 x hx
theorem ValStep.dictKey {ks vs : List Val} {x : Val} (hx : x ∈ ks) : ValStep (.dict ks vs) x :=
  fun p h => by
    simp only [Val.allSub, Bool.and_eq_true] at h
    exact (Val.allSubL_iff p ks).1 h.1.2 x hx
theorem ValStep.dictVal {ks vs : List Val} {x : Val} (hx : x ∈ vs) : ValStep (.dict ks vs) x :=
  fun p h => by
    simp only [Val.allSub, Bool.and_eq_true] at h
    exact (Val.allSubL_iff p vs).1 h.2 x hx

theorem AnnStep.refl (a : Ann) : AnnStep a a := fun _ h => h
theorem AnnStep.opt (a : Ann) : AnnStep (.opt a) a := fun p h => by
  simp only [Ann.allSub, Bool.and_eq_true] at h; exact h.2
theorem AnnStep.union {as : List Ann} {a : Ann} (ha : a ∈ as) : AnnStep (.union as) a := fun p h => by
  simp only [Ann.allSub, Bool.and_eq_true] at h; exact (Ann.allSubL_iff p as).1 h.2 a ha
theorem AnnStep.tup {as : List Ann} {a : Ann} (ha : a ∈ as) : AnnStep (.tup as) a := fun p h => by
  simp only [Ann.allSub, Bool.and_eq_true] at h; exact (Ann.allSubL_iff p as).1 h.2 a ha
theorem AnnStep.gen1 (g : G1) (a : Ann) : AnnStep (.gen1 g a) a := fun p h => by
  simp only [Ann.allSub, Bool.and_eq_true] at h; exact h.2
theorem AnnStep.gen2k (g : G2) (k v : Ann) : AnnStep (.gen2 g k v) k := fun p h => by
  simp only [Ann.allSub, Bool.and_eq_true] at h; exact h.1.2
theorem AnnStep.gen2v (g : G2) (k v : Ann) : AnnStep (.gen2 g k v) v := fun p h => by
  simp only [Ann.allSub, Bool.and_eq_true] at h; exact h.2

theorem Guard.notColl {v : Val} {a : Ann} (h : Guard v a = true) : Ann.allSub Ann.notColl a = true := by
  simp only [Guard, Bool.and_eq_true] at h; exact h.1.2

theorem Guard.int (n : Int) {a : Ann} (h : Ann.allSub Ann.notColl a = true) : Guard (.int n) a = true := by
  simp [Guard, Val.allSub, Val.notStr, Val.notNone, Val.smallDisplay, h]

end PytypeModel.Sem
