import PytypeModel.Sem.Matcher

/-! Lemmas about `views` (the model of `deep_variable_product`) and about `abs`: every value has a view,
membership in the views of a variable / of a tuple, and the shape of the views of `abs v`. -/
namespace PytypeModel.Sem

theorem absL_eq_map (xs : List Val) : absL xs = xs.map abs := by
  induction xs with
  | nil => simp [absL]
  | cons x xs ih => simp [absL, ih]

theorem mem_consAll {xs : List VTy} {rest : List (List VTy)} {l : List VTy} :
    l ∈ consAll xs rest ↔ ∃ x r, x ∈ xs ∧ r ∈ rest ∧ l = x :: r := by
  unfold consAll
  simp only [List.mem_flatMap, List.mem_map]
  constructor
  · rintro ⟨x, hx, r, hr, rfl⟩; exact ⟨x, r, hx, hr, rfl⟩
  · rintro ⟨x, r, hx, hr, rfl⟩; exact ⟨x, hx, r, hr, rfl⟩

theorem mem_viewsRest {ps : List ATy} {w : VTy} : w ∈ viewsRest ps ↔ ∃ p, p ∈ ps ∧ w ∈ views p := by
  induction ps with
  | nil => simp [viewsRest]
  | cons p ps ih =>
    simp only [viewsRest, List.mem_append, ih, List.mem_cons]
    constructor
    · rintro (h | ⟨q, hq, hw⟩)
      · exact ⟨p, Or.inl rfl, h⟩
      · exact ⟨q, Or.inr hq, hw⟩
    · rintro ⟨q, (rfl | hq), hw⟩
      · exact Or.inl hw
      · exact Or.inr ⟨q, hq, hw⟩

theorem mem_viewsVar {ps : List ATy} {w : VTy} :
    w ∈ viewsVar ps ↔ (ps = [] ∧ w = .nothing) ∨ ∃ p, p ∈ ps ∧ w ∈ views p := by
  cases ps with
  | nil => simp [viewsVar]
  | cons p ps =>
    have h := @mem_viewsRest (p :: ps) w
    simp only [viewsRest] at h
    simp only [viewsVar, h]
    simp

/-- a quantifier over the views of a variable: over all views of all bindings (and `nothing` when there is none) -/
theorem forall_viewsVar {ps : List ATy} {f : VTy → Prop} (hn : f .nothing) :
    (∀ w, w ∈ viewsVar ps → f w) ↔ ∀ p, p ∈ ps → ∀ w, w ∈ views p → f w := by
  constructor
  · intro h p hp w hw
    exact h w (mem_viewsVar.2 (Or.inr ⟨p, hp, hw⟩))
  · intro h w hw
    rcases mem_viewsVar.1 hw with ⟨_, rfl⟩ | ⟨p, hp, hw⟩
    · exact hn
    · exact h p hp w hw

mutual
theorem views_ne_nil : ∀ t : ATy, views t ≠ []
  | .scal _ | .inst _ | .clsobj _ | .bclsobj _ | .func => by simp [views]
  | .cont c ps => by
    simp only [views, ne_eq, List.map_eq_nil_iff]
    exact viewsVar_ne_nil ps
  | .dict ks vs => by
    have hk := viewsVar_ne_nil ks
    have hv := viewsVar_ne_nil vs
    obtain ⟨k, hk⟩ := List.exists_mem_of_ne_nil _ hk
    obtain ⟨v, hv⟩ := List.exists_mem_of_ne_nil _ hv
    intro h
    have : VTy.dict k v ∈ views (.dict ks vs) := by
      simp only [views, List.mem_flatMap, List.mem_map]
      exact ⟨k, hk, v, hv, rfl⟩
    rw [h] at this
    simp at this
  | .tuple es => by
    simp only [views, ne_eq, List.map_eq_nil_iff]
    exact viewsProd_ne_nil es
theorem viewsVar_ne_nil : ∀ ps : List ATy, viewsVar ps ≠ []
  | [] => by simp [viewsVar]
  | p :: ps => by
    simp only [viewsVar, ne_eq, List.append_eq_nil_iff, not_and]
    intro h
    exact absurd h (views_ne_nil p)
theorem viewsProd_ne_nil : ∀ es : List ATy, viewsProd es ≠ []
  | [] => by simp [viewsProd]
  | e :: es => by
    obtain ⟨w, hw⟩ := List.exists_mem_of_ne_nil _ (views_ne_nil e)
    obtain ⟨r, hr⟩ := List.exists_mem_of_ne_nil _ (viewsProd_ne_nil es)
    intro h
    have : (w :: r) ∈ viewsProd (e :: es) := by
      simp only [viewsProd]
      exact mem_consAll.2 ⟨w, r, hw, hr, rfl⟩
    rw [h] at this
    simp at this
end

theorem exists_view (t : ATy) : ∃ w, w ∈ views t := List.exists_mem_of_ne_nil _ (views_ne_nil t)
theorem exists_viewsVar (ps : List ATy) : ∃ w, w ∈ viewsVar ps := List.exists_mem_of_ne_nil _ (viewsVar_ne_nil ps)
theorem exists_viewsProd (es : List ATy) : ∃ w, w ∈ viewsProd es := List.exists_mem_of_ne_nil _ (viewsProd_ne_nil es)

/-- all elements of every view of a tuple satisfy `f` iff all views of all elements do -/
theorem forall_viewsProd_all {es : List ATy} {f : VTy → Prop} :
    (∀ ws, ws ∈ viewsProd es → ∀ w, w ∈ ws → f w) ↔ ∀ e, e ∈ es → ∀ w, w ∈ views e → f w := by
  induction es with
  | nil => simp [viewsProd]
  | cons e es ih =>
    simp only [viewsProd]
    constructor
    · intro h e' he' w hw
      rcases List.mem_cons.1 he' with rfl | he'
      · obtain ⟨r, hr⟩ := exists_viewsProd es
        exact h (w :: r) (mem_consAll.2 ⟨w, r, hw, hr, rfl⟩) w (List.mem_cons_self ..)
      · obtain ⟨w0, hw0⟩ := exists_view e
        refine ih.1 ?_ e' he' w hw
        intro r hr x hx
        exact h (w0 :: r) (mem_consAll.2 ⟨w0, r, hw0, hr, rfl⟩) x (List.mem_cons_of_mem _ hx)
    · intro h ws hws w hw
      obtain ⟨x, r, hx, hr, rfl⟩ := mem_consAll.1 hws
      rcases List.mem_cons.1 hw with rfl | hw
      · exact h e (List.mem_cons_self ..) _ hx
      · exact ih.2 (fun e' he' => h e' (List.mem_cons_of_mem _ he')) r hr w hw

/-- position-wise predicate on the views of a tuple -/
theorem forall_viewsProd_cons {e : ATy} {es : List ATy} {f : VTy → Prop} {g : List VTy → Prop} :
    (∀ ws, ws ∈ viewsProd (e :: es) → ∃ w r, ws = w :: r ∧ f w ∧ g r) ↔
      (∀ w, w ∈ views e → f w) ∧ (∀ r, r ∈ viewsProd es → g r) := by
  simp only [viewsProd]
  constructor
  · intro h
    constructor
    · intro w hw
      obtain ⟨r, hr⟩ := exists_viewsProd es
      obtain ⟨w', r', heq, hf, _⟩ := h (w :: r) (mem_consAll.2 ⟨w, r, hw, hr, rfl⟩)
      cases heq
      exact hf
    · intro r hr
      obtain ⟨w, hw⟩ := exists_view e
      obtain ⟨w', r', heq, _, hg⟩ := h (w :: r) (mem_consAll.2 ⟨w, r, hw, hr, rfl⟩)
      cases heq
      exact hg
  · rintro ⟨hf, hg⟩ ws hws
    obtain ⟨x, r, hx, hr, rfl⟩ := mem_consAll.1 hws
    exact ⟨x, r, rfl, hf x hx, hg r hr⟩

theorem length_of_mem_viewsProd {es : List ATy} {ws : List VTy} (h : ws ∈ viewsProd es) :
    ws.length = es.length := by
  induction es generalizing ws with
  | nil => simp [viewsProd] at h; simp [h]
  | cons e es ih =>
    simp only [viewsProd] at h
    obtain ⟨x, r, _, hr, rfl⟩ := mem_consAll.1 h
    simp [ih hr]

end PytypeModel.Sem
