/-!
# Model of `pytype/tools/merge_pyi/merge_pyi.py` (C20)

`merge_sources(py, pyi)` =
  parse both → `RemoveAnyNeverTransformer` → `RemoveTrivialTypesTransformer` (on the stub)
  → libcst `ApplyTypeAnnotationsVisitor(overwrite_existing_annotations=False,
     strict_posargs_matching=False, strict_annotation_matching=True)`.

pytype's own part (the two pre-filters and the glue) is modelled statement by statement.  libcst
(third party, version 1.4.0) is *modelled, not verified*: `TypeCollector`, `_TypeCollectorDequalifier`,
`AddImportsVisitor` (only the set of added names) and the applier, including the behaviours that
break the property (class injection, `Generic[...]` base injection, wrong-scope declarations for
multi-target assignments, the qualifier leak of `_annotate_single_target`, foreign `from A import B`
for dotted stub names, the `cst.Name("C.x")` crash).  Core Lean only.

Fragment (what the harness generates / admits): imports of the program are `import m` and
`from m import a, b` (unaliased; the `from` imports in the leading import block); the stub's
imports are unaliased `from m import …`/`import m` at module level; a stub name is bound at most once
(no name both imported and defined); stub `AnnAssign` targets are names.
-/
namespace PytypeModel.Merge

abbrev Tok := String

/-- Annotation expressions (binary trees; tuples are right-nested). -/
inductive Ann where
  | name (s : String)                -- `s`
  | dotted (mod s : String)          -- `mod.s`  (mod may itself be dotted)
  | sub (v sl : Ann)                 -- `v[sl]`
  | tup (a b : Ann)                  -- `a, b`
  | bor (a b : Ann)                  -- `a | b`
  | lst (a : Ann)                    -- `[a]`
  | const (s : String)               -- `None`, `...`, numbers, anything else (opaque text)
  | str (s : String)                 -- string literal with content `s`
  deriving DecidableEq, Repr, Inhabited

inductive PKind where
  | posonly | pos | star | kwonly | starstar
  deriving DecidableEq, Repr, Inhabited

/-- a bare `*` marker is `kind = star`, `name = ""` (libcst: `ParamStar`, which is "non-sentinel") -/
structure Param where
  name : String
  ann : Option Ann
  dflt : Option Tok
  kind : PKind
  deriving DecidableEq, Repr, Inhabited

inductive Target where
  | name (s : String)
  | dotted (s : String)                   -- attribute chain `a.b.c` (full dotted name)
  | tuple (elts : List (Option String))   -- tuple/list target; full names of the elements that have one
  | opaque (t : Tok)                      -- subscript etc.
  deriving DecidableEq, Repr, Inhabited

inductive Stmt where
  | funcDef (name : String) (decos : List Tok) (params : List Param) (returns : Option Ann)
      (body : List Stmt)
  | classDef (name : String) (decos : List Tok) (bases : List Ann) (body : List Stmt)
  | annAssign (target : Target) (ann : Ann) (value : Option Tok)
  /-- `tv`: the value contains a call `TypeVar(...)` -/
  | assign (targets : List Target) (value : Tok) (tv : Bool)
  | other (tok : Tok)
  /-- `if/for/while/with/try` at module or class level: same scope, statements are visited -/
  | block (hdr : Tok) (body : List Stmt)
  | importFrom (mod : String) (names : List String)
  | importMod (mod : String)
  deriving Repr, Inhabited

/-! ## pytype's pre-filters -/

/-- `RemoveAnyNeverTransformer._is_any_or_never` (on the expression, after fix 9f850ba) -/
def isAnyNever : Ann → Bool
  | .name s => s == "Any" || s == "Never"
  | _ => false

/-- `RemoveTrivialTypesTransformer._is_trivial_type` -/
def isTrivial : Ann → Bool
  | .name s => s == "int" || s == "str" || s == "float" || s == "bool" || s == "complex"
  | .sub (.name s) _ => s == "Literal"
  | _ => false

def optAnyNever : Option Ann → Bool
  | some a => isAnyNever a
  | none => false

mutual
/-- `RemoveAnyNeverTransformer`: `leave_FunctionDef` returns `updated_node.with_changes(returns=None)`
when the return annotation is bare `Any`/`Never`, otherwise **`original_node`** (changes made inside
the function are dropped); `leave_AnnAssign` removes a bare declaration, turns `x: Any = v` into
`x = v`. -/
def filterAN : Stmt → List Stmt
  | .funcDef n d ps r b =>
      if optAnyNever r then [.funcDef n d ps none (filterANs b)] else [.funcDef n d ps r b]
  | .classDef n d bs b => [.classDef n d bs (filterANs b)]
  | .annAssign t a v =>
      if isAnyNever a then
        match v with
        | none => []
        | some v => [.assign [t] v false]
      else [.annAssign t a v]
  | .block h b => [.block h (filterANs b)]
  | s => [s]
def filterANs : List Stmt → List Stmt
  | [] => []
  | s :: ss => filterAN s ++ filterANs ss
end

mutual
/-- `RemoveTrivialTypesTransformer`: a declaration *without value* whose annotation is one of
`int str float bool complex` or `Literal[...]` is removed. -/
def filterTV : Stmt → List Stmt
  | .funcDef n d ps r b => [.funcDef n d ps r (filterTVs b)]
  | .classDef n d bs b => [.classDef n d bs (filterTVs b)]
  | .annAssign t a v =>
      match v with
      | none => if isTrivial a then [] else [.annAssign t a none]
      | some v => [.annAssign t a (some v)]
  | .block h b => [.block h (filterTVs b)]
  | s => [s]
def filterTVs : List Stmt → List Stmt
  | [] => []
  | s :: ss => filterTV s ++ filterTVs ss
end

/-- the stub as handed to libcst -/
def prefilter (pyi : List Stmt) : List Stmt := filterTVs (filterANs pyi)

/-! ## small helpers -/

def joinQ (q : List String) : String := ".".intercalate q

def Target.fullName : Target → Option String
  | .name s => some s
  | .dotted s => some s
  | _ => none

def lookupLast {α β : Type} [DecidableEq α] : List (α × β) → α → Option β
  | [], _ => none
  | (k', v) :: rest, k =>
    match lookupLast rest k with
    | some r => some r
    | none => if k' = k then some v else none

def lookupFirst {α β : Type} [DecidableEq α] : List (α × β) → α → Option β
  | [], _ => none
  | (k', v) :: rest, k => if k' = k then some v else lookupFirst rest k

/-- Python dict assignment: keeps the position of an existing key -/
def dictSet {β : Type} : List (String × β) → String → β → List (String × β)
  | [], k, v => [(k, v)]
  | (k', v') :: rest, k, v => if k' = k then (k, v) :: rest else (k', v') :: dictSet rest k v

def insertSorted (s : String) : List String → List String
  | [] => [s]
  | x :: xs => if s < x then s :: x :: xs else x :: insertSorted s xs

def sortStrings (l : List String) : List String := l.foldr insertSorted []

def dedup {α : Type} [DecidableEq α] : List α → List α
  | [] => []
  | x :: xs => if xs.contains x then dedup xs else x :: dedup xs

/-! ## what the stub provides (libcst `TypeCollector`) -/

/-- `FunctionKey.make` -/
structure FKey where
  name : String
  pos : Nat
  kwonly : List String
  posonly : Nat
  star : Bool
  starstar : Bool
  deriving DecidableEq, Repr, Inhabited

def paramsOf (k : PKind) (ps : List Param) : List Param := ps.filter (fun p => p.kind = k)

def fkeyOf (qname : String) (ps : List Param) : FKey :=
  { name := qname
    pos := (paramsOf .pos ps).length
    kwonly := sortStrings ((paramsOf .kwonly ps).map (·.name))
    posonly := (paramsOf .posonly ps).length
    star := !(paramsOf .star ps).isEmpty
    starstar := !(paramsOf .starstar ps).isEmpty }

/-- one definition of the stub, with its qualified name (path of class names, joined by `.`) -/
inductive Item where
  | func (qn : String) (params : List Param) (returns : Option Ann)
  | var (qn : String) (ann : Ann)
  | cls (name : String) (decos : List Tok) (bases : List Ann) (body : List Stmt)
  | tvar (name : String) (stmt : Stmt)
  deriving Repr, Inhabited

mutual
/-- The definitions `TypeCollector` sees, in visiting order: function bodies are not entered
(`visit_FunctionDef` returns `False`), class bodies extend the qualifier, blocks do not. -/
def items (q : List String) : Stmt → List Item
  | .funcDef n _ ps r _ => [.func (joinQ (q ++ [n])) ps r]
  | .classDef n d bs b => .cls n d bs b :: itemsL (q ++ [n]) b
  | .annAssign t a _ =>
      match t.fullName with
      | some s => [.var (joinQ (q ++ [s])) a]
      | none => []
  | .assign ts v tv =>
      if tv then
        match ts.head? with
        | some t =>
          match t.fullName with
          | some s => [.tvar s (.assign ts v tv)]
          | none => []
        | none => []
      else []
  | .block _ b => itemsL q b
  | _ => []
def itemsL (q : List String) : List Stmt → List Item
  | [] => []
  | s :: ss => items q s ++ itemsL q ss
end

/-- import context: `existing` = local names bound by the program's imports (anywhere);
`stubFrom` = `name ↦ module` for the stub's `from module import name`. -/
structure Ctx where
  existing : List String
  stubFrom : List (String × String)
  deriving Repr, Inhabited

def isTypeHead : Ann → Bool
  | .name s => s == "Type"
  | .dotted m s => m == "typing" && s == "Type"
  | _ => false

/-- `_TypeCollectorDequalifier`: an imported name stays as it is and its `from` import is requested,
unless the program imports the *module* (then the name is written qualified); a dotted name `m.s`
is shortened to `s` and `from m import s` requested, unless the program imports `m`.  Nothing inside
`Type[...]` is touched. -/
def dequal (c : Ctx) : Ann → Ann
  | .name s =>
    match lookupFirst c.stubFrom s with
    | some m => if c.existing.contains m then .dotted m s else .name s
    | none => .name s
  | .dotted m s => if c.existing.contains m then .dotted m s else .name s
  | .sub v sl => if isTypeHead v then .sub (dequal c v) sl else .sub (dequal c v) (dequal c sl)
  | .tup a b => .tup (dequal c a) (dequal c b)
  | .bor a b => .bor (dequal c a) (dequal c b)
  | .lst a => .lst (dequal c a)
  | .const s => .const s
  | .str s => .str s

/-- imports requested while dequalifying (`AddImportsVisitor.add_needed_import(module, name)`) -/
def neededOf (c : Ctx) : Ann → List (String × String)
  | .name s =>
    match lookupFirst c.stubFrom s with
    | some m => if c.existing.contains m then [] else [(m, s)]
    | none => []
  | .dotted m s => if c.existing.contains m then [] else [(m, s)]
  | .sub v sl => if isTypeHead v then neededOf c v else neededOf c v ++ neededOf c sl
  | .tup a b => neededOf c a ++ neededOf c b
  | .bor a b => neededOf c a ++ neededOf c b
  | .lst a => neededOf c a
  | .const _ => []
  | .str _ => []

/-- `annotations.names` restricted to what can equal a TypeVar name: the names that are not
imported.  (`leave_Index` adds string contents *with their opening quote* — `_get_string_value`
slices from the quote — so those never match and are omitted.) -/
def namesOf (c : Ctx) : Ann → List String
  | .name s =>
    match lookupFirst c.stubFrom s with
    | some _ => []
    | none => [s]
  | .dotted _ _ => []
  | .sub v sl => if isTypeHead v then namesOf c v else namesOf c v ++ namesOf c sl
  | .tup a b => namesOf c a ++ namesOf c b
  | .bor a b => namesOf c a ++ namesOf c b
  | .lst a => namesOf c a
  | .const _ => []
  | .str _ => []

/-- only `parameters.params` (plain positional-or-keyword parameters) are dequalified by
`_handle_Parameters`; keyword-only, positional-only and star parameters keep the stub's text -/
def dequalParam (c : Ctx) (p : Param) : Param :=
  if p.kind = .pos then { p with ann := p.ann.map (dequal c) } else p

def isBaseExpr : Ann → Bool
  | .name _ => true
  | .dotted _ _ => true
  | .sub _ _ => true
  | _ => false

/-- the annotation expressions of an item that pass through the dequalifier -/
def Item.dequalified : Item → List Ann
  | .func _ ps r => (ps.filter (fun p => p.kind = .pos)).filterMap (·.ann) ++ r.toList
  | .var _ a => [a]
  | .cls _ _ bs _ => bs.filter isBaseExpr
  | .tvar _ _ => []

structure Annots where
  /-- stub order; a later definition with the same key replaces an earlier one (`lookupLast`) -/
  funcs : List (FKey × (List Param × Option Ann))
  attrs : List (String × Ann)
  /-- keyed by the *simple* class name (dict order) -/
  classes : List (String × (List Tok × List Ann × List Stmt))
  /-- TypeVar assignments whose name is used in a dequalified annotation (dict order) -/
  typevars : List (String × Stmt)
  needed : List (String × String)
  deriving Repr, Inhabited

def funcEntries (c : Ctx) : List Item → List (FKey × (List Param × Option Ann))
  | [] => []
  | .func qn ps r :: is => (fkeyOf qn ps, (ps.map (dequalParam c), r.map (dequal c))) :: funcEntries c is
  | _ :: is => funcEntries c is

def attrEntries (c : Ctx) : List Item → List (String × Ann)
  | [] => []
  | .var qn a :: is => (qn, dequal c a) :: attrEntries c is
  | _ :: is => attrEntries c is

def classEntries (c : Ctx) : List Item → List (String × (List Tok × List Ann × List Stmt))
  | [] => []
  | .cls n d bs b :: is =>
      (n, (d, bs.map (fun a => if isBaseExpr a then dequal c a else a), b)) :: classEntries c is
  | _ :: is => classEntries c is

def tvarEntries : List Item → List (String × Stmt)
  | [] => []
  | .tvar n s :: is => (n, s) :: tvarEntries is
  | _ :: is => tvarEntries is

def toDict {β : Type} (l : List (String × β)) : List (String × β) :=
  l.foldl (fun acc p => dictSet acc p.1 p.2) []

def collect (c : Ctx) (stub : List Stmt) : Annots :=
  let its := itemsL [] stub
  let exprs := its.flatMap Item.dequalified
  let names := exprs.flatMap (namesOf c)
  let tvs := tvarEntries its
  { funcs := funcEntries c its
    attrs := attrEntries c its
    classes := toDict (classEntries c its)
    typevars := (toDict tvs).filter (fun p => names.contains p.1)
    needed := exprs.flatMap (neededOf c) ++
      (if tvs.isEmpty || c.existing.contains "typing" then [] else [("typing", "TypeVar")]) }

/-! ## the applier (libcst `ApplyTypeAnnotationsVisitor`) -/

structure Env where
  A : Annots
  /-- `GatherGlobalNamesVisitor`: module-level assigned names and classes -/
  globals : List String
  deriving Repr, Inhabited

structure St where
  qual : List String := []
  already : List String := []
  visited : List String := []
  top : List (String × Ann) := []
  srcTv : List String := []
  count : Nat := 0
  /-- ghost: `_annotate_single_target` left a name on the qualifier stack -/
  leaked : Bool := false
  /-- ghost: a declaration for the module top was recorded while inside a class (or a leak) -/
  scopeTop : Bool := false
  /-- ghost: a `Generic[...]` base was copied into a class of the program -/
  genericAdded : Bool := false
  deriving Repr, Inhabited

/-- `_quote_future_annotations` -/
def quote (globals visited : List String) : Ann → Ann
  | .name n => if globals.contains n && !visited.contains n then .str n else .name n
  | a => a

/-- `compatible` with `strict_annotation_matching=True`, no overwrite -/
def compatible : Option Ann → Option Ann → Bool
  | some a, some b => a == b
  | _, _ => true

def allCompat : List Param → List Param → Bool
  | [], [] => true
  | p :: ps, q :: qs => compatible p.ann q.ann && allCompat ps qs
  | _, _ => false

def findParam (name : String) : List Param → Option Param
  | [] => none
  | p :: ps => if p.name = name then some p else findParam name ps

def kwCompat (stubKw : List Param) : List Param → Bool
  | [] => true
  | p :: ps =>
    (match findParam p.name stubKw with
     | some q => compatible p.ann q.ann
     | none => false) && kwCompat stubKw ps

/-- `_match_signatures` (the key already fixes counts, keyword-only names and star kinds) -/
def matchSig (ps : List Param) (r : Option Ann) (sps : List Param) (sr : Option Ann) : Bool :=
  allCompat (paramsOf .pos ps) (paramsOf .pos sps) &&
  allCompat (paramsOf .posonly ps) (paramsOf .posonly sps) &&
  kwCompat (paramsOf .kwonly sps) (paramsOf .kwonly ps) &&
  compatible r sr

def annotate (qf : Ann → Ann) (p : Param) (sa : Option Ann) : Param :=
  match p.ann, sa with
  | none, some a => { p with ann := some (qf a) }
  | _, _ => p

/-- `_update_parameters`: positional(-only) parameters by **index**, keyword-only by name; star
parameters are never annotated. -/
def updParams (qf : Ann → Ann) (sKw : List Param) : List Param → List Param → List Param → List Param
  | _, _, [] => []
  | sPos, sPo, p :: ps =>
    match p.kind with
    | .pos =>
      match sPos with
      | sp :: sPos' => annotate qf p sp.ann :: updParams qf sKw sPos' sPo ps
      | [] => p :: updParams qf sKw [] sPo ps
    | .posonly =>
      match sPo with
      | sp :: sPo' => annotate qf p sp.ann :: updParams qf sKw sPos sPo' ps
      | [] => p :: updParams qf sKw sPos [] ps
    | .kwonly =>
      (match findParam p.name sKw with
       | some sp => annotate qf p sp.ann
       | none => p) :: updParams qf sKw sPos sPo ps
    | _ => p :: updParams qf sKw sPos sPo ps

def annCount (ps : List Param) : Nat := (ps.filter (fun p => p.ann.isSome)).length

/-- `leave_FunctionDef` -/
def applyFunc (E : Env) (st : St) (n : String) (ps : List Param) (r : Option Ann) :
    List Param × Option Ann :=
  match lookupLast E.A.funcs (fkeyOf (joinQ (st.qual ++ [n])) ps) with
  | none => (ps, r)
  | some (sps, sr) =>
    if matchSig ps r sps sr then
      let qf := quote E.globals st.visited
      let r' := match r, sr with
        | none, some a => some (qf a)
        | _, _ => r
      (updParams qf (paramsOf .kwonly sps) (paramsOf .pos sps) (paramsOf .posonly sps) ps, r')
    else (ps, r)

/-- `_add_to_toplevel_annotations` -/
def addTop (E : Env) (st : St) (name : String) : St :=
  match lookupLast E.A.attrs (joinQ (st.qual ++ [name])) with
  | some a => { st with top := dictSet st.top name a, scopeTop := st.scopeTop || !st.qual.isEmpty }
  | none => st

def addTops (E : Env) (st : St) : List (Option String) → St
  | [] => st
  | some s :: rest => if s = "_" then addTops E st rest else addTops E (addTop E st s) rest
  | none :: rest => addTops E st rest

def isGenericBase : Ann → Bool
  | .sub (.name s) _ => s == "Generic"
  | _ => false

/-- `record_typevar` (runs while the value of an assignment is visited) -/
def recordTv (st : St) (ts : List Target) (tv : Bool) : St :=
  if tv then
    match ts.head? with
    | some t =>
      match t.fullName with
      | some s => { st with srcTv := s :: st.srcTv }
      | none => st
    | none => st
  else st

def multiNames (ts : List Target) : List (Option String) :=
  ts.map fun t =>
    match t with
    | .name s => some s
    | .dotted s => some s
    | _ => none

/-- `leave_Assign` -/
def applyAssignCore (E : Env) (st : St) (ts : List Target) (v : Tok) (tv : Bool) : Stmt × St :=
  match ts with
  | [.name s] =>
    match lookupLast E.A.attrs (joinQ (st.qual ++ [s])) with
    | some a =>
      if st.already.contains (joinQ (st.qual ++ [s])) then
        -- the qualifier is *not* popped here (libcst bug): every later sibling is mis-qualified
        (.assign ts v tv, { st with qual := st.qual ++ [s], leaked := true })
      else
        (.annAssign (.name s) (quote E.globals st.visited a) (some v),
         { st with already := joinQ (st.qual ++ [s]) :: st.already, count := st.count + 1 })
    | none => (.assign ts v tv, st)
  | [.tuple elts] => (.assign ts v tv, addTops E st elts)
  | [_] => (.assign ts v tv, st)
  | _ => (.assign ts v tv, addTops E st (multiNames ts))

def applyAssign (E : Env) (st : St) (ts : List Target) (v : Tok) (tv : Bool) : Stmt × St :=
  applyAssignCore E (recordTv st ts tv) ts v tv

mutual
def applyStmt (E : Env) (st : St) : Stmt → Stmt × St
  | .funcDef n d ps r b =>
    let res := applyFunc E st n ps r
    (.funcDef n d res.1 res.2 b,
     { st with count := st.count + (annCount res.1 - annCount ps) +
                         (if r.isNone && res.2.isSome then 1 else 0) })
  | .classDef n d bs b =>
    let res := applyStmts E { st with qual := st.qual ++ [n] } b
    let st1 := res.2
    let clsName := joinQ st1.qual
    let st2 := { st1 with visited := n :: st1.visited, qual := st1.qual.dropLast }
    match lookupFirst E.A.classes clsName with
    | some (_, sbs, _) =>
      match sbs.find? isGenericBase, bs.find? isGenericBase with
      | some g, none =>
        (.classDef n d (bs ++ [g]) res.1, { st2 with count := st2.count + 1, genericAdded := true })
      | _, _ => (.classDef n d bs res.1, st2)
    | none => (.classDef n d bs res.1, st2)
  | .assign ts v tv => applyAssign E st ts v tv
  | .block h b =>
    let res := applyStmts E st b
    (.block h res.1, res.2)
  | s => (s, st)
def applyStmts (E : Env) (st : St) : List Stmt → List Stmt × St
  | [] => ([], st)
  | s :: ss =>
    let r1 := applyStmt E st s
    let r2 := applyStmts E r1.2 ss
    (r1.1 :: r2.1, r2.2)
end

/-! ## program-side context -/

mutual
/-- `GatherImportsVisitor` over the whole tree: local names bound by imports -/
def importedNames : Stmt → List String
  | .funcDef _ _ _ _ b => importedNamesL b
  | .classDef _ _ _ b => importedNamesL b
  | .block _ b => importedNamesL b
  | .importFrom _ ns => ns
  | .importMod m => [m]
  | _ => []
def importedNamesL : List Stmt → List String
  | [] => []
  | s :: ss => importedNames s ++ importedNamesL ss
end

mutual
/-- module-level `from m import n` pairs (blocks included) -/
def fromImports : Stmt → List (String × String)
  | .importFrom m ns => ns.map (fun n => (n, m))
  | .block _ b => fromImportsL b
  | _ => []
def fromImportsL : List Stmt → List (String × String)
  | [] => []
  | s :: ss => fromImports s ++ fromImportsL ss
end

def targetNames : List Target → List String
  | [] => []
  | .name s :: ts => s :: targetNames ts
  | _ :: ts => targetNames ts

mutual
/-- `GatherGlobalNamesVisitor`: names assigned / classes defined at scope depth 0 -/
def globalsOf : Stmt → List String
  | .classDef n _ _ _ => [n]
  | .annAssign (.name s) _ _ => [s]
  | .assign ts _ _ => targetNames ts
  | .block _ b => globalsOfL b
  | _ => []
def globalsOfL : List Stmt → List String
  | [] => []
  | s :: ss => globalsOf s ++ globalsOfL ss
end

def mkCtx (py pyi : List Stmt) : Ctx :=
  { existing := importedNamesL py, stubFrom := fromImportsL pyi }

/-! ## `merge` -/

/-- result of a merge: the statements libcst *adds* at the top of the module are kept apart from the
(annotated) original statements -/
structure Merged where
  /-- names added by `AddImportsVisitor` as `from module import name` -/
  imports : List (String × String)
  /-- bare declarations `name: ann` added for multi-target / tuple assignments -/
  decls : List (String × Ann)
  /-- `T = TypeVar(...)` statements copied from the stub -/
  typevars : List Stmt
  /-- class definitions copied from the stub -/
  classes : List Stmt
  body : List Stmt
  leaked : Bool
  scopeTop : Bool
  genericAdded : Bool
  deriving Repr, Inhabited

inductive MergeErr where
  /-- `cst.Name("C.x")`: "Name 'C.x' is not a valid identifier." wrapped into `MergeError` -/
  | invalidIdentifier
  deriving DecidableEq, Repr, Inhabited

def hasDot (s : String) : Bool := s.toList.contains '.'

def unchanged (py : List Stmt) (st : St) : Merged :=
  { imports := [], decls := [], typevars := [], classes := [], body := py,
    leaked := st.leaked, scopeTop := st.scopeTop, genericAdded := false }

def merge (py pyi : List Stmt) : Except MergeErr Merged :=
  let c := mkCtx py pyi
  let A := collect c (prefilter pyi)
  let E : Env := { A := A, globals := globalsOfL py }
  let res := applyStmts E {} py
  let st := res.2
  let fresh := A.classes.filter (fun p => !st.visited.contains p.1)
  let tvs := A.typevars.filter (fun p => !st.srcTv.contains p.1)
  if st.top.any (fun d => hasDot d.1) then .error .invalidIdentifier
  else if st.count + st.top.length + tvs.length + fresh.length = 0 then .ok (unchanged py st)
  else
    let have_ := fromImportsL py
    .ok { imports := (dedup A.needed).filter (fun p => !have_.contains (p.2, p.1))
          decls := st.top.map (fun d => (d.1, quote E.globals st.visited d.2))
          typevars := tvs.map (·.2)
          classes := fresh.map (fun p => .classDef p.1 p.2.1 p.2.2.1 p.2.2.2)
          body := res.1
          leaked := st.leaked, scopeTop := st.scopeTop, genericAdded := st.genericAdded }

/-! ## specification vocabulary -/

def eraseParam (p : Param) : Param := { p with ann := none }

mutual
/-- drop every annotation: parameter and return annotations, `x: T = v ↦ x = v`, a bare
declaration `x: T` disappears (it is nothing but an annotation) -/
def eraseStmt : Stmt → List Stmt
  | .funcDef n d ps _ b => [.funcDef n d (ps.map eraseParam) none (eraseStmts b)]
  | .classDef n d bs b => [.classDef n d bs (eraseStmts b)]
  | .annAssign t _ v =>
    match v with
    | some v => [.assign [t] v false]
    | none => []
  | .assign ts v _ => [.assign ts v false]
  | .block h b => [.block h (eraseStmts b)]
  | s => [s]
def eraseStmts : List Stmt → List Stmt
  | [] => []
  | s :: ss => eraseStmt s ++ eraseStmts ss
end

/-- `erase` of a merge result: annotations, the added `typing` imports, the added TypeVar
definitions and the added bare declarations are dropped; anything else the merge added stays. -/
def eraseMerged (m : Merged) : List Stmt :=
  ((m.imports.filter (fun p => p.1 != "typing")).map fun p => Stmt.importFrom p.1 [p.2]) ++
  m.classes ++ eraseStmts m.body

inductive Slot where
  | ret
  | pos (i : Nat)
  | posonly (i : Nat)
  | kw (name : String)
  | star
  | starstar
  | var
  deriving DecidableEq, Repr, Inhabited

/-- slot of a parameter: positional(-only) parameters are identified by their index (that is how
the applier matches them when `strict_posargs_matching=False`), keyword-only ones by name -/
def slotOf (p : Param) (i j : Nat) : Slot :=
  match p.kind with
  | .pos => .pos i
  | .posonly => .posonly j
  | .kwonly => .kw p.name
  | .star => .star
  | .starstar => .starstar

def nextI (p : Param) (i : Nat) : Nat := if p.kind = .pos then i + 1 else i
def nextJ (p : Param) (j : Nat) : Nat := if p.kind = .posonly then j + 1 else j

/-- the annotations a parameter list carries -/
def annotsParams : Nat → Nat → List Param → List (Slot × Ann)
  | _, _, [] => []
  | i, j, p :: ps =>
    (match p.ann with
     | some a => [(slotOf p i j, a)]
     | none => []) ++ annotsParams (nextI p i) (nextJ p j) ps

/-- an annotation that is new at a slot -/
def newAnn (sl : Slot) : Option Ann → Option Ann → List (Slot × Ann)
  | none, some a => [(sl, a)]
  | _, _ => []

/-- the annotations present in the second list at places where the first has none -/
def insertedParams : Nat → Nat → List Param → List Param → List (Slot × Ann)
  | i, j, p :: ps, p' :: ps' =>
    newAnn (slotOf p i j) p.ann p'.ann ++ insertedParams (nextI p i) (nextJ p j) ps ps'
  | _, _, _, _ => []

def optSlot (s : Slot) : Option Ann → List (Slot × Ann)
  | some a => [(s, a)]
  | none => []

def tag (qn : String) (l : List (Slot × Ann)) : List (String × Slot × Ann) := l.map fun e => (qn, e.1, e.2)

def tname (t : Target) : String := t.fullName.getD ""

mutual
/-- every annotation of a program as (qualified name of the definition, slot, annotation); function
bodies are included (path `f.<locals>`) -/
def annotsS (q : List String) : Stmt → List (String × Slot × Ann)
  | .funcDef n _ ps r b =>
    tag (joinQ (q ++ [n])) (optSlot .ret r ++ annotsParams 0 0 ps) ++ annotsL (q ++ [n, "<locals>"]) b
  | .classDef n _ _ b => annotsL (q ++ [n]) b
  | .annAssign t a _ => [(joinQ (q ++ [tname t]), .var, a)]
  | .block _ b => annotsL q b
  | _ => []
def annotsL (q : List String) : List Stmt → List (String × Slot × Ann)
  | [] => []
  | s :: ss => annotsS q s ++ annotsL q ss
end

mutual
/-- the annotations of `new` at places where `old` (a statement of the same shape) has none -/
def insertedS (q : List String) : Stmt → Stmt → List (String × Slot × Ann)
  | .funcDef n _ ps r b, .funcDef _ _ ps' r' b' =>
    tag (joinQ (q ++ [n])) (newAnn .ret r r' ++ insertedParams 0 0 ps ps') ++
      insertedL (q ++ [n, "<locals>"]) b b'
  | .classDef n _ _ b, .classDef _ _ _ b' => insertedL (q ++ [n]) b b'
  | .assign _ _ _, .annAssign t a _ => [(joinQ (q ++ [tname t]), .var, a)]
  | .block _ b, .block _ b' => insertedL q b b'
  | _, _ => []
def insertedL (q : List String) : List Stmt → List Stmt → List (String × Slot × Ann)
  | s :: ss, s' :: ss' => insertedS q s s' ++ insertedL q ss ss'
  | _, _ => []
end

/-- everything a merge inserted: into the statements of the program, and as new declarations at
module level -/
def insertedAll (py : List Stmt) (m : Merged) : List (String × Slot × Ann) :=
  insertedL [] py m.body ++ m.decls.map fun d => (joinQ ([] ++ [d.1]), Slot.var, d.2)

/-- the stub's annotation for a slot of a function definition -/
def stubSlot (ps : List Param) (r : Option Ann) : Slot → Option Ann
  | .ret => r
  | .pos i => ((paramsOf .pos ps)[i]?).bind (·.ann)
  | .posonly i => ((paramsOf .posonly ps)[i]?).bind (·.ann)
  | .kw n => (findParam n (paramsOf .kwonly ps)).bind (·.ann)
  | _ => none

/-- "`raw` is the annotation the stub `pyi` gives for slot `slot` of the definition named `qn`" -/
def StubGives (pyi : List Stmt) (qn : String) (slot : Slot) (raw : Ann) : Prop :=
  (slot = .var ∧ ∃ it ∈ itemsL [] pyi, it = Item.var qn raw) ∨
  (∃ ps r, (∃ it ∈ itemsL [] pyi, it = Item.func qn ps r) ∧ stubSlot ps r slot = some raw)

/-- `typing.X` and `X` are the same annotation -/
def normT : Ann → Ann
  | .name s => .name s
  | .dotted m s => if m = "typing" then .name s else .dotted m s
  | .sub v sl => .sub (normT v) (normT sl)
  | .tup a b => .tup (normT a) (normT b)
  | .bor a b => .bor (normT a) (normT b)
  | .lst a => .lst (normT a)
  | .const s => .const s
  | .str s => .str s

/-- a quoted forward reference `"A"` and `A` are the same annotation -/
def unquote : Ann → Ann
  | .str s => .name s
  | a => a

def normAnn (a : Ann) : Ann := unquote (normT a)

/-- the dequalifier does not change the meaning of `a`: every name it would qualify and every dotted
name it would shorten belongs to `typing` -/
def annOK (c : Ctx) : Ann → Bool
  | .name s =>
    match lookupFirst c.stubFrom s with
    | some m => !c.existing.contains m || m == "typing"
    | none => true
  | .dotted m _ => c.existing.contains m || m == "typing"
  | .sub v sl => if isTypeHead v then annOK c v else annOK c v && annOK c sl
  | .tup a b => annOK c a && annOK c b
  | .bor a b => annOK c a && annOK c b
  | .lst a => annOK c a
  | .const _ => true
  | .str _ => true

def Item.allAnns : Item → List Ann
  | .func _ ps r => ps.filterMap (·.ann) ++ r.toList
  | .var _ a => [a]
  | _ => []

/-- guard of `inserted_from_stub`: no annotation of the stub is a foreign dotted name -/
def stubOK (c : Ctx) (pyi : List Stmt) : Bool :=
  (itemsL [] pyi).all fun it => it.allAnns.all (annOK c)

def isDottedAny : Ann → Bool
  | .dotted _ s => s == "Any" || s == "Never"
  | _ => false

def Item.retVarAnns : Item → List Ann
  | .func _ _ r => r.toList
  | .var _ a => [a]
  | _ => []

/-- guard of `no_bare_any`: no return / variable annotation of the stub is `m.Any` / `m.Never`
(the pre-filter recognises only the bare names; libcst shortens `typing.Any` to `Any`) -/
def noDottedAny (pyi : List Stmt) : Bool :=
  (itemsL [] pyi).all fun it => it.retVarAnns.all fun a => !isDottedAny a

end PytypeModel.Merge
