/-!
# Model of the file-based entry points of merge-pyi (C20): `merge_pyi.merge_files_src`, `merge_files`,
`tools/merge_pyi/main.py`

`merge_sources` is a parameter here (its own model is `Merge/MergePyi.lean`): what this layer must guarantee is that
the text it writes or prints is *that* result whatever the mode and the backup extension are, that the only files it
touches are the program and (in overwrite mode, when something changed) its backup, and that the backup holds the
original.

Python                                                  model
------------------------------------------------------  --------------------------------------------------------
the files on disk                                       `FS` = association list path ↦ text (`fsGet` / `fsSet`)
`Mode.PRINT / DIFF / OVERWRITE`                         `Mode`
`merge_files_src(py_path, pyi_src, mode, backup)`       `mergeFilesSrc merge fs pyPath pyiSrc mode backup`
  `annotated_src = merge_sources(py=py_src, pyi=…)`       `merge pySrc pyiSrc` (`none` = MergeError, propagated)
  `print(annotated_src)` / `print(diff)`                  `Out.stdout` (`.text t` / `.diff a b`; difflib is not modelled)
  `if backup:` (a non-empty extension)                    `backup : Option String`, `some ""` is falsy
  `shutil.copyfile(py_path, f"{py_path}.{backup}")`       `fsSet fs (pyPath ++ "." ++ b) pySrc`
`main()`: `--diff` ↦ DIFF, `-i` ↦ OVERWRITE, else PRINT;  `modeOfArgs`; `parser.error` when `-b` comes without `-i`
  `backup = args.backup or None`
Core Lean only. -/
namespace PytypeModel.Merge.Entry

abbrev FS := List (String × String)

def fsGet : FS → String → Option String
  | [], _ => none
  | (p, t) :: r, q => if p = q then some t else fsGet r q

def fsSet : FS → String → String → FS
  | [], q, t => [(q, t)]
  | (p, t') :: r, q, t => if p = q then (p, t) :: r else (p, t') :: fsSet r q t

inductive Mode | print | diff | overwrite
  deriving DecidableEq, Repr

inductive Printed
  | text (t : String)            -- `print(annotated_src)`
  | diff (a b : String)          -- `print(_get_diff(py_src, annotated_src))`
  deriving DecidableEq, Repr

structure Out where
  fs : FS
  stdout : List Printed
  changed : Bool
  deriving Repr

inductive Err | noSuchFile | mergeError | usage
  deriving DecidableEq, Repr

/-- `if backup:` -/
def truthy : Option String → Option String
  | some "" => none
  | b => b

def backupPath (pyPath b : String) : String := pyPath ++ "." ++ b

/-- `merge_files_src` -/
def mergeFilesSrc (merge : String → String → Option String) (fs : FS) (pyPath pyiSrc : String) (mode : Mode)
    (backup : Option String) : Except Err Out :=
  match fsGet fs pyPath with
  | none => .error .noSuchFile
  | some pySrc =>
    match merge pySrc pyiSrc with
    | none => .error .mergeError
    | some annotated =>
      let changed := annotated != pySrc
      match mode with
      | .print => .ok ⟨fs, [.text annotated], changed⟩
      | .diff => .ok ⟨fs, if changed then [.diff pySrc annotated] else [], changed⟩
      | .overwrite =>
        if changed then
          let fs1 := match truthy backup with
            | some b => fsSet fs (backupPath pyPath b) pySrc
            | none => fs
          .ok ⟨fsSet fs1 pyPath annotated, [], changed⟩
        else .ok ⟨fs, [], changed⟩

/-- `merge_files` for a textual stub: reads the stub, then `merge_files_src` -/
def mergeFiles (merge : String → String → Option String) (fs : FS) (pyPath pyiPath : String) (mode : Mode)
    (backup : Option String) : Except Err Out :=
  match fsGet fs pyiPath with
  | none => .error .noSuchFile
  | some pyiSrc => mergeFilesSrc merge fs pyPath pyiSrc mode backup

/-- `main.py`: the flags `--diff`, `-i`, `-b ext` (argparse makes `--diff` and `-i` mutually exclusive) -/
def modeOfArgs (diffFlag inPlace : Bool) (backup : Option String) : Except Err (Mode × Option String) :=
  if diffFlag && inPlace then .error .usage
  else if (truthy backup).isSome && !inPlace then .error .usage
  else .ok (if diffFlag then .diff else if inPlace then .overwrite else .print, truthy backup)

def main (merge : String → String → Option String) (fs : FS) (diffFlag inPlace : Bool) (backup : Option String)
    (pyPath pyiPath : String) : Except Err Out :=
  match modeOfArgs diffFlag inPlace backup with
  | .error e => .error e
  | .ok (mode, b) => mergeFiles merge fs pyPath pyiPath mode b

end PytypeModel.Merge.Entry
