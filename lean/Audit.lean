import Lean
open Lean

/-! `lake env lean --run Audit.lean <Module>`: prints one line per theorem declared in <Module>:
`THEOREM <name> AXIOMS <a1,a2,...>`.  The harness compares against the obligations it expects. -/

def main (args : List String) : IO UInt32 := do
  initSearchPath (← findSysroot)
  let modName := args.head!.toName
  let env ← importModules #[{ module := modName }] {} (loadExts := false)
  let some idx := env.getModuleIdx? modName | do IO.eprintln "module not found"; return 1
  let names := env.header.moduleData[idx.toNat]!.constNames
  for n in names do
    match env.find? n with
    | some (.thmInfo _) =>
      if n.isInternal then continue
      let (axs, _) := ((CollectAxioms.collect n).run env).run {}
      let l := axs.axioms.toList.map toString
      IO.println s!"THEOREM {n} AXIOMS {",".intercalate l}"
    | _ => pure ()
  return 0
