import Driver.Loop
import PytypeModel.Shell.Outcome
import PytypeModel.Shell.Dispatch
open PytypeModel.Shell
open PytypeModel.Generated.OpcodeDispatch

/-! protocol (one line in, one line out):
* `outcome <stage> <bits:8×0/1 in chain order> <line> <lineno> <raw_line> <nofail:0/1> <check:0/1>`
    (attributes: a number or `None`) → `<Result.render> kind=<Exc kind> declared=<0/1>` | `bad-bits`
* `ok <nofail> <check>` → `ANALYSED kind=ok declared=1`
* `compileline located <n>` | `compileline unlocated` → line
* `dispatch <NAME>` | `intrinsic <NAME>` → `byte_<NAME>` | `VMERROR` | `KEYERROR`
* `producible <minor>` → space separated sorted names | `no-table`
* `intrinsics` → space separated names -/

def parseStage : String → Option Stage
  | "read" => some .read | "preprocess" => some .preprocess | "directive" => some .directive
  | "compile" => some .compile | "blocks" => some .blocks | "director" => some .director
  | "fold" => some .fold | "run" => some .run | "analyze" => some .analyze | "infer" => some .infer
  | "output" => some .output | _ => none

def parseOptNat (s : String) : Option (Option Nat) :=
  if s == "None" then some none else s.toNat?.map some

def parseBit : String → Option Bool
  | "0" => some false | "1" => some true | _ => none

def kindName : Exc → String
  | .usage => "usage" | .compileErr _ => "compile" | .constant _ => "constant"
  | .indentation _ => "indentation" | .libcst _ => "libcst" | .syntax _ => "syntax"
  | .skipFile => "skip" | .other => "other" | .baseExc => "base"

def fmt (sr : StageResult) (kind : String) (nf ck : Bool) : String :=
  s!"{(outcome sr nf ck).render} kind={kind} declared={if sr.declared then 1 else 0}"

def stepC15 (u : Unit) (line : String) : Unit × Option String :=
  match line.splitOn " " with
  | ["ok", nf, ck] =>
    match parseBit nf, parseBit ck with
    | some nf, some ck => (u, some (fmt .ok "ok" nf ck))
    | _, _ => (u, some "bad-op")
  | ["outcome", st, bits, l, ln, rl, nf, ck] =>
    match parseStage st, (bits.toList.map fun c => c == '1'), parseOptNat l, parseOptNat ln, parseOptNat rl,
          parseBit nf, parseBit ck with
    | some st, bs, some l, some ln, some rl, some nf, some ck =>
      match Exc.ofBits bs ⟨l, ln, rl⟩ with
      | some e => (u, some (fmt (.raised st e) (kindName e) nf ck))
      | none => (u, some "bad-bits")
    | _, _, _, _, _, _, _ => (u, some "bad-op")
  | ["compileline", "located", n] =>
    match n.toNat? with
    | some n => (u, some (toString (compileErrorLine (.located n))))
    | none => (u, some "bad-op")
  | ["compileline", "unlocated"] => (u, some (toString (compileErrorLine .unlocated)))
  | ["dispatch", n] => (u, some (dispatch (idOf n)).render)
  | ["intrinsic", n] => (u, some (dispatchIntrinsic (idOf n)).render)
  | ["producible", v] =>
    match v.toNat? with
    | some v =>
      match tables.find? (fun t => t.1 == v) with
      | some t => (u, some (" ".intercalate ((producibleOf t.2).map nameOf)))
      | none => (u, some "no-table")
    | none => (u, some "bad-op")
  | ["intrinsics"] => (u, some (" ".intercalate (intrinsics.map nameOf)))
  | _ => (u, some "bad-op")

def main : IO Unit := Driver.run () stepC15
