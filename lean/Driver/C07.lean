import Driver.Typegraph
/-! `drv_c07`: typegraph + solver model behind the line protocol of `Driver/Typegraph.lean`
(C07 uses the `cold …` queries: every answer is that of a fresh solver). -/
def main : IO Unit := Driver.run (PytypeModel.Typegraph.PState.init) Driver.TG.stepLine
