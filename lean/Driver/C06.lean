import Driver.Loop
import Driver.Sexp
import PytypeModel.Pytd.AbsConvert
open PytypeModel.Pytd PytypeModel.Pytd.AbsConvert

/-!
C06 driver.  S-expressions; names are atoms (no blanks / parentheses).

  type   A | N | (n name) | (c name) | (l name) | (g base t…) | (t base t…) | (u t…) | (X)      (X = outside the model)
  unit   (U name (K (k name type)…) (F (f name [ret])…) (C class…))
  class  (cls name (K (k name type)…) (F (f name [ret])…) (C class…))
         a function without `ret` has no single signature (overloads) and cannot be called by the model

protocol (one line in, one line out):
  T type            → "frag emitted | absvar | normIn | normOut | reexport | normText | fixed"
                       frag/emitted/fixed ∈ 0/1; fixed = (normOut t = strip t)
  J type…           → JoinTypes of the listed types
  Q type type       → 1/0  pytd `==`
  U unit            → "ok n" (n = number of derived reads) ; the unit is remembered
  D                 → the derived reads of the remembered unit, blank separated
  R read            → "- " if the read does not resolve, else "declared | reexport"
       read = (const x) | (call f) | (cattr x C…) | (iattr x C…) | (mcall m C…) | (cref C…)
  V read            → like R but through the text-transport normalisation: "reexport(text) | reexport(pickle) | same"
-/

namespace C06
open Driver

partial def tyOf : Sexp → Ty
  | .atom "A" => .any
  | .atom "N" => .nothing
  | .list [.atom "n", .atom s] => .named s
  | .list [.atom "c", .atom s] => .cls s
  | .list [.atom "l", .atom s] => .late s
  | .list (.atom "g" :: b :: ps) => .generic (tyOf b) (ps.map tyOf)
  | .list (.atom "t" :: b :: ps) => .tuple (tyOf b) (ps.map tyOf)
  | .list (.atom "u" :: ps) => .union (ps.map tyOf)
  | _ => .late "?"

partial def tyStr : Ty → String
  | .any => "A"
  | .nothing => "N"
  | .named n => "(n " ++ n ++ ")"
  | .cls n => "(c " ++ n ++ ")"
  | .late n => "(l " ++ n ++ ")"
  | .generic b ps => "(g " ++ " ".intercalate (tyStr b :: ps.map tyStr) ++ ")"
  | .tuple b ps => "(t " ++ " ".intercalate (tyStr b :: ps.map tyStr) ++ ")"
  | .union ps => "(u" ++ String.join (ps.map fun p => " " ++ tyStr p) ++ ")"
  | _ => "(X)"

def refStr (c : ClsRef) : String := (c.module.getD "-") ++ " " ++ c.name

partial def valStr : AVal → String
  | .inst c => "(inst " ++ refStr c ++ ")"
  | .pinst c ps => "(pinst " ++ refStr c ++ String.join (ps.map fun v => " " ++ varStr v) ++ ")"
  | .tup ss => "(tup" ++ String.join (ss.map fun v => " " ++ varStr v) ++ ")"
  | .clsObj c => "(cls " ++ refStr c ++ ")"
  | .func f => "(func " ++ f.name ++ ")"
  | .unsolvable => "U"
  | .empty => "E"
where varStr (v : List AVal) : String := "(" ++ " ".intercalate (v.map valStr) ++ ")"

def b01 (b : Bool) : String := if b then "1" else "0"

def constsOf : List Sexp → List Const
  | [] => []
  | .list [.atom "k", .atom n, t] :: r => { name := n, ty := tyOf t } :: constsOf r
  | _ :: r => constsOf r

def funcsOf : List Sexp → List Func
  | [] => []
  | .list [.atom "f", .atom n, t] :: r =>
    { name := n, sigs := [{ params := [], ret := tyOf t }] } :: funcsOf r
  | .list [.atom "f", .atom n] :: r => { name := n, sigs := [] } :: funcsOf r
  | _ :: r => funcsOf r

partial def classOf : Sexp → Option Class
  | .list [.atom "cls", .atom n, .list (.atom "K" :: ks), .list (.atom "F" :: fs), .list (.atom "C" :: cs)] =>
    some (.mk n [] [] (funcsOf fs) (constsOf ks) (cs.filterMap classOf) [] none [])
  | _ => none

def unitOf : Sexp → Option TUnit
  | .list [.atom "U", .atom n, .list (.atom "K" :: ks), .list (.atom "F" :: fs), .list (.atom "C" :: cs)] =>
    some { name := n, constants := constsOf ks, functions := funcsOf fs, classes := cs.filterMap classOf }
  | _ => none

def atoms : List Sexp → List String
  | [] => []
  | .atom s :: r => s :: atoms r
  | _ :: r => atoms r

def readOf : Sexp → Option Read
  | .list [.atom "const", .atom x] => some (.const x)
  | .list [.atom "call", .atom f] => some (.call f)
  | .list (.atom "cattr" :: .atom x :: p) => some (.clsAttr (atoms p) x)
  | .list (.atom "iattr" :: .atom x :: p) => some (.instAttr (atoms p) x)
  | .list (.atom "mcall" :: .atom m :: p) => some (.methCall (atoms p) m)
  | .list (.atom "cref" :: p) => some (.clsRef (atoms p))
  | _ => none

def readStr : Read → String
  | .const x => "(const " ++ x ++ ")"
  | .call f => "(call " ++ f ++ ")"
  | .clsAttr p x => "(cattr " ++ " ".intercalate (x :: p) ++ ")"
  | .instAttr p x => "(iattr " ++ " ".intercalate (x :: p) ++ ")"
  | .methCall p m => "(mcall " ++ " ".intercalate (m :: p) ++ ")"
  | .clsRef p => "(cref " ++ " ".intercalate p ++ ")"

def step (st : Option TUnit) (line : String) : Option TUnit × Option String :=
  let cmd := String.ofList (line.toList.take 1)
  let rest := String.ofList (line.toList.drop 2)
  match cmd with
  | "T" =>
    match parseAll rest with
    | some [e] =>
      let t := tyOf e
      (st, some (b01 (inFragment t) ++ " " ++ b01 (emitted t) ++ " | " ++ valStr.varStr (toAbsVar t) ++ " | "
        ++ tyStr (normIn t) ++ " | " ++ tyStr (normOut t) ++ " | " ++ tyStr (reexport t) ++ " | "
        ++ tyStr (normText t) ++ " | " ++ b01 (decide (normOut t = strip t))))
    | _ => (st, some "bad-input")
  | "J" =>
    match parseAll rest with
    | some es => (st, some (tyStr (joinTypes (es.map tyOf))))
    | none => (st, some "bad-input")
  | "Q" =>
    match parseAll rest with
    | some [a, b] => (st, some (b01 (sameTy (tyOf a) (tyOf b))))
    | _ => (st, some "bad-input")
  | "U" =>
    match parseAll rest with
    | some [e] =>
      match unitOf e with
      | some u => (some u, some ("ok " ++ toString (derive u).length))
      | none => (st, some "bad-input")
    | _ => (st, some "bad-input")
  | "D" =>
    match st with
    | some u => (st, some (" ".intercalate ((derive u).map readStr)))
    | none => (st, some "no-unit")
  | "R" =>
    match st, parseAll rest with
    | some u, some [e] =>
      match readOf e with
      | some r =>
        match resolveRead u r with
        | some t => (st, some (tyStr t ++ " | " ++ tyStr (reexport t)))
        | none => (st, some "-")
      | none => (st, some "bad-input")
    | _, _ => (st, some "bad-input")
  | "V" =>
    match st, parseAll rest with
    | some u, some [e] =>
      match readOf e with
      | some r =>
        let ut := mapUnit (fun t => resolve (normText t)) u
        let up := mapUnit (fun t => lateTy u.name (resolve t)) u
        match reexportRead ut r, reexportRead up r with
        | some a, some b => (st, some (tyStr a ++ " | " ++ tyStr b ++ " | " ++ b01 (sameTy a b)))
        | _, _ => (st, some "-")
      | none => (st, some "bad-input")
    | _, _ => (st, some "bad-input")
  | _ => (st, some "bad-input")

end C06

def main : IO Unit := Driver.run (none : Option TUnit) C06.step
