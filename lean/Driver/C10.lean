import Driver.Loop
import PytypeModel.Sem.Mro
open PytypeModel.Mro

/-! protocol (lists of naturals: `1,2,3`, empty list `-`; list of lists joined by `;`, no lists `.`):
  `merge <singletons> <seqs>`   → mro.MROMerge            `ok 1,2` | `err inconsistent`
  `pmerge <seqs>`               → CPython pmerge
  `pymro <hier>` / `cmro <hier>`→ per class `ok:…` / `err:…` joined by `|`
  `stub <hier>`                 → per class GetBasesInMRO(cls)
  `pylookup <hier> <defs> <nattrs>` / `clookup …` → per class, per attr: definer | `-` | `E`
  `pysuper <hier> <defs> <sdefs> <nattrs>` / `csuper …` → per class, per attr: `K().s()` with
      `def s(self): return super().a`: definer | `-` no method | `A` no attribute | `E` no class
-/

def parseList (s : String) : Option (List Nat) :=
  if s == "-" then some [] else (s.splitOn ",").mapM String.toNat?

def parseLists (s : String) : Option (List (List Nat)) :=
  if s == "." then some [] else (s.splitOn ";").mapM parseList

def showList (l : List Nat) : String :=
  if l.isEmpty then "-" else ",".intercalate (l.map toString)

def showErr : MroError → String
  | .inconsistent => "inconsistent"
  | .duplicateBase => "duplicate"
  | .badBase => "badbase"
  | .cycle => "cycle"
  | .fuel => "fuel"

def showRes (sep : String) : Res Nat → String
  | .ok l => "ok" ++ sep ++ showList l
  | .error e => "err" ++ sep ++ showErr e

def showTable (t : Table) : String := "|".intercalate (t.map (showRes ":"))

def defsFn (defs : List (List Nat)) (c a : Nat) : Bool := (defs.getD c []).contains a

def showLookups (look : Nat → Nat → Except MroError (Option Nat)) (n nattrs : Nat) : String :=
  "|".intercalate ((List.range n).map fun c =>
    ",".intercalate ((List.range nattrs).map fun a =>
      match look c a with
      | .ok (some d) => toString d
      | .ok none => "-"
      | .error _ => "E"))

def showSupers (rd : Nat → Nat → SRes) (n nattrs : Nat) : String :=
  "|".intercalate ((List.range n).map fun c =>
    ",".intercalate ((List.range nattrs).map fun a =>
      match rd c a with
      | .definer d => toString d
      | .noMethod => "-"
      | .noAttr => "A"
      | .noClass => "E"))

def stepC10 (_ : Unit) (line : String) : Unit × Option String :=
  let out := match line.splitOn " " with
    | ["merge", sg, ss] =>
      match parseList sg, parseLists ss with
      | some sg, some ss => showRes " " (mroMerge (fun x => sg.contains x) ss)
      | _, _ => "bad-op"
    | ["pmerge", ss] =>
      match parseLists ss with
      | some ss => showRes " " (pmerge ss)
      | _ => "bad-op"
    | ["pymro", h] =>
      match parseLists h with
      | some h => showTable (pyMroTable h)
      | _ => "bad-op"
    | ["cmro", h] =>
      match parseLists h with
      | some h => showTable (cMroTable h)
      | _ => "bad-op"
    | ["stub", h] =>
      match parseLists h with
      | some h => showTable (h.map (getBasesInMro h))
      | _ => "bad-op"
    | ["pylookup", h, d, n] =>
      match parseLists h, parseLists d, n.toNat? with
      | some h, some d, some n => showLookups (pyLookup h (defsFn d)) h.length n
      | _, _, _ => "bad-op"
    | ["clookup", h, d, n] =>
      match parseLists h, parseLists d, n.toNat? with
      | some h, some d, some n => showLookups (cLookup h (defsFn d)) h.length n
      | _, _, _ => "bad-op"
    | ["pysuper", h, d, sd, n] =>
      match parseLists h, parseLists d, parseLists sd, n.toNat? with
      | some h, some d, some sd, some n =>
        showSupers (pySuperRead h (defsFn d) (defsFn sd)) h.length n
      | _, _, _, _ => "bad-op"
    | ["csuper", h, d, sd, n] =>
      match parseLists h, parseLists d, parseLists sd, n.toNat? with
      | some h, some d, some sd, some n =>
        showSupers (cSuperRead h (defsFn d) (defsFn sd)) h.length n
      | _, _, _, _ => "bad-op"
    | _ => "bad-op"
  ((), some out)

def main : IO Unit := Driver.run () stepC10
