import Driver.Loop
import PytypeModel.Sem.Matcher
import PytypeModel.Sem.CallableArity
open PytypeModel.Sem

/-! protocol (prefix token strings, see harness/c02.py `ann_tok`/`val_tok`/`hier_tok`):
`hier n (len c…)*n`                 → sets the hierarchy (no output)
`chk <ann tokens> | <val tokens>`   → `<arg> <ret> <asg> <member> <inF2> <guard> <pyDistinct> <singleView> <valInF2>` (0/1 each;
                                       the first three are `siteError`)
anything else                       → `bad-op` -/

abbrev P (α : Type) := List String → Option (α × List String)

def pNat : P Nat
  | t :: ts => t.toNat?.map fun n => (n, ts)
  | [] => none

def baseOf : String → Option Base
  | "int" => some .int | "float" => some .float | "complex" => some .complex | "str" => some .str
  | "bytes" => some .bytes | "bool" => some .bool | "none" => some .none | "object" => some .object
  | "any" => some .any | "callable" => some .callable | "typeany" => some .typeAny
  | _ => none

def g1Of : String → Option G1
  | "list" => some .list | "set" => some .set | "fset" => some .fset | "tuphom" => some .tupHom
  | "seq" => some .seq | "iter" => some .iter | "coll" => some .coll
  | _ => none

def g2Of : String → Option G2
  | "dict" => some .dict | "map" => some .map
  | _ => none

partial def pMany {α : Type} (p : P α) : Nat → P (List α)
  | 0, ts => some ([], ts)
  | n + 1, ts => do
    let (x, ts) ← p ts
    let (xs, ts) ← pMany p n ts
    pure (x :: xs, ts)

def scalOf : String → Option Scal
  | "int" => some .int | "float" => some .float | "complex" => some .complex | "str" => some .str
  | "bytes" => some .bytes | "bool" => some .bool | "none" => some .none | _ => none

partial def pAnn : P Ann
  | [] => none
  | t :: ts =>
    match baseOf t with
    | some b => some (.base b, ts)
    | none =>
      match g1Of t with
      | some g => do let (a, ts) ← pAnn ts; pure (.gen1 g a, ts)
      | none =>
        match g2Of t with
        | some g => do let (k, ts) ← pAnn ts; let (v, ts) ← pAnn ts; pure (.gen2 g k v, ts)
        | none =>
          match t with
          | "cls" => do let (k, ts) ← pNat ts; pure (.cls k, ts)
          | "typec" => do let (k, ts) ← pNat ts; pure (.typeC k, ts)
          | "typeu" => do
            let (n, ts) ← pNat ts
            let (ks, ts) ← pMany pNat n ts
            let (m, ts) ← pNat ts
            let (bs, ts) ← pMany (fun ts => match ts with | t :: ts => (scalOf t).map (·, ts) | [] => none) m ts
            pure (.typeU ks bs, ts)
          | "opt" => do let (a, ts) ← pAnn ts; pure (.opt a, ts)
          | "union" => do let (n, ts) ← pNat ts; let (as, ts) ← pMany pAnn n ts; pure (.union as, ts)
          | "tup" => do let (n, ts) ← pNat ts; let (as, ts) ← pMany pAnn n ts; pure (.tup as, ts)
          | _ => none

def bclsIdx : String → Nat
  | "int" => 0 | "float" => 1 | "bool" => 2 | _ => 99

partial def pVal : P Val
  | [] => none
  | t :: ts =>
    match t with
    | "int" => do let (n, ts) ← pNat ts; pure (.int n, ts)
    | "bool" => do let (n, ts) ← pNat ts; pure (.bool (n != 0), ts)
    | "float" => do let (n, ts) ← pNat ts; pure (.float n, ts)
    | "complex" => do let (n, ts) ← pNat ts; pure (.complex n, ts)
    | "str" => do let (n, ts) ← pNat ts; pure (.str n, ts)
    | "bytes" => do let (n, ts) ← pNat ts; pure (.bytes n, ts)
    | "none" => some (.none, ts)
    | "inst" => do let (n, ts) ← pNat ts; pure (.inst n, ts)
    | "clsobj" => do let (n, ts) ← pNat ts; pure (.clsobj n, ts)
    | "bclsobj" => (match ts with | b :: ts => some (.bclsobj (bclsIdx b), ts) | [] => none)
    | "func" => do let (n, ts) ← pNat ts; pure (.func n, ts)
    | "list" => do let (n, ts) ← pNat ts; let (xs, ts) ← pMany pVal n ts; pure (.list xs, ts)
    | "tuple" => do let (n, ts) ← pNat ts; let (xs, ts) ← pMany pVal n ts; pure (.tuple xs, ts)
    | "set" => do let (n, ts) ← pNat ts; let (xs, ts) ← pMany pVal n ts; pure (.set xs, ts)
    | "fset" => do let (n, ts) ← pNat ts; let (xs, ts) ← pMany pVal n ts; pure (.fset xs, ts)
    | "dict" => do
      let (n, ts) ← pNat ts
      let (kvs, ts) ← pMany (fun ts => do let (k, ts) ← pVal ts; let (v, ts) ← pVal ts; pure ((k, v), ts)) n ts
      pure (.dict (kvs.map Prod.fst) (kvs.map Prod.snd), ts)
    | _ => none

def pHier (ts : List String) : Option Hierarchy := do
  let (n, ts) ← pNat ts
  let (rows, _) ← pMany (fun ts => do let (len, ts) ← pNat ts; pMany pNat len ts) n ts
  pure ⟨rows⟩

def bit (b : Bool) : String := if b then "1" else "0"

def stepC02 (H : Hierarchy) (line : String) : Hierarchy × Option String :=
  match (line.splitOn " ").filter (· ≠ "") with
  | "hier" :: ts =>
    match pHier ts with
    | some H' => (H', none)
    | none => (H, some "bad-op")
  | "chk" :: ts =>
    match pAnn ts with
    | some (a, "|" :: ts) =>
      match pVal ts with
      | some (v, []) =>
        let t := abs v
        (H, some (" ".intercalate [bit (siteError H .arg t a), bit (siteError H .ret t a), bit (siteError H .asg t a),
          bit (member H v a), bit (InF2 H a), bit (Guard v a), bit v.pyDistinct, bit t.singleView, bit v.inF2]))
      | _ => (H, some "bad-op")
    | _ => (H, some "bad-op")
  | ["carity", rp, op, va, rk, ok, kw, n] =>
    -- the arity clause of a function value against Callable[[A1..An], R] (Sem/CallableArity.lean)
    match rp.toNat?, op.toNat?, va.toNat?, rk.toNat?, ok.toNat?, kw.toNat?, n.toNat? with
    | some rp, some op, some va, some rk, some ok, some kw, some n =>
      let s : PytypeModel.Sem.CallableArity.FSig := ⟨rp, op, va != 0, rk, ok, kw != 0⟩
      (H, some (" ".intercalate [bit (PytypeModel.Sem.CallableArity.arityMatch s n),
        bit (PytypeModel.Sem.CallableArity.cpyAccepts s n), bit (PytypeModel.Sem.CallableArity.Guard s)]))
    | _, _, _, _, _, _, _ => (H, some "bad-op")
  | ["cargs", ds, es] =>
    -- a declared Callable value against an expected Callable: argument lists as strings over i s f o b (`-` = empty)
    let parse (w : String) : Option (List PytypeModel.Sem.CallableArity.Scal) :=
      if w == "-" then some [] else w.toList.mapM fun c =>
        match c with
        | 'i' => some .int | 's' => some .str | 'f' => some .float | 'o' => some .object | 'b' => some .bool
        | _ => none
    match parse ds, parse es with
    | some ds, some es => (H, some (bit (PytypeModel.Sem.CallableArity.matchArgs ds es)))
    | _, _ => (H, some "bad-op")
  | _ => (H, some "bad-op")

def main : IO Unit := Driver.run (⟨[]⟩ : Hierarchy) stepC02
