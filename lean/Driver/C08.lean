import Driver.Typegraph
/-! `drv_c08`: the `Program` state machine (graph + live solver memo) behind the line protocol of
`Driver/Typegraph.lean` (C08 uses the warm `query …` lines and `memo`). -/
def main : IO Unit := Driver.run (PytypeModel.Typegraph.PState.init) Driver.TG.stepLine
