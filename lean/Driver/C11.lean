import Driver.Loop
import PytypeModel.Pytd.Guards
open PytypeModel.Pytd

/-!
C11 driver.  Declarations travel as s-expressions (atoms without blanks/parentheses; free strings
are hex-encoded behind an `x`).

  type   A | N | (n name) | (c name) | (l name) | (p name scope|-) | (g base t…) | (t base t…)
         | (k base t…) | (u t…) | (i int) | (s xHEX) | (b 0|1) | (e cls name) | (a t xHEX…)
  param  (P name type o|r|k 0|1 type|-)
  decl   (D name scope|- bound|- constraint…)
  sig    (S (param…) param|- param|- ret (exc…) (decl…))
  func   (F name m|s|c|p abstract coroutine final (xHEX…) sig…)
  const  (C name type lit|-)          alias (L name type)
  class  (K name ((kw name type)…) (base…) (func…) (const…) (class…) (xHEX…) -|(slot…) (decl…))
  unit   (U name (const…) (decl…) (class…) (func…) (alias…))

protocol (one line in, at most one line out):
  H ((name base…)…)      superclass dict of `deps`          (no output)
  X ((name base…)…)      superclass dict of abc_hierarchy   (no output)
  O hasDeps lossy useAbcs maxUnion removeMutable canDoLookup   (no output)
  U unit                 → optimised unit | unsupported | bad-input
  G unit                 → "k s f": k = every type position is well-kinded (`kok`), s = the guard of
                           SimplifyUnionsWithSuperclasses holds where that visitor runs (`suwsOK`),
                           f = CombineContainers' fuel was enough (`ccStable` at every type position)
  J (type…)              → JoinTypes
  Q type type            → 1/0   Python `==`
-/

inductive SExp
  | atom (s : String)
  | list (xs : List SExp)
  deriving Inhabited

namespace SExp

partial def parseList : List Char → List SExp → Option (List SExp × List Char)
  | [], _ => none
  | ')' :: rest, acc => some (acc.reverse, rest)
  | ' ' :: rest, acc => parseList rest acc
  | '(' :: rest, acc =>
    match parseList rest [] with
    | some (xs, rest') => parseList rest' (.list xs :: acc)
    | none => none
  | cs, acc =>
    let tok := cs.takeWhile (fun c => c != ' ' && c != '(' && c != ')')
    parseList (cs.drop tok.length) (.atom (String.mk tok) :: acc)

def parse (s : String) : Option SExp :=
  match parseList (s.toList ++ [')']) [] with
  | some ([x], []) => some x
  | _ => none

partial def toStr : SExp → String
  | .atom s => s
  | .list xs => "(" ++ " ".intercalate (xs.map toStr) ++ ")"

end SExp

def hexDigit (n : Nat) : Char := if n < 10 then Char.ofNat (48 + n) else Char.ofNat (87 + n)

def hexEnc (s : String) : String :=
  "x" ++ String.mk (s.toUTF8.toList.flatMap fun b => [hexDigit (b.toNat / 16), hexDigit (b.toNat % 16)])

def hexVal (c : Char) : Option Nat :=
  if '0' ≤ c && c ≤ '9' then some (c.toNat - 48)
  else if 'a' ≤ c && c ≤ 'f' then some (c.toNat - 87) else none

partial def hexBytes : List Char → Option (List UInt8)
  | [] => some []
  | a :: b :: rest => do
    let x ← hexVal a
    let y ← hexVal b
    let r ← hexBytes rest
    pure (UInt8.ofNat (x * 16 + y) :: r)
  | _ => none

def hexDec (s : String) : Option String :=
  match s.toList with
  | 'x' :: rest => do
    let bs ← hexBytes rest
    String.fromUTF8? (ByteArray.mk bs.toArray)
  | _ => none

def optAtom (s : String) : Option String := if s == "-" then none else some s

partial def toTy : SExp → Option Ty
  | .atom "A" => some .any
  | .atom "N" => some .nothing
  | .list [.atom "n", .atom n] => some (.named n)
  | .list [.atom "c", .atom n] => some (.cls n)
  | .list [.atom "l", .atom n] => some (.late n)
  | .list [.atom "p", .atom n, .atom s] => some (.typeParam n (optAtom s))
  | .list (.atom "g" :: b :: ps) => do pure (.generic (← toTy b) (← ps.mapM toTy))
  | .list (.atom "t" :: b :: ps) => do pure (.tuple (← toTy b) (← ps.mapM toTy))
  | .list (.atom "k" :: b :: ps) => do pure (.callable (← toTy b) (← ps.mapM toTy))
  | .list (.atom "u" :: ts) => do pure (.union (← ts.mapM toTy))
  | .list [.atom "i", .atom v] => do pure (.literal (.int (← v.toInt?)))
  | .list [.atom "s", .atom v] => do pure (.literal (.str (← hexDec v)))
  | .list [.atom "b", .atom v] => some (.literal (.bool (v == "1")))
  | .list [.atom "e", .atom c, .atom n] => some (.literal (.enumMember c n))
  | .list (.atom "a" :: t :: as) => do
    let strs ← as.mapM (fun | SExp.atom s => hexDec s | _ => none)
    pure (.annotated (← toTy t) strs)
  | _ => none

def litS : Lit → SExp
  | .int v => .list [.atom "i", .atom (toString v)]
  | .str v => .list [.atom "s", .atom (hexEnc v)]
  | .bool v => .list [.atom "b", .atom (if v then "1" else "0")]
  | .enumMember c n => .list [.atom "e", .atom c, .atom n]

partial def tyS : Ty → SExp
  | .any => .atom "A"
  | .nothing => .atom "N"
  | .named n => .list [.atom "n", .atom n]
  | .cls n => .list [.atom "c", .atom n]
  | .late n => .list [.atom "l", .atom n]
  | .typeParam n s => .list [.atom "p", .atom n, .atom (s.getD "-")]
  | .generic b ps => .list (.atom "g" :: tyS b :: ps.map tyS)
  | .tuple b ps => .list (.atom "t" :: tyS b :: ps.map tyS)
  | .callable b ps => .list (.atom "k" :: tyS b :: ps.map tyS)
  | .union ts => .list (.atom "u" :: ts.map tyS)
  | .literal l => litS l
  | .annotated t as => .list (.atom "a" :: tyS t :: as.map (fun s => .atom (hexEnc s)))

def optTy : SExp → Option (Option Ty)
  | .atom "-" => some none
  | s => (toTy s).map some

def toParam : SExp → Option Param
  | .list [.atom "P", .atom n, t, .atom k, .atom o, m] => do
    let kind ← match k with
      | "o" => some ParamKind.posOnly | "r" => some .regular | "k" => some .kwOnly | _ => none
    pure { name := n, ty := ← toTy t, kind := kind, optional := o == "1", mutated := ← optTy m }
  | _ => none

def paramS (p : Param) : SExp :=
  .list [.atom "P", .atom p.name, tyS p.ty,
         .atom (match p.kind with | .posOnly => "o" | .regular => "r" | .kwOnly => "k"),
         .atom (if p.optional then "1" else "0"),
         match p.mutated with | none => .atom "-" | some m => tyS m]

def optPar : SExp → Option (Option Param)
  | .atom "-" => some none
  | s => (toParam s).map some

def optParamS : Option Param → SExp
  | none => .atom "-"
  | some p => paramS p

def toDecl : SExp → Option TypeParamDecl
  | .list (.atom "D" :: .atom n :: .atom s :: b :: cs) => do
    pure { name := n, scope := optAtom s, bound := ← optTy b, constraints := ← cs.mapM toTy }
  | _ => none

def declS (d : TypeParamDecl) : SExp :=
  .list (.atom "D" :: .atom d.name :: .atom (d.scope.getD "-") ::
         (match d.bound with | none => .atom "-" | some b => tyS b) :: d.constraints.map tyS)

def toSig : SExp → Option Sig
  | .list [.atom "S", .list ps, sa, ssa, r, .list es, .list tm] => do
    pure { params := ← ps.mapM toParam, starargs := ← optPar sa, starstarargs := ← optPar ssa,
           ret := ← toTy r, exceptions := ← es.mapM toTy, template := ← tm.mapM toDecl }
  | _ => none

def sigS (s : Sig) : SExp :=
  .list [.atom "S", .list (s.params.map paramS), optParamS s.starargs, optParamS s.starstarargs,
         tyS s.ret, .list (s.exceptions.map tyS), .list (s.template.map declS)]

def strList (xs : List SExp) : Option (List String) := xs.mapM (fun | SExp.atom s => hexDec s | _ => none)

def toFunc : SExp → Option Func
  | .list (.atom "F" :: .atom n :: .atom k :: .atom ab :: .atom co :: .atom fi :: .list ds :: sigs) => do
    let kind ← match k with
      | "m" => some MethodKind.method | "s" => some .staticmethod | "c" => some .classmethod
      | "p" => some .property | _ => none
    pure { name := n, sigs := ← sigs.mapM toSig, kind := kind, abstract := ab == "1",
           coroutine := co == "1", final := fi == "1", decorators := ← strList ds }
  | _ => none

def bit (b : Bool) : SExp := .atom (if b then "1" else "0")

def funcS (f : Func) : SExp :=
  .list (.atom "F" :: .atom f.name ::
         .atom (match f.kind with | .method => "m" | .staticmethod => "s" | .classmethod => "c" | .property => "p") ::
         bit f.abstract :: bit f.coroutine :: bit f.final ::
         .list (f.decorators.map (fun s => .atom (hexEnc s))) :: f.sigs.map sigS)

def toLit : SExp → Option (Option Lit)
  | .atom "-" => some none
  | s => match toTy s with
    | some (.literal l) => some (some l)
    | _ => none

def toConst : SExp → Option Const
  | .list [.atom "C", .atom n, t, v] => do pure { name := n, ty := ← toTy t, value := ← toLit v }
  | _ => none

def constS (c : Const) : SExp :=
  .list [.atom "C", .atom c.name, tyS c.ty, match c.value with | none => .atom "-" | some l => litS l]

def toAlias : SExp → Option Alias
  | .list [.atom "L", .atom n, t] => do pure { name := n, ty := ← toTy t }
  | _ => none

def aliasS (a : Alias) : SExp := .list [.atom "L", .atom a.name, tyS a.ty]

partial def toClass : SExp → Option Class
  | .list [.atom "K", .atom n, .list kws, .list bs, .list ms, .list cs, .list ns, .list ds, sl, .list tm] => do
    let kw ← kws.mapM (fun | .list [.atom "kw", .atom k, t] => (toTy t).map (fun t => (k, t)) | _ => none)
    let slots ← match sl with
      | .atom "-" => some none
      | .list xs => (strList xs).map some
      | _ => none
    pure (.mk n kw (← bs.mapM toTy) (← ms.mapM toFunc) (← cs.mapM toConst) (← ns.mapM toClass)
           (← strList ds) slots (← tm.mapM toDecl))
  | _ => none

partial def classS : Class → SExp
  | .mk n kw bs ms cs ns ds sl tm =>
    .list [.atom "K", .atom n, .list (kw.map fun e => .list [.atom "kw", .atom e.1, tyS e.2]),
           .list (bs.map tyS), .list (ms.map funcS), .list (cs.map constS), .list (ns.map classS),
           .list (ds.map (fun s => .atom (hexEnc s))),
           (match sl with | none => .atom "-" | some xs => .list (xs.map (fun s => .atom (hexEnc s)))),
           .list (tm.map declS)]

def toUnit : SExp → Option TUnit
  | .list [.atom "U", .atom n, .list cs, .list tps, .list ks, .list fs, .list as] => do
    pure { name := n, constants := ← cs.mapM toConst, typeParams := ← tps.mapM toDecl,
           classes := ← ks.mapM toClass, functions := ← fs.mapM toFunc, aliases := ← as.mapM toAlias }
  | _ => none

def unitS (u : TUnit) : SExp :=
  .list [.atom "U", .atom u.name, .list (u.constants.map constS), .list (u.typeParams.map declS),
         .list (u.classes.map classS), .list (u.functions.map funcS), .list (u.aliases.map aliasS)]

def toHier : SExp → Option Hier
  | .list es => es.mapM (fun
      | .list (.atom n :: bs) => (bs.mapM (fun | SExp.atom b => some b | _ => none)).map (fun bs => (n, bs))
      | _ => none)
  | _ => none

partial def classHasTemplate : Class → Bool
  | .mk _ _ _ _ _ ns _ _ tm => !tm.isEmpty || ns.any classHasTemplate

structure St where
  deps : Hier := []
  abcs : Hier := []
  opts : Opts := {}

def rest (line : String) : String := String.mk (line.toList.drop 2)

def stepC11 (st : St) (line : String) : St × Option String :=
  if line.startsWith "H " then
    match (SExp.parse (rest line)).bind toHier with
    | some h => ({ st with deps := h }, none)
    | none => (st, some "bad-input")
  else if line.startsWith "X " then
    match (SExp.parse (rest line)).bind toHier with
    | some h => ({ st with abcs := h }, none)
    | none => (st, some "bad-input")
  else if line.startsWith "O " then
    match (rest line).splitOn " " with
    | [a, b, c, d, e, f] =>
      match d.toNat? with
      | some m => ({ st with opts := { hasDeps := a == "1", lossy := b == "1", useAbcs := c == "1", maxUnion := m,
                                        removeMutable := e == "1", canDoLookup := f == "1" } }, none)
      | none => (st, some "bad-input")
    | _ => (st, some "bad-input")
  else if line.startsWith "U " then
    match (SExp.parse (rest line)).bind toUnit with
    | some u =>
      if st.opts.removeMutable && u.classes.any classHasTemplate then (st, some "unsupported")
      else (st, some (unitS (optimize st.opts st.deps st.abcs u)).toStr)
    | none => (st, some "bad-input")
  else if line.startsWith "G " then
    match (SExp.parse (rest line)).bind toUnit with
    | some u =>
      let k := u.all kok
      let H := pipelineHier st.opts st.deps st.abcs u
      let s := !st.opts.hasDeps || (stageA u).all (suwsOK H)
      let f := (beforeCC u).all ccStable
      (st, some ((if k then "1" else "0") ++ " " ++ (if s then "1" else "0") ++ " " ++ (if f then "1" else "0")))
    | none => (st, some "bad-input")
  else if line.startsWith "J " then
    match SExp.parse (rest line) with
    | some (.list ts) =>
      match ts.mapM toTy with
      | some ts => (st, some (tyS (joinTypes ts)).toStr)
      | none => (st, some "bad-input")
    | _ => (st, some "bad-input")
  else if line.startsWith "Q " then
    match SExp.parse ("(" ++ rest line ++ ")") with
    | some (.list [a, b]) =>
      match toTy a, toTy b with
      | some a, some b => (st, some (if a.pyEq b then "1" else "0"))
      | _, _ => (st, some "bad-input")
    | _ => (st, some "bad-input")
  else (st, some "bad-op")

def main : IO Unit := Driver.run ({} : St) stepC11
