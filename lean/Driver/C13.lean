import Driver.Loop
import PytypeModel.Sem.ArgBind
import PytypeModel.Sem.ArgBindPytd
import PytypeModel.Sem.KwReg
open PytypeModel.ArgBind

/-! protocol (names are Nat codes; lists comma-separated, `-` = empty / absent):
  `sig <posonly> <poskw> <varargs> <kwonly> <kwargs> <defaults>`   sets the signature, no output
  `b <npos> <kws>`   the same for a bound call `receiver.m(args)`: model = `mapArgsBound`
                         (receiver prepended only if there is a positional parameter), spec =
                         `cpyBindBound` (receiver always prepended)
  `p <npos> <kws>`   a call of a function declared in a stub: model = `mapArgsPytd` (`ok` + what each declared
                         parameter is matched against, `?` = nothing: it takes its default) | spec = `cpyBind`
  `c <npos> <kws>`   →  `<model> | <spec>` where each side is `ok n:ref n:ref …` (every name of the
                         frame in signature order) or `err <kind>`; `notwf` if names are not distinct
  ref: `P<i>` the caller's positional i (in `b` mode `R` = the receiver) · `K<k>` keyword k · `D` default · `T[i;j…]` *args tuple ·
       `M[k;k…]` **kwargs dict in call order · `?` not bound -/

def parseList (w : String) : Option (List Nat) :=
  if w == "-" then some [] else (w.splitOn ",").mapM String.toNat?

def parseOpt (w : String) : Option (Option Nat) :=
  if w == "-" then some none else w.toNat?.map some

/-- `recv`: positional argument 0 is the receiver (printed `R`), the caller's own positional
arguments are numbered from 0 -/
def showPos (recv : Bool) (i : Nat) : String :=
  if recv then (if i == 0 then "R" else toString (i - 1)) else toString i

def showRef (recv : Bool) : ArgRef → String
  | .pos i => if recv && i == 0 then "R" else "P" ++ showPos recv i
  | .kw k => s!"K{k}"
  | .default => "D"
  | .varargsTuple is => "T[" ++ ";".intercalate (is.map (showPos recv)) ++ "]"
  | .kwargsDict ks => "M[" ++ ";".intercalate (ks.map toString) ++ "]"

def showView (recv : Bool) (v : List (Name × Option ArgRef)) : String :=
  " ".intercalate (v.map fun (n, r) => s!"{n}:" ++ (match r with | some r => showRef recv r | none => "?"))

def showBindErr : BindErr → String
  | .duplicateKeyword => "duplicateKeyword"
  | .wrongKeywordArgs => "wrongKeywordArgs"
  | .missingParameter => "missingParameter"
  | .wrongArgCount => "wrongArgCount"

def showCpyErr : CpyErr → String
  | .tooManyPositional => "tooManyPositional"
  | .multipleValues => "multipleValues"
  | .unexpectedKeyword => "unexpectedKeyword"
  | .posonlyAsKeyword => "posonlyAsKeyword"
  | .missingPositional => "missingPositional"
  | .missingKwonly => "missingKwonly"

def runCall (bound : Bool) (s : Sig) (c : Call) : String :=
  if !(decide s.WF && decide c.WF) then "notwf" else
  let m := match (if bound then mapArgsBound s c else mapArgs s c) with
    | .ok d => "ok " ++ showView (bound && (boundCall s c).npos != c.npos) (view s d)
    | .error e => "err " ++ showBindErr e
  let p := match (if bound then cpyBindBound s c else cpyBind s c) with
    | .ok d => "ok " ++ showView bound (d.map fun (n, r) => (n, some r))
    | .error e => "err " ++ showCpyErr e
  m ++ " | " ++ p

def runCallPytd (s : Sig) (c : Call) : String :=
  if !(decide s.WF && decide c.WF) then "notwf" else
  let m := match mapArgsPytd s c with
    | .ok d => "ok " ++ showView false ((s.params ++ s.kwonly).map fun p => (p, d.lookup p))
    | .error e => "err " ++ showBindErr e
  let p := match cpyBind s c with
    | .ok d => "ok " ++ showView false (d.map fun (n, r) => (n, some r))
    | .error e => "err " ++ showCpyErr e
  m ++ " | " ++ p

def emptySig : Sig := ⟨[], [], none, [], none, []⟩

def stepC13 (s : Sig) (line : String) : Sig × Option String :=
  match line.splitOn " " with
  | ["sig", po, pk, va, ko, kw, df] =>
    match parseList po, parseList pk, parseOpt va, parseList ko, parseOpt kw, parseList df with
    | some po, some pk, some va, some ko, some kw, some df => (⟨po, pk, va, ko, kw, df⟩, none)
    | _, _, _, _, _, _ => (s, some "bad-op")
  | ["c", n, ks] =>
    match n.toNat?, parseList ks with
    | some n, some ks => (s, some (runCall false s ⟨n, ks⟩))
    | _, _ => (s, some "bad-op")
  | ["p", n, ks] =>
    match n.toNat?, parseList ks with
    | some n, some ks => (s, some (runCallPytd s ⟨n, ks⟩))
    | _, _ => (s, some "bad-op")
  | ["b", n, ks] =>
    match n.toNat?, parseList ks with
    | some n, some ks => (s, some (runCall true s ⟨n, ks⟩))
    | _, _ => (s, some "bad-op")
  | "kw" :: evs =>
    -- `kw <ev> …`, ev = `k:name,name` (KW_NAMES) | `c:<n>` (CALL with n operands)
    -- → `<wellPaired 0/1> <npos>:<names>|…` (one entry per call event; the VM model started with an empty register)
    let parseEv (w : String) : Option PytypeModel.KwReg.Ev :=
      match w.splitOn ":" with
      | ["k", ns] => some (.kw (if ns == "" then [] else ns.splitOn ","))
      | ["c", n] => n.toNat?.map .call
      | _ => none
    match (evs.filter (· ≠ "")).mapM parseEv with
    | some t =>
      let out := (PytypeModel.KwReg.run [] t).map fun sp => s!"{sp.npos}:{",".intercalate sp.named}"
      (s, some s!"{if PytypeModel.KwReg.wellPaired t then 1 else 0} {"|".intercalate out}")
    | none => (s, some "bad-op")
  | _ => (s, some "bad-op")

def main : IO Unit := Driver.run emptySig stepC13
