import Driver.Loop
import PytypeModel.Plan.Runner
import PytypeModel.Plan.Graph
import PytypeModel.Plan.Ninja
open PytypeModel.Plan PytypeModel.Ninja

/-! protocol (one line in, one line out)

`plan <req> <kinds> <groups>`
   req    : `-` | `i,i,..`            requested file ids
   kinds  : `-` | one letter per id   l d b s = Local Direct Builtin System, upper case = pytype_extensions.*
   groups : `-` | `g;g;..`  g = `m,m,..|d,d,..` (either side may be empty)
   → `err` | `ok <files> <step> <step> ..`
     files : `-` | `i,i,..`
     step  : `<id>:<first 0/1>:<c|i>:<deps>:<imports>`; deps `-`|`out,out`; imports `-`|`key=out,..`
     out   : `D` | `<id>.<0|1>`
`yield <req> <kinds> <groups>` → `ok <item> ..`, item = `<id>:<c|i|g>:<s|1|2>:<dep ids>`   (yield_sorted_modules)
`graph <kinds> <nodes>` → `ok <topo 0/1><stubsDistinct 0/1> <groups>` (deps_from_import_graph; groups in the `plan` syntax)
   nodes  : `-` | `n;n;..`  n = `f,f,..|j,j,..`  f = `m<id>` (source) | `s<k>` (type stub), files in file-name order;
            j = position of a dep node in the list (dependencies first)
`esc <cps>`  → `<cps> <wellEscaped 0/1>`      (cps = `-` | comma separated code points)
`path <cps>` → `ok <cps> <rest cps>` | `err`  (ninja path reader)
`val <cps>`  → `ok <cps> <rest cps>` | `err`  (ninja variable binding: blanks after `=` skipped, then the value reader)
`imp <cps>`  → `blank` | `bad` | `ok <key cps> <value cps>`   (one line of a .imports file)
`wsall`      → code points below 0x30000 that `strip` removes
-/

def commaNats (s : String) : Option (List Nat) :=
  if s == "-" || s == "" then some [] else (s.splitOn ",").mapM String.toNat?

def showNats (l : List Nat) : String :=
  if l.isEmpty then "-" else ",".intercalate (l.map toString)

def toChars (l : List Nat) : List Char := l.map Char.ofNat
def showChars (l : List Char) : String := showNats (l.map Char.toNat)

def kindOf (c : Char) : Option (Kind × Bool) :=
  match c with
  | 'l' => some (.loc, false) | 'd' => some (.direct, false)
  | 'b' => some (.builtin, false) | 's' => some (.system, false)
  | 'L' => some (.loc, true) | 'D' => some (.direct, true)
  | 'B' => some (.builtin, true) | 'S' => some (.system, true)
  | _ => none

def mkMod (kinds : List Char) (i : Nat) : Option Mod :=
  match kinds[i]? with
  | some c => (kindOf c).map fun (k, e) => ⟨i, k, e⟩
  | none => none

def parseGroup (kinds : List Char) (s : String) : Option (List Mod × List Mod) :=
  match s.splitOn "|" with
  | [a, b] => do
    let ms ← commaNats a
    let ds ← commaNats b
    let ms ← ms.mapM (mkMod kinds)
    let ds ← ds.mapM (mkMod kinds)
    pure (ms, ds)
  | _ => none

def showOut : Out → String
  | .default => "D"
  | .pyi m f => s!"{m.id}.{if f then 1 else 0}"

def showStep (s : Step) : String :=
  let a := match s.act with | .check => "c" | .infer => "i" | .genDefault => "g"
  let deps := if s.deps.isEmpty then "-" else ",".intercalate (s.deps.map showOut)
  let imps := if s.imports.isEmpty then "-"
    else ",".intercalate (s.imports.map fun (k, o) => s!"{k.id}={showOut o}")
  s!"{s.mod.id}:{if s.first then 1 else 0}:{a}:{deps}:{imps}"

def doPlan (req kinds groups : String) : String :=
  let r := do
    let req ← commaNats req
    let kinds := if kinds == "-" then [] else kinds.toList
    let gs ← if groups == "-" then some [] else (groups.splitOn ";").mapM (parseGroup kinds)
    pure (setupBuild req gs)
  match r with
  | none => "bad-op"
  | some (.error _) => "err"
  | some (.ok st) => " ".intercalate (["ok", showNats st.files] ++ st.steps.map showStep)

def showItem (it : Item) : String :=
  let a := match it.act with | .check => "c" | .infer => "i" | .genDefault => "g"
  let st := match it.stage with | .single => "s" | .first => "1" | .second => "2"
  s!"{it.mod.id}:{a}:{st}:{showNats (it.deps.map (·.id))}"

def doYield (req kinds groups : String) : String :=
  let r := do
    let req ← commaNats req
    let kinds := if kinds == "-" then [] else kinds.toList
    let gs ← if groups == "-" then some [] else (groups.splitOn ";").mapM (parseGroup kinds)
    pure (yieldSorted req gs)
  match r with
  | none => "bad-op"
  | some items => " ".intercalate ("ok" :: items.map showItem)

def parseFile (kinds : List Char) (s : String) : Option GFile :=
  match s.toList with
  | 'm' :: r => ((String.ofList r).toNat?.bind (mkMod kinds)).map GFile.src
  | 's' :: r => (String.ofList r).toNat?.map GFile.stub
  | _ => none

def parseNode (kinds : List Char) (s : String) : Option GNode :=
  match s.splitOn "|" with
  | [a, b] => do
    let fs ← if a == "" then some [] else (a.splitOn ",").mapM (parseFile kinds)
    let ds ← commaNats b
    pure ⟨fs, ds⟩
  | _ => none

def showGroup (g : List Mod × List Mod) : String :=
  ",".intercalate (g.1.map (toString ·.id)) ++ "|" ++ ",".intercalate (g.2.map (toString ·.id))

def doGraph (kinds nodes : String) : String :=
  let r := do
    let kinds := if kinds == "-" then [] else kinds.toList
    if nodes == "-" then some [] else (nodes.splitOn ";").mapM (parseNode kinds)
  match r with
  | none => "bad-op"
  | some ns =>
    let gs := depsFromGraph ns
    s!"ok {if topo ns then 1 else 0}{if stubsDistinct ns then 1 else 0} {if gs.isEmpty then "-" else ";".intercalate (gs.map showGroup)}"

def showEval (r : Except PytypeModel.Ninja.Err (List Char × List Char)) : String :=
  match r with
  | .ok (a, b) => s!"ok {showChars a} {showChars b}"
  | .error _ => "err"

def stepC19 (u : Unit) (line : String) : Unit × Option String :=
  match line.splitOn " " with
  | ["plan", req, kinds, groups] => (u, some (doPlan req kinds groups))
  | ["yield", req, kinds, groups] => (u, some (doYield req kinds groups))
  | ["graph", kinds, nodes] => (u, some (doGraph kinds nodes))
  | ["esc", s] =>
    match commaNats s with
    | some l => let e := escape (toChars l)
                (u, some s!"{showChars e} {if wellEscaped e then 1 else 0}")
    | none => (u, some "bad-op")
  | ["path", s] =>
    match commaNats s with
    | some l => (u, some (showEval (readPath (toChars l))))
    | none => (u, some "bad-op")
  | ["val", s] =>
    match commaNats s with
    | some l => (u, some (showEval (readBinding (toChars l))))
    | none => (u, some "bad-op")
  | ["imp", s] =>
    match commaNats s with
    | some l =>
      match parseImportsLine (toChars l) with
      | none => (u, some "blank")
      | some none => (u, some "bad")
      | some (some (k, v)) => (u, some s!"ok {showChars k} {showChars v}")
    | none => (u, some "bad-op")
  | ["wsall"] =>
    (u, some (showNats ((List.range 0x30000).filter fun n => isPyWs (Char.ofNat n))))
  | _ => (u, some "bad-op")

def main : IO Unit := Driver.run () stepC19
