import Driver.Loop
import PytypeModel.Pytd.PyiConvert
open PytypeModel.Pytd

/-! Line protocol for C05 (one request per line, one answer line).

`unit <sexpr>` →
  `modelled=0|1 <TAB> frag=0|1 <TAB> verify=0|1 <TAB> tree=<module sexpr> <TAB> conv=<ok unit sexpr | err kind>
   <TAB> norm=<unit sexpr> <TAB> fix=0|1 <TAB> vnorm=0|1 <TAB> canon=<ok module sexpr | err kind>
   <TAB> cstable=0|1 <TAB> guards=<failed guard names>`
`tree <module sexpr>` → `conv=<ok unit sexpr | err kind>`   (the parser model on an arbitrary tree)
`compat` → the pep484 compat table of the model

Strings are `#` followed by the UTF-8 bytes in hex.  See harness/c05.py for the producer. -/

namespace C05

inductive SX
  | atom (s : String)
  | list (l : List SX)
  deriving Inhabited

partial def tokenize (cs : List Char) (cur : List Char) (acc : Array String) : Array String :=
  let flush := fun (acc : Array String) => if cur.isEmpty then acc else acc.push (String.ofList cur.reverse)
  match cs with
  | [] => flush acc
  | c :: rest =>
    if c = '(' ∨ c = ')' then tokenize rest [] ((flush acc).push (String.singleton c))
    else if c = ' ' then tokenize rest [] (flush acc)
    else tokenize rest (c :: cur) acc

partial def parseSX (toks : Array String) (i : Nat) : Option (SX × Nat) :=
  if h : i < toks.size then
    let t := toks[i]
    if t = "(" then
      let rec go (j : Nat) (acc : Array SX) : Option (SX × Nat) :=
        if h2 : j < toks.size then
          if toks[j] = ")" then some (.list acc.toList, j + 1)
          else match parseSX toks j with
            | some (x, j') => go j' (acc.push x)
            | none => none
        else none
      go (i + 1) #[]
    else if t = ")" then none
    else some (.atom t, i + 1)
  else none

def hexVal (c : Char) : Nat :=
  if c.isDigit then c.toNat - '0'.toNat else if 'a' ≤ c ∧ c ≤ 'f' then c.toNat - 'a'.toNat + 10 else 0

def unhex (s : String) : String :=
  let rec go : List Char → List UInt8 → List UInt8
    | a :: b :: rest, acc => go rest ((UInt8.ofNat (hexVal a * 16 + hexVal b)) :: acc)
    | _, acc => acc.reverse
  let bytes := go s.toList []
  (String.fromUTF8? (ByteArray.mk bytes.toArray)).getD ""

def hexDigit (n : Nat) : Char := if n < 10 then Char.ofNat (48 + n) else Char.ofNat (87 + n)

def hex (s : String) : String :=
  String.ofList (s.toUTF8.toList.flatMap fun b => [hexDigit (b.toNat / 16), hexDigit (b.toNat % 16)])

def str? : SX → Option String
  | .atom s => if s.startsWith "#" then some (unhex (s.drop 1).toString) else none
  | _ => none

def S (s : String) : String := "#" ++ hex s

/-! ### reading a unit -/

def lit? : SX → Option Lit
  | .list [.atom "int", .atom n] => n.toInt?.map Lit.int
  | .list [.atom "str", s] => (str? s).map Lit.str
  | .list [.atom "bool", .atom b] => some (.bool (b = "1"))
  | .list [.atom "enum", c, m] => do some (.enumMember (← str? c) (← str? m))
  | _ => none

partial def ty? : SX → Option Ty
  | .atom "any" => some .any
  | .atom "nothing" => some .nothing
  | .list [.atom "named", s] => (str? s).map Ty.named
  | .list [.atom "cls", s] => (str? s).map Ty.cls
  | .list [.atom "late", s] => (str? s).map Ty.late
  | .list [.atom "tparam", s, .atom "none"] => (str? s).map (Ty.typeParam · none)
  | .list [.atom "tparam", s, sc] => do some (.typeParam (← str? s) (some (← str? sc)))
  | .list (.atom "generic" :: b :: ps) => do some (.generic (← ty? b) (← ps.mapM ty?))
  | .list (.atom "tuple" :: b :: ps) => do some (.tuple (← ty? b) (← ps.mapM ty?))
  | .list (.atom "callable" :: b :: ps) => do some (.callable (← ty? b) (← ps.mapM ty?))
  | .list (.atom "union" :: ts) => do some (.union (← ts.mapM ty?))
  | .list [.atom "lit", v] => (lit? v).map Ty.literal
  | .list (.atom "annotated" :: t :: as) => do some (.annotated (← ty? t) (← as.mapM str?))
  | _ => none

def optTy? : SX → Option (Option Ty)
  | .atom "none" => some none
  | x => (ty? x).map some

def kind? : SX → Option ParamKind
  | .atom "posonly" => some .posOnly
  | .atom "regular" => some .regular
  | .atom "kwonly" => some .kwOnly
  | _ => none

def param? : SX → Option Param
  | .list [.atom "param", n, t, k, .atom o, m] => do
    some { name := ← str? n, ty := ← ty? t, kind := ← kind? k, optional := o = "1", mutated := ← optTy? m }
  | _ => none

def optParam? : SX → Option (Option Param)
  | .atom "none" => some none
  | x => (param? x).map some

def tp? : SX → Option TypeParamDecl
  | .list [.atom "tp", n, .list cs, b, sc] => do
    let scope ← match sc with
      | .atom "none" => some none
      | x => (str? x).map some
    some { name := ← str? n, constraints := ← cs.mapM ty?, bound := ← optTy? b, scope := scope }
  | _ => none

def sig? : SX → Option Sig
  | .list [.atom "sig", .list ps, sa, ssa, r, .list (.atom "exceptions" :: es), .list (.atom "template" :: ts)] => do
    some { params := ← ps.mapM param?, starargs := ← optParam? sa, starstarargs := ← optParam? ssa,
           ret := ← ty? r, exceptions := ← es.mapM ty?, template := ← ts.mapM tp? }
  | _ => none

def mkind? : SX → Option MethodKind
  | .atom "method" => some .method
  | .atom "staticmethod" => some .staticmethod
  | .atom "classmethod" => some .classmethod
  | .atom "property" => some .property
  | _ => none

def func? : SX → Option Func
  | .list [.atom "func", n, k, .atom a, .atom c, .atom f, .list (.atom "decorators" :: ds), .list sigs] => do
    some { name := ← str? n, sigs := ← sigs.mapM sig?, kind := ← mkind? k, abstract := a = "1",
           coroutine := c = "1", final := f = "1", decorators := ← ds.mapM str? }
  | _ => none

def const? : SX → Option Const
  | .list [.atom "const", n, t, .atom v] => do
    some { name := ← str? n, ty := ← ty? t, value := if v = "some" then some (.bool true) else none }
  | _ => none

def alias? : SX → Option Alias
  | .list [.atom "alias", n, t] => do some { name := ← str? n, ty := ← ty? t }
  | _ => none

partial def class? : SX → Option Class
  | .list [.atom "class", n, .list bases, .list methods, .list consts, .list classes,
           .list (.atom "decorators" :: ds), slots, .list (.atom "template" :: ts),
           .list (.atom "kws" :: kws)] => do
    let sl ← match slots with
      | .atom "none" => some none
      | .list l => (l.mapM str?).map some
      | _ => none
    let kws' ← kws.mapM fun kv =>
      match kv with
      | .list [k, v] => do some (← str? k, ← ty? v)
      | _ => none
    some (.mk (← str? n) kws' (← bases.mapM ty?) (← methods.mapM func?) (← consts.mapM const?)
      (← classes.mapM class?) (← ds.mapM str?) sl (← ts.mapM tp?))
  | _ => none

def unit? : SX → Option TUnit
  | .list [.atom "unit", n, .list (.atom "consts" :: cs), .list (.atom "tparams" :: tps),
           .list (.atom "classes" :: cls), .list (.atom "funcs" :: fs), .list (.atom "aliases" :: as)] => do
    some { name := ← str? n, constants := ← cs.mapM const?, typeParams := ← tps.mapM tp?,
           classes := ← cls.mapM class?, functions := ← fs.mapM func?, aliases := ← as.mapM alias? }
  | _ => none

/-! ### writing units -/

def sp (l : List String) : String := " ".intercalate l
def par (l : List String) : String := "(" ++ sp l ++ ")"

def litS : Lit → String
  | .int n => par ["int", toString n]
  | .str s => par ["str", S s]
  | .bool b => par ["bool", if b then "1" else "0"]
  | .enumMember c m => par ["enum", S c, S m]

partial def tyS : Ty → String
  | .any => "any"
  | .nothing => "nothing"
  | .named n => par ["named", S n]
  | .cls n => par ["cls", S n]
  | .late n => par ["late", S n]
  | .typeParam n none => par ["tparam", S n, "none"]
  | .typeParam n (some s) => par ["tparam", S n, S s]
  | .generic b ps => par ("generic" :: tyS b :: ps.map tyS)
  | .tuple b ps => par ("tuple" :: tyS b :: ps.map tyS)
  | .callable b ps => par ("callable" :: tyS b :: ps.map tyS)
  | .union ts => par ("union" :: ts.map tyS)
  | .literal v => par ["lit", litS v]
  | .annotated t as => par ("annotated" :: tyS t :: as.map S)

def optTyS : Option Ty → String
  | none => "none"
  | some t => tyS t

def kindS : ParamKind → String
  | .posOnly => "posonly"
  | .regular => "regular"
  | .kwOnly => "kwonly"

def paramS (p : Param) : String :=
  par ["param", S p.name, tyS p.ty, kindS p.kind, if p.optional then "1" else "0", optTyS p.mutated]

def optParamS : Option Param → String
  | none => "none"
  | some p => paramS p

def tpS (d : TypeParamDecl) : String :=
  par ["tp", S d.name, par (d.constraints.map tyS), optTyS d.bound,
       match d.scope with | none => "none" | some s => S s]

def sigS (s : Sig) : String :=
  par ["sig", par (s.params.map paramS), optParamS s.starargs, optParamS s.starstarargs, tyS s.ret,
       par ("exceptions" :: s.exceptions.map tyS), par ("template" :: s.template.map tpS)]

def mkindS : MethodKind → String
  | .method => "method"
  | .staticmethod => "staticmethod"
  | .classmethod => "classmethod"
  | .property => "property"

def b01 (b : Bool) : String := if b then "1" else "0"

def funcS (f : Func) : String :=
  par ["func", S f.name, mkindS f.kind, b01 f.abstract, b01 f.coroutine, b01 f.final,
       par ("decorators" :: f.decorators.map S), par (f.sigs.map sigS)]

def constS (c : Const) : String := par ["const", S c.name, tyS c.ty, if c.value.isSome then "some" else "none"]

def aliasS (a : Alias) : String := par ["alias", S a.name, tyS a.ty]

partial def classS : Class → String
  | .mk n kws bases methods consts classes ds slots ts =>
    par ["class", S n, par (bases.map tyS), par (methods.map funcS), par (consts.map constS),
         par (classes.map classS), par ("decorators" :: ds.map S),
         (match slots with | none => "none" | some l => par (l.map S)),
         par ("template" :: ts.map tpS), par ("kws" :: kws.map fun kv => par [S kv.1, tyS kv.2])]

def unitS (u : TUnit) : String :=
  par ["unit", S u.name, par ("consts" :: u.constants.map constS), par ("tparams" :: u.typeParams.map tpS),
       par ("classes" :: u.classes.map classS), par ("funcs" :: u.functions.map funcS),
       par ("aliases" :: u.aliases.map aliasS)]

/-! ### syntax trees -/

partial def exprS : PyExpr → String
  | .name x => par ["name", S x]
  | .attr e a => par ["attr", exprS e, S a]
  | .sub e as => par ("sub" :: exprS e :: as.map exprS)
  | .list es => par ("list" :: es.map exprS)
  | .emptyTuple => "(etuple)"
  | .ellipsis => "(ellipsis)"
  | .none => "(none)"
  | .int n => par ["int", toString n]
  | .str s => par ["str", S s]
  | .bool b => par ["bool", b01 b]

def optExprS : Option PyExpr → String
  | none => "none"
  | some e => exprS e

def argS (a : PyArg) : String := par ["arg", S a.name, optExprS a.ann, b01 a.dflt]

def optArgS : Option PyArg → String
  | none => "none"
  | some a => argS a

def argsS (a : PyArgs) : String :=
  par ["args", par (a.posonly.map argS), par (a.args.map argS), optArgS a.vararg, par (a.kwonly.map argS),
       optArgS a.kwarg]

partial def stmtS : PyStmt → String
  | .importFrom m names =>
    par ("importfrom" :: S m :: names.map fun na => par [S na.1, match na.2 with | none => "none" | some a => S a])
  | .import_ m a => par ["import", S m, match a with | none => "none" | some a => S a]
  | .typeVarDef t f n cs b => par ["typevar", S t, exprS f, S n, par (cs.map exprS), optExprS b]
  | .assign t v => par ["assign", S t, exprS v]
  | .annAssign t a v => par ["annassign", S t, exprS a, optExprS v]
  | .funcDef n ds a r body => par ["def", S n, par (ds.map exprS), argsS a, exprS r, par (body.map stmtS)]
  | .classDef n bs ds body => par ["class", S n, par (bs.map exprS), par (ds.map exprS), par (body.map stmtS)]
  | .ellipsisStmt => "(ellipsis)"
  | .raise e => par ["raise", exprS e]

def moduleS (m : PyModule) : String := par (m.map stmtS)

partial def expr? : SX → Option PyExpr
  | .list [.atom "name", s] => (str? s).map PyExpr.name
  | .list [.atom "attr", e, a] => do some (.attr (← expr? e) (← str? a))
  | .list (.atom "sub" :: e :: as) => do some (.sub (← expr? e) (← as.mapM expr?))
  | .list (.atom "list" :: es) => do some (.list (← es.mapM expr?))
  | .list [.atom "etuple"] => some .emptyTuple
  | .list [.atom "ellipsis"] => some .ellipsis
  | .list [.atom "none"] => some .none
  | .list [.atom "int", .atom n] => n.toInt?.map PyExpr.int
  | .list [.atom "str", s] => (str? s).map PyExpr.str
  | .list [.atom "bool", .atom b] => some (.bool (b = "1"))
  | _ => none

def optExpr? : SX → Option (Option PyExpr)
  | .atom "none" => some none
  | x => (expr? x).map some

def arg? : SX → Option PyArg
  | .list [.atom "arg", n, a, .atom d] => do some { name := ← str? n, ann := ← optExpr? a, dflt := d = "1" }
  | _ => none

def optArg? : SX → Option (Option PyArg)
  | .atom "none" => some none
  | x => (arg? x).map some

def args? : SX → Option PyArgs
  | .list [.atom "args", .list po, .list re, va, .list kw, ka] => do
    some { posonly := ← po.mapM arg?, args := ← re.mapM arg?, vararg := ← optArg? va,
           kwonly := ← kw.mapM arg?, kwarg := ← optArg? ka }
  | _ => none

partial def stmt? : SX → Option PyStmt
  | .list (.atom "importfrom" :: m :: names) => do
    let ns ← names.mapM fun x =>
      match x with
      | .list [n, .atom "none"] => do some (← str? n, none)
      | .list [n, a] => do some (← str? n, some (← str? a))
      | _ => none
    some (.importFrom (← str? m) ns)
  | .list [.atom "import", m, .atom "none"] => do some (.import_ (← str? m) none)
  | .list [.atom "import", m, a] => do some (.import_ (← str? m) (some (← str? a)))
  | .list [.atom "typevar", t, f, n, .list cs, b] => do
    some (.typeVarDef (← str? t) (← expr? f) (← str? n) (← cs.mapM expr?) (← optExpr? b))
  | .list [.atom "assign", t, v] => do some (.assign (← str? t) (← expr? v))
  | .list [.atom "annassign", t, a, v] => do some (.annAssign (← str? t) (← expr? a) (← optExpr? v))
  | .list [.atom "def", n, .list ds, a, r, .list body] => do
    some (.funcDef (← str? n) (← ds.mapM expr?) (← args? a) (← expr? r) (← body.mapM stmt?))
  | .list [.atom "class", n, .list bs, .list ds, .list body] => do
    some (.classDef (← str? n) (← bs.mapM expr?) (← ds.mapM expr?) (← body.mapM stmt?))
  | .list [.atom "ellipsis"] => some .ellipsisStmt
  | .list [.atom "raise", e] => do some (.raise (← expr? e))
  | _ => none

def module? : SX → Option PyModule
  | .list l => l.mapM stmt?
  | _ => none

def errS : ParseErr → String
  | .syntax w => "err syntax " ++ S w
  | .parse w => "err parse " ++ S w
  | .unsupported w => "err unsupported " ++ S w

def convS (r : PM TUnit) : String :=
  match r with
  | .ok u => "ok " ++ unitS u
  | .error e => errS e

/-- the side condition `CanonStable` of Props/C05.lean, evaluated (equality of the printed modules is
decided on their dumps) -/
def canonStable (u : TUnit) : Bool :=
  let c := canonUnit (normUnit u)
  let c2 := canonUnit (normUnit c)
  inFragment c && verifyUnit c && verifyUnit c2 && (modelledGuards c2).all (·.2) &&
    decide (moduleS (printUnit c2) = moduleS (printUnit c))

def answerUnit (u : TUnit) : String :=
  let tree := printUnit u
  let nu := normUnit u
  let fix := decide (moduleS (printUnit nu) = moduleS tree)
  let canon := match canonicalPyi tree with
    | .ok m => "ok " ++ moduleS m
    | .error e => errS e
  "\t".intercalate [
    "modelled=" ++ b01 (modelled u),
    "frag=" ++ b01 (inFragment u),
    "verify=" ++ b01 (verifyUnit u),
    "tree=" ++ moduleS tree,
    "conv=" ++ convS (convert tree),
    "norm=" ++ unitS nu,
    "fix=" ++ b01 fix,
    "vnorm=" ++ b01 (verifyUnit nu),
    "canon=" ++ canon,
    "cstable=" ++ b01 (canonStable u),
    "guards=" ++ ",".intercalate (failedGuards u)]

def step (_ : Unit) (line : String) : Unit × Option String :=
  let line := line.trimAscii.toString
  if line = "compat" then
    ((), some (" ".intercalate (compatItems.map fun cn => cn.1 ++ ":" ++ cn.2)))
  else
    let (op, rest) :=
      match line.splitOn " " with
      | op :: rest => (op, " ".intercalate rest)
      | [] => ("", "")
    let toks := tokenize rest.toList [] #[]
    match parseSX toks 0 with
    | none => ((), some "bad-sexpr")
    | some (sx, _) =>
      if op = "unit" then
        match unit? sx with
        | some u => ((), some (answerUnit u))
        | none => ((), some "bad-unit")
      else if op = "tree" then
        match module? sx with
        | some m => ((), some ("conv=" ++ convS (convert m)))
        | none => ((), some "bad-tree")
      else ((), some "bad-op")

end C05

def main : IO Unit := Driver.run () C05.step
