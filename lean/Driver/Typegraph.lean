import Driver.Loop
import PytypeModel.Typegraph.Program
open PytypeModel.Typegraph

/-! Line protocol shared by `drv_c07` and `drv_c08` (one op per line, same text as the witnesses in
known_findings.json, data labels as numbers):

  reset [a0 a1 …]            new program; optional address ranks of the bindings in creation order
  node [c] | connect_new a [c] | connect a b | var | var_with w [ss] [d,…]
  bind v d [ss] w | bind0 v d | origin b w [ss] | paste v b w|- [ss] | paste_var v v2 w|- [ss]
  paste_new_data v b d | assign b w|- | assign_var v w|- | setcond n b|-
  query has n [bs] | query canhave n [bs] | query visible b n | query filter v n 0|1 | query bindings v n|-
      → answer on the live program (warm solver)
  cold <query …>             → answer of a fresh replica of the current graph (empty solver), state unchanged
  memo                       → 0 if there is no solver, else 1
  query stats                → `<solvers created so far> <solved_states_.size() of the latest solver>`

Answers: `0`/`1`, or `[i,j,…]`; an ill-formed or out-of-range op prints `bad-op` and is ignored. -/
namespace Driver.TG

def parseList (s : String) : Option (List Nat) :=
  if s.length < 2 || s.front != '[' || s.back != ']' then none
  else
    let inner := String.ofList ((s.toList.drop 1).dropLast)
    if inner.isEmpty then some [] else (inner.splitOn ",").mapM String.toNat?

def parseOpt (s : String) : Option (Option Nat) :=
  if s == "-" then some none else s.toNat?.map some

def parseQuery : List String → Option Query
  | ["has", n, bs] => do pure (.has (← n.toNat?) (← parseList bs))
  | ["canhave", n, bs] => do pure (.canHave (← n.toNat?) (← parseList bs))
  | ["visible", b, n] => do pure (.visible (← b.toNat?) (← n.toNat?))
  | ["filter", v, n, s] => do pure (.filter (← v.toNat?) (← n.toNat?) ((← s.toNat?) != 0))
  | ["bindings", v, n] => do pure (.prune (← v.toNat?) (← parseOpt n))
  | _ => none

def parseOp : List String → Option Op
  | ["node"] => some (.newNode none)
  | ["node", c] => do pure (.newNode (← parseOpt c))
  | ["connect_new", a] => do pure (.connectNew (← a.toNat?) none)
  | ["connect_new", a, c] => do pure (.connectNew (← a.toNat?) (← parseOpt c))
  | ["connect", a, b] => do pure (.connectTo (← a.toNat?) (← b.toNat?))
  | ["var"] => some .newVar
  | ["var_with", w, ss, ds] => do pure (.newVarWith (← parseList ds) (← parseList ss) (← w.toNat?))
  | ["bind", v, d, ss, w] => do pure (.addBinding (← v.toNat?) (← d.toNat?) (some (← parseList ss, ← w.toNat?)))
  | ["bind0", v, d] => do pure (.addBinding (← v.toNat?) (← d.toNat?) none)
  | ["origin", b, w, ss] => do pure (.addOrigin (← b.toNat?) (← w.toNat?) (← parseList ss))
  | ["paste", v, b, w, ss] => do pure (.pasteBinding (← v.toNat?) (← b.toNat?) (← parseOpt w) (← parseList ss))
  | ["paste_var", v, v2, w, ss] => do pure (.pasteVariable (← v.toNat?) (← v2.toNat?) (← parseOpt w) (← parseList ss))
  | ["paste_new_data", v, b, d] => do pure (.pasteNewData (← v.toNat?) (← b.toNat?) (← d.toNat?))
  | ["assign", b, w] => do pure (.assignBinding (← b.toNat?) (← parseOpt w))
  | ["assign_var", v, w] => do pure (.assignVar (← v.toNat?) (← parseOpt w))
  | ["setcond", n, c] => do pure (.setCond (← n.toNat?) (← parseOpt c))
  | "query" :: rest => (parseQuery rest).map .query
  | _ => none

def showAnswer : Answer → String
  | .bool b => if b then "1" else "0"
  | .ids l => "[" ++ ",".intercalate (l.map toString) ++ "]"

def stepLine (s : PState) (line : String) : PState × Option String :=
  match (line.splitOn " ").filter (· ≠ "") with
  | "reset" :: addrs =>
    match addrs.mapM String.toNat? with
    | some a => (PState.init a, none)
    | none => (s, some "bad-op")
  | ["memo"] => (s, some (if s.memo.isSome then "1" else "0"))
  | ["query", "stats"] => (s, some s!"{s.epochs} {s.lastSize}")
  | "cold" :: rest =>
    match parseQuery rest with
    | some q => if q.ok s then (s, some (showAnswer (coldAnswer s.g q))) else (s, some "bad-op")
    | none => (s, some "bad-op")
  | ws =>
    match parseOp ws with
    | some (.query q) =>
      if q.ok s then
        let (a, s') := s.ask q
        (s', some (showAnswer a))
      else (s, some "bad-op")
    | some op => if op.ok s then (s.step op, none) else (s, some "bad-op")
    | none => (s, some "bad-op")

end Driver.TG
