/-! Minimal s-expression reader shared by drivers: atoms are maximal runs of non-space, non-paren
characters. -/
namespace Driver

inductive Sexp
  | atom (s : String)
  | list (xs : List Sexp)
  deriving Repr, Inhabited

def tokenize (s : String) : List String :=
  let rec go (cs : List Char) (cur : List Char) (acc : List String) : List String :=
    match cs with
    | [] => (if cur.isEmpty then acc else String.ofList cur.reverse :: acc).reverse
    | c :: rest =>
      if c == '(' || c == ')' then
        let acc := if cur.isEmpty then acc else String.ofList cur.reverse :: acc
        go rest [] (String.singleton c :: acc)
      else if c == ' ' || c == '\t' then
        let acc := if cur.isEmpty then acc else String.ofList cur.reverse :: acc
        go rest [] acc
      else go rest (c :: cur) acc
  go s.toList [] []

/-- parses one expression from the token stream; returns it and the rest -/
partial def parseOne : List String → Option (Sexp × List String)
  | [] => none
  | "(" :: rest => parseList rest []
  | ")" :: _ => none
  | t :: rest => some (.atom t, rest)
where
  parseList : List String → List Sexp → Option (Sexp × List String)
    | [], _ => none
    | ")" :: rest, acc => some (.list acc.reverse, rest)
    | toks, acc =>
      match parseOne toks with
      | some (e, rest) => parseList rest (e :: acc)
      | none => none

def parseAll (s : String) : Option (List Sexp) :=
  let rec go (fuel : Nat) (toks : List String) (acc : List Sexp) : Option (List Sexp) :=
    match fuel, toks with
    | _, [] => some acc.reverse
    | 0, _ => none
    | fuel + 1, toks =>
      match parseOne toks with
      | some (e, rest) => go fuel rest (e :: acc)
      | none => none
  let toks := tokenize s
  go (toks.length + 1) toks []

end Driver
