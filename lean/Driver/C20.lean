import Driver.Loop
import PytypeModel.Merge.MergePyi
import PytypeModel.Merge.Entry
open PytypeModel.Merge

/-! protocol (one case per line, whitespace-separated tokens; strings are percent-encoded by the
harness and prefixed with `$` so that the empty string is a token):

  `merge <n> stmt*n <m> stmt*m`            (program, stub)

  Ann    := n $s | d $mod $s | s Ann Ann | t Ann Ann | b Ann Ann | l Ann | c $s | q $s
  OptAnn := - | + Ann          OptTok := - | + $tok
  Param  := $name kind OptAnn OptTok        kind := po | p | st | kw | ss
  Target := n $s | d $s | t k (- | + $s)*k | o $tok
  Stmt   := F $name k $deco*k m Param*m OptAnn j Stmt*j
          | C $name k $deco*k m Ann*m j Stmt*j
          | AA Target Ann OptTok | AS k Target*k $tok (0|1) | O $tok | B $hdr j Stmt*j
          | IF $mod k $name*k | IM $mod

answer: `err invalid-identifier` or
  `ok I k (mod name)*k D k (name Ann)*k T k name*k K k name*k G leaked scopeTop generic stubOK noDottedAny | body…`
where body is the preorder list of `F $name OptAnn m OptAnn*m`, `C $name m Ann*m`, `A Target Ann v|n`, `S`. -/

namespace C20

abbrev P (α : Type) := List String → Option (α × List String)

def str : P String
  | t :: r => if t.startsWith "$" then some ((t.drop 1).toString, r) else none
  | [] => none

def nat : P Nat
  | t :: r => t.toNat?.map (·, r)
  | [] => none

partial def many {α : Type} (p : P α) : Nat → P (List α)
  | 0, ts => some ([], ts)
  | n + 1, ts => do
    let (x, ts) ← p ts
    let (xs, ts) ← many p n ts
    pure (x :: xs, ts)

def counted {α : Type} (p : P α) : P (List α) := fun ts => do
  let (n, ts) ← nat ts
  many p n ts

partial def ann : P Ann
  | "n" :: ts => do let (s, ts) ← str ts; pure (.name s, ts)
  | "d" :: ts => do let (m, ts) ← str ts; let (s, ts) ← str ts; pure (.dotted m s, ts)
  | "s" :: ts => do let (a, ts) ← ann ts; let (b, ts) ← ann ts; pure (.sub a b, ts)
  | "t" :: ts => do let (a, ts) ← ann ts; let (b, ts) ← ann ts; pure (.tup a b, ts)
  | "b" :: ts => do let (a, ts) ← ann ts; let (b, ts) ← ann ts; pure (.bor a b, ts)
  | "l" :: ts => do let (a, ts) ← ann ts; pure (.lst a, ts)
  | "c" :: ts => do let (s, ts) ← str ts; pure (.const s, ts)
  | "q" :: ts => do let (s, ts) ← str ts; pure (.str s, ts)
  | _ => none

def opt {α : Type} (p : P α) : P (Option α)
  | "-" :: ts => some (none, ts)
  | "+" :: ts => do let (x, ts) ← p ts; pure (some x, ts)
  | _ => none

def kind : P PKind
  | "po" :: ts => some (.posonly, ts)
  | "p" :: ts => some (.pos, ts)
  | "st" :: ts => some (.star, ts)
  | "kw" :: ts => some (.kwonly, ts)
  | "ss" :: ts => some (.starstar, ts)
  | _ => none

def param : P Param := fun ts => do
  let (n, ts) ← str ts
  let (k, ts) ← kind ts
  let (a, ts) ← opt ann ts
  let (d, ts) ← opt str ts
  pure ({ name := n, ann := a, dflt := d, kind := k }, ts)

def target : P Target
  | "n" :: ts => do let (s, ts) ← str ts; pure (.name s, ts)
  | "d" :: ts => do let (s, ts) ← str ts; pure (.dotted s, ts)
  | "t" :: ts => do let (es, ts) ← counted (opt str) ts; pure (.tuple es, ts)
  | "o" :: ts => do let (s, ts) ← str ts; pure (.opaque s, ts)
  | _ => none

partial def stmt : P Stmt
  | "F" :: ts => do
    let (n, ts) ← str ts
    let (ds, ts) ← counted str ts
    let (ps, ts) ← counted param ts
    let (r, ts) ← opt ann ts
    let (b, ts) ← counted stmt ts
    pure (.funcDef n ds ps r b, ts)
  | "C" :: ts => do
    let (n, ts) ← str ts
    let (ds, ts) ← counted str ts
    let (bs, ts) ← counted ann ts
    let (b, ts) ← counted stmt ts
    pure (.classDef n ds bs b, ts)
  | "AA" :: ts => do
    let (t, ts) ← target ts
    let (a, ts) ← ann ts
    let (v, ts) ← opt str ts
    pure (.annAssign t a v, ts)
  | "AS" :: ts => do
    let (tg, ts) ← counted target ts
    let (v, ts) ← str ts
    match ts with
    | "0" :: ts => pure (.assign tg v false, ts)
    | "1" :: ts => pure (.assign tg v true, ts)
    | _ => none
  | "O" :: ts => do let (s, ts) ← str ts; pure (.other s, ts)
  | "B" :: ts => do
    let (h, ts) ← str ts
    let (b, ts) ← counted stmt ts
    pure (.block h b, ts)
  | "IF" :: ts => do
    let (m, ts) ← str ts
    let (ns, ts) ← counted str ts
    pure (.importFrom m ns, ts)
  | "IM" :: ts => do let (m, ts) ← str ts; pure (.importMod m, ts)
  | _ => none

partial def showAnn : Ann → List String
  | .name s => ["n", "$" ++ s]
  | .dotted m s => ["d", "$" ++ m, "$" ++ s]
  | .sub a b => "s" :: (showAnn a ++ showAnn b)
  | .tup a b => "t" :: (showAnn a ++ showAnn b)
  | .bor a b => "b" :: (showAnn a ++ showAnn b)
  | .lst a => "l" :: showAnn a
  | .const s => ["c", "$" ++ s]
  | .str s => ["q", "$" ++ s]

def showOptAnn : Option Ann → List String
  | none => ["-"]
  | some a => "+" :: showAnn a

def showTarget : Target → List String
  | .name s => ["n", "$" ++ s]
  | .dotted s => ["d", "$" ++ s]
  | .tuple es => "t" :: toString es.length :: es.flatMap fun e =>
      match e with
      | none => ["-"]
      | some s => ["+", "$" ++ s]
  | .opaque s => ["o", "$" ++ s]

partial def flat : Stmt → List String
  | .funcDef n _ ps r b =>
    ["F", "$" ++ n] ++ showOptAnn r ++ [toString ps.length] ++ ps.flatMap (fun p => showOptAnn p.ann)
      ++ b.flatMap flat
  | .classDef n _ bs b => ["C", "$" ++ n, toString bs.length] ++ bs.flatMap showAnn ++ b.flatMap flat
  | .annAssign t a v => ["A"] ++ showTarget t ++ showAnn a ++ [if v.isSome then "v" else "n"]
  | .assign _ _ _ => ["S"]
  | .block _ b => b.flatMap flat
  | _ => []

def stmtName : Stmt → String
  | .classDef n _ _ _ => n
  | .assign (t :: _) _ _ => (t.fullName.getD "?")
  | _ => "?"

def bit (b : Bool) : String := if b then "1" else "0"

def answer (py pyi : List Stmt) : String :=
  match merge py pyi with
  | .error .invalidIdentifier => "err invalid-identifier"
  | .ok m =>
    " ".intercalate (
      ["ok", "I", toString m.imports.length] ++ m.imports.flatMap (fun p => ["$" ++ p.1, "$" ++ p.2]) ++
      ["D", toString m.decls.length] ++ m.decls.flatMap (fun d => ("$" ++ d.1) :: showAnn d.2) ++
      ["T", toString m.typevars.length] ++ m.typevars.map (fun s => "$" ++ stmtName s) ++
      ["K", toString m.classes.length] ++ m.classes.map (fun s => "$" ++ stmtName s) ++
      ["G", bit m.leaked, bit m.scopeTop, bit m.genericAdded, bit (stubOK (mkCtx py pyi) pyi),
       bit (noDottedAny pyi), "|"] ++ m.body.flatMap flat)

/-! `entry src|files <p|d|o> <backup> <changed 0/1>` and `entry main <--diff 0/1> <-i 0/1> <backup> <changed 0/1>`
(backup: `-` = None, `EMPTY` = "", else the extension) on the symbolic disk {PY ↦ orig, PYI ↦ stub} with
`merge_sources` returning `merged` (changed = 1) or `orig` (changed = 0)
→ `err <noSuchFile|mergeError|usage>` | `ok <changed 0/1> <stdout: - | text:<t> | diff> <path=text;…>` -/
def disk : Entry.FS := [("PY", "orig"), ("PYI", "stub")]
def mergeFn (changed : String) : String → String → Option String :=
  fun py _ => some (if changed == "1" then "merged" else py)
def modeOf : String → Option Entry.Mode
  | "p" => some .print | "d" => some .diff | "o" => some .overwrite | _ => none
def backupOf : String → Option String
  | "-" => none | "EMPTY" => some "" | b => some b
def showEntry : Except Entry.Err Entry.Out → String
  | .error .noSuchFile => "err noSuchFile"
  | .error .mergeError => "err mergeError"
  | .error .usage => "err usage"
  | .ok o =>
    let so := match o.stdout with
      | [] => "-"
      | [.text t] => "text:" ++ t
      | _ => "diff"
    s!"ok {if o.changed then 1 else 0} {so} {";".intercalate (o.fs.map fun (p, t) => p ++ "=" ++ t)}"

def step (_ : Unit) (line : String) : Unit × Option String :=
  match (line.splitOn " ").filter (· ≠ "") with
  | "merge" :: ts =>
    match (do
      let (py, ts) ← counted stmt ts
      let (pyi, ts) ← counted stmt ts
      if ts.isEmpty then pure (py, pyi) else none) with
    | some (py, pyi) => ((), some (answer py pyi))
    | none => ((), some "bad-input")
  | ["entry", "src", mode, backup, changed] =>
    match modeOf mode with
    | some m => ((), some (showEntry (Entry.mergeFilesSrc (mergeFn changed) disk "PY" "stub" m (backupOf backup))))
    | none => ((), some "bad-input")
  | ["entry", "files", mode, backup, changed] =>
    match modeOf mode with
    | some m => ((), some (showEntry (Entry.mergeFiles (mergeFn changed) disk "PY" "PYI" m (backupOf backup))))
    | none => ((), some "bad-input")
  | ["entry", "main", d, i, backup, changed] =>
    ((), some (showEntry (Entry.main (mergeFn changed) disk (d == "1") (i == "1") (backupOf backup) "PY" "PYI")))
  | _ => ((), some "bad-op")

end C20

def main : IO Unit := Driver.run () C20.step
