/-! Generic line-protocol loop for the model drivers: one input line → zero or one output line. -/
namespace Driver

partial def loop {σ : Type} (step : σ → String → σ × Option String) (h : IO.FS.Stream)
    (out : IO.FS.Stream) (s : σ) : IO Unit := do
  let line ← h.getLine
  if line.isEmpty then return ()
  let l := (line.dropRightWhile (fun c => c == '\n' || c == '\r'))
  let (s', o) := step s l
  match o with
  | some t => out.putStrLn t
  | none => pure ()
  loop step h out s'

def run {σ : Type} (init : σ) (step : σ → String → σ × Option String) : IO Unit := do
  let stdin ← IO.getStdin
  let stdout ← IO.getStdout
  loop step stdin stdout init
  stdout.flush

def nats (ws : List String) : Option (List Nat) := ws.mapM String.toNat?

end Driver
