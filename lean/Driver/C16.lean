import Driver.Loop
import PytypeModel.Blocks.Order
import PytypeModel.Blocks.WF
import PytypeModel.Blocks.SetupExcept
open PytypeModel.Blocks
open PytypeModel.Generated.OpcodeTable

/-! protocol (all numbers decimal, space separated; offsets are doubled by the harness):

* `names`                                  → the class names of the generated table, in row order
* `P ver withPop n m  (off cls argval pre+1 pushExc)×n  (start target)×m`
     → `ok|<ops>|<blocks>|<order>|<premises>` or `err <stage> <PythonException>`
       ops:    `idx:next:prev:target:blockTarget:eaft` (`-` = None), after the surgery's retargeting
       blocks: `id:code,code,…>out,out,…` (the list handed to order_nodes; out sorted, distinct)
       order:  block ids
       premises: `k=v` pairs evaluated by the model's decidable WF predicates
* `ON n id×n m (from to)×m`               → `ok id …` / `err <PythonException>`        (cfg_utils.order_nodes)
* `CP n id×n m (from to)×m`               → `ok id:p,p,…;…` (sorted) / `err …`           (compute_predecessors)
-/

def optS : Option Nat → String
  | none => "-"
  | some n => toString n

def sortNat (l : List Nat) : List Nat := (l.toArray.qsort (· < ·)).toList

def dedupSorted : List Nat → List Nat
  | a :: b :: rest => if a == b then dedupSorted (b :: rest) else a :: dedupSorted (b :: rest)
  | l => l

def natsS (l : List Nat) (sep : String) : String := sep.intercalate (l.map toString)

def stageS : Stage → String
  | .build => "build" | .popBlock => "pop" | .order => "order"

def parseRaw : Nat → List Nat → Option (List RawOp × List Nat)
  | 0, l => some ([], l)
  | n + 1, off :: cls :: argval :: pre :: push :: rest =>
    match parseRaw n rest with
    | some (rs, l) =>
      some ({ off := off, cls := cls, argval := argval, pre := if pre == 0 then none else some (pre - 1),
              pushExc := push != 0 } :: rs, l)
    | none => none
  | _, _ => none

def parsePairs : Nat → List Nat → Option (List (Nat × Nat) × List Nat)
  | 0, l => some ([], l)
  | n + 1, a :: b :: rest =>
    match parsePairs n rest with
    | some (ps, l) => some ((a, b) :: ps, l)
    | none => none
  | _, _ => none

def showResult (r : OrderedOut) : String :=
  let opsS := " ".intercalate (r.ops.toList.map fun o =>
    s!"{o.idx}:{optS o.next}:{optS o.prev}:{optS o.target}:{optS o.blockTarget}:{optS o.eaft}")
  let blocksS := " ".intercalate (r.blocks.map fun b =>
    s!"{b.id}:{natsS b.code ","}>{natsS (dedupSorted (sortNat (outOf r.edges b.id))) ","}")
  s!"ok|{opsS}|{blocksS}|{natsS r.order " "}"

def runP (ws : List Nat) : String :=
  match ws with
  | ver :: withPop :: n :: m :: rest =>
    match parseRaw n rest with
    | none => "bad-op"
    | some (raw, rest2) =>
      match parsePairs m rest2 with
      | none => "bad-op"
      | some (entries, _) =>
        let prem := premisesLine ver raw entries (withPop != 0)
        match orderCode ver raw entries (withPop != 0) with
        | .error (st, e) => s!"err {stageS st} {e.toString}|{prem}"
        | .ok r => showResult r ++ "|" ++ prem
  | _ => "bad-op"

def parseGraph (ws : List Nat) : Option (List Nat × List (Nat × Nat)) :=
  match ws with
  | n :: rest =>
    let ids := rest.take n
    match rest.drop n with
    | m :: rest2 =>
      match parsePairs m rest2 with
      | some (es, _) => if ids.length == n then some (ids, es) else none
      | none => none
    | [] => none
  | [] => none

/-! `X n m (off cls argval line)×n (start stop target lasti)×m` (byte offsets)
     → `ok off:cls:argval:pre:push:pop …|evenOffs=… stopsOnOps=… startsPos=…` (doubled offsets) or `err <PythonException>|…`
   (opcodes._add_setup_except followed by sorted(offset_to_op.items())) -/
def parsePre : Nat → List Nat → Option (List PreOp × List Nat)
  | 0, l => some ([], l)
  | n + 1, off :: cls :: argval :: line :: rest =>
    match parsePre n rest with
    | some (rs, l) => some ({ off := off, cls := cls, argval := argval, line := line } :: rs, l)
    | none => none
  | _, _ => none

def parseEntries : Nat → List Nat → Option (List ExcEntry × List Nat)
  | 0, l => some ([], l)
  | n + 1, a :: b :: c :: d :: rest =>
    match parseEntries n rest with
    | some (rs, l) => some ({ start := a, stop := b, target := c, lasti := d != 0 } :: rs, l)
    | none => none
  | _, _ => none


def runX (ws : List Nat) : String :=
  match ws with
  | n :: m :: rest =>
    match parsePre n rest with
    | none => "bad-op"
    | some (ops, rest2) =>
      match parseEntries m rest2 with
      | none => "bad-op"
      | some (entries, _) =>
        let prem := s!"evenOffs={b01 (evenOffs ops)} stopsOnOps={b01 (stopsOnOps ops entries)} startsPos={b01 (startsPos ops entries)} endsFresh={b01 (endsFresh ops entries)}"
        match addSetupExcept ops entries with
        | .error e => s!"err {e.toString}|{prem}"
        | .ok xs =>
          "ok " ++ " ".intercalate (xs.map fun x =>
            s!"{x.off}:{x.cls}:{x.argval}:{optS x.pre}:{b01 x.push}:{b01 x.pop}") ++ "|" ++ prem
  | _ => "bad-op"

def stepC16 (_ : Unit) (line : String) : Unit × Option String :=
  match line.splitOn " " with
  | ["names"] => ((), some (" ".intercalate (table.map (·.name))))
  | "P" :: ws =>
    match Driver.nats ws with
    | some ns => ((), some (runP ns))
    | none => ((), some "bad-op")
  | "X" :: ws =>
    match Driver.nats ws with
    | some ns => ((), some (runX ns))
    | none => ((), some "bad-op")
  | "ON" :: ws =>
    match (Driver.nats ws).bind parseGraph with
    | some (ids, es) =>
      match orderNodes ids (outOf es) with
      | .ok o => ((), some ("ok " ++ natsS o " "))
      | .error e => ((), some ("err " ++ e.toString))
    | none => ((), some "bad-op")
  | "CP" :: ws =>
    match (Driver.nats ws).bind parseGraph with
    | some (ids, es) =>
      match computePredecessors ids (outOf es) with
      | .ok pm => ((), some ("ok " ++ ";".intercalate (pm.map fun kv => s!"{kv.1}:{natsS (sortNat kv.2) ","}")))
      | .error e => ((), some ("err " ++ e.toString))
    | none => ((), some "bad-op")
  | _ => ((), some "bad-op")

def main : IO Unit := Driver.run () stepC16
