import Driver.Loop
import PytypeModel.Bool.BlockState
open PytypeModel.Flow

/-! Line protocol of the C18 driver (fields separated by ` | `, tokens by blanks).

Conditions are written in postfix: `T` `F` `a<i>` `N` (Not) `A<k>` / `O<k>` (And / Or applied to the
top `k` stack entries, in argument order).

* `reset`
* `cond <rpn>`                              → canonical condition
* `vwc <rpn> | <name or -> | v rpn | v rpn …`  → `Variable(bindings, name).with_condition(c)`
* `new <rpn> | x v | y w …`                 → pushes `BlockState({x: from_value(v), …}, condition=c)`; prints it
* `sv i x v`                                → `R[i].store_local(x, from_value(v))`; prints `R[i]`
* `sl i x j y`                              → `R[i].store_local(x, R[j].load_local(y))`; prints `R[i]` or `keyerror`
* `sb i x | <name or -> | v rpn | …`        → `R[i].store_local(x, Variable(bindings, name))`; prints `R[i]`
* `wc i <rpn>`                              → pushes `R[i].with_condition(c)`; prints it
* `mg i j` / `mn i`                         → pushes `R[i].merge_into(R[j])` / `merge_into(None)`; prints it
* `ld i x`                                  → prints `R[i].load_local(x)` or `keyerror`
* `gl i`                                    → prints `R[i].get_locals()`
* `dump`                                    → all registers, joined by ` ;; `
* `pop`                                     → forgets the last register (harness bookkeeping only)
* `! <line>`                                → executes `<line>` silently
Anything malformed or out of range prints `bad-op`. -/

def takeLast (k : Nat) (st : List Cond) : Option (List Cond × List Cond) :=
  if k ≤ st.length then some ((st.take k).reverse, st.drop k) else none

/-- one postfix token; the stack is kept with the top first -/
def rpnStep (st : Option (List Cond)) (tok : String) : Option (List Cond) :=
  st.bind fun st =>
    if tok == "T" then some (Cond.tt :: st)
    else if tok == "F" then some (Cond.ff :: st)
    else if tok == "N" then
      match st with
      | c :: rest => some (mkNot c :: rest)
      | [] => none
    else
      match tok.toList with
      | 'a' :: ds => (String.ofList ds).toNat?.map fun i => Cond.atom i :: st
      | 'A' :: ds => (String.ofList ds).toNat?.bind fun k => (takeLast k st).map fun p => mkAnd p.1 :: p.2
      | 'O' :: ds => (String.ofList ds).toNat?.bind fun k => (takeLast k st).map fun p => mkOr p.1 :: p.2
      | _ => none

def parseCond (toks : List String) : Option Cond :=
  match toks.foldl rpnStep (some []) with
  | some [c] => some c
  | _ => none

def words (s : String) : List String := (s.splitOn " ").filter (· ≠ "")

def parseBinding (f : String) : Option Binding :=
  match words f with
  | v :: rest => do
    let v ← v.toNat?
    let c ← parseCond rest
    pure ⟨v, c⟩
  | [] => none

def parseVar (fields : List String) : Option Var :=
  match fields with
  | nm :: bs => do
    let bs ← bs.mapM parseBinding
    let nm := match words nm with
      | ["-"] => none
      | [n] => some n
      | _ => none
    pure ⟨bs, nm⟩
  | [] => none

def parsePair (f : String) : Option (String × Val) :=
  match words f with
  | [x, v] => v.toNat?.map fun v => (x, v)
  | _ => none

def canonLocals (ls : List (String × Var)) : String :=
  "{" ++ ";".intercalate (sortStrings (ls.map fun p => p.1 ++ "=" ++ p.2.canon)) ++ "}"

def pushed (m m' : List BState) : List BState × Option String :=
  if m'.length = m.length + 1 then
    (m', some (match m'.getLast? with | some s => s.canon | none => "bad-op"))
  else (m, some "bad-op")

def shown (m' : List BState) (i : Nat) : List BState × Option String :=
  (m', some (match m'[i]? with | some s => s.canon | none => "bad-op"))

def stepLine (m : List BState) (line : String) : List BState × Option String :=
  let fields := line.splitOn " | "
  let bad : List BState × Option String := (m, some "bad-op")
  match fields with
  | [] => bad
  | f0 :: rest =>
    match words f0, rest with
    | ["reset"], [] => ([], none)
    | "cond" :: toks, [] =>
      match parseCond toks with
      | some c => (m, some c.canon)
      | none => bad
    | "vwc" :: toks, vf =>
      match parseCond toks, parseVar vf with
      | some c, some v => (m, some (v.withCondition c).canon)
      | _, _ => bad
    | "new" :: toks, pf =>
      match parseCond toks, pf.mapM parsePair with
      | some c, some ls => pushed m (step m (.new ls c))
      | _, _ => bad
    | ["sv", i, x, v], [] =>
      match i.toNat?, v.toNat? with
      | some i, some v => if i < m.length then shown (step m (.storeVal i x v)) i else bad
      | _, _ => bad
    | ["sl", i, x, j, y], [] =>
      match i.toNat?, j.toNat? with
      | some i, some j =>
        match m[i]?, m[j]? with
        | some _, some t =>
          match t.loadLocal y with
          | some _ => shown (step m (.storeLoad i x j y)) i
          | none => (m, some "keyerror")
        | _, _ => bad
      | _, _ => bad
    | ["sb", i, x], vf =>
      match i.toNat?, parseVar vf with
      | some i, some var => if i < m.length then shown (step m (.storeVar i x var)) i else bad
      | _, _ => bad
    | "wc" :: i :: toks, [] =>
      match i.toNat?, parseCond toks with
      | some i, some c => pushed m (step m (.withCond i c))
      | _, _ => bad
    | ["mg", i, j], [] =>
      match i.toNat?, j.toNat? with
      | some i, some j => pushed m (step m (.merge i j))
      | _, _ => bad
    | ["mn", i], [] =>
      match i.toNat? with
      | some i => pushed m (step m (.mergeNone i))
      | none => bad
    | ["ld", i, x], [] =>
      match i.toNat?.bind (m[·]?) with
      | some s =>
        match s.loadLocal x with
        | some v => (m, some v.canon)
        | none => (m, some "keyerror")
      | none => bad
    | ["gl", i], [] =>
      match i.toNat?.bind (m[·]?) with
      | some s => (m, some (canonLocals s.getLocals))
      | none => bad
    | ["dump"], [] => (m, some (" ;; ".intercalate (m.map BState.canon)))
    | ["pop"], [] => (m.dropLast, none)
    | _, _ => bad

def stepC18 (m : List BState) (line : String) : List BState × Option String :=
  match line.toList with
  | '!' :: ' ' :: rest => ((stepLine m (String.ofList rest)).1, none)
  | _ => stepLine m line

def main : IO Unit := Driver.run ([] : List BState) stepC18
