import Driver.Loop
import Std.Data.HashMap
import PytypeModel.Pytd.Canon
import PytypeModel.Errors.ErrorLog
open PytypeModel.Pytd PytypeModel.Pytd.Canon PytypeModel.Errors

/-! Line protocol of the C04 driver.  A node is a space-separated prefix token stream (see `harness/c04.py`
`enc_*`, the same encoder is used on the real nodes).  Strings are tokens `'<text>` with `%XX` escapes.

* `CLR`                          forget all keys
* `KEY <kind> <rank> <node>`     the real sort key of `<node>` has rank `<rank>` among the keys of its kind
                                 (kinds: ty const func cls alias tparam titem deco slot)
* `CANON <unit>`  → `OK <flat> <tiesFree> <unit>` canonical ordering with the table keys (`natOrd`),
                    or `MISSING <kind> <node>` when the model compared a node the real visitor never had
* `SCANON <unit>` → the same with the built-in structural key (`pkeys`, `lexOrd`)
* `ERRS <n> <err>*n` → `OK <repKeyOK> <sorted> <k> <err>*k`  (`unique_sorted_errors`) -/

namespace C04

def hexVal (c : Char) : Nat :=
  if c.isDigit then c.toNat - '0'.toNat
  else if 'A' ≤ c ∧ c ≤ 'F' then c.toNat - 'A'.toNat + 10
  else if 'a' ≤ c ∧ c ≤ 'f' then c.toNat - 'a'.toNat + 10 else 0

partial def unesc : List Char → List Char
  | '%' :: a :: b :: rest => Char.ofNat (hexVal a * 16 + hexVal b) :: unesc rest
  | c :: rest => c :: unesc rest
  | [] => []

/-- `'text` → text -/
def decStr (tok : String) : String := String.ofList (unesc (tok.toList.drop 1))

def escChar (c : Char) : List Char :=
  if c == ' ' || c == '%' || c == '\n' || c == '\r' || c == '\t' || c.toNat < 32 || c.toNat == 127 then
    let n := c.toNat
    let hd (k : Nat) : Char := if k < 10 then Char.ofNat (k + 48) else Char.ofNat (k - 10 + 65)
    ['%', hd (n / 16), hd (n % 16)]
  else [c]

def encStr (s : String) : String := String.ofList ('\'' :: s.toList.flatMap escChar)

abbrev P (α : Type) := List String → Option (α × List String)

def pStr : P String
  | t :: rest => some (decStr t, rest)
  | [] => none
def pNat : P Nat
  | t :: rest => t.toNat?.map (·, rest)
  | [] => none
def pOptStr : P (Option String)
  | "-" :: rest => some (none, rest)
  | t :: rest => some (some (decStr t), rest)
  | [] => none

partial def pMany {α : Type} (p : P α) : Nat → P (List α)
  | 0, ts => some ([], ts)
  | n + 1, ts => do
    let (a, ts) ← p ts
    let (as, ts) ← pMany p n ts
    pure (a :: as, ts)

def pList {α : Type} (p : P α) : P (List α) := fun ts => do
  let (n, ts) ← pNat ts
  pMany p n ts

def pOpt {α : Type} (p : P α) : P (Option α)
  | "-" :: rest => some (none, rest)
  | "+" :: rest => (p rest).map fun (a, r) => (some a, r)
  | _ => none

def pLit : P Lit
  | "i" :: t :: rest => t.toInt?.map fun i => (Lit.int i, rest)
  | "s" :: t :: rest => some (.str (decStr t), rest)
  | "b" :: t :: rest => some (.bool (t == "1"), rest)
  | "e" :: c :: n :: rest => some (.enumMember (decStr c) (decStr n), rest)
  | _ => none

partial def pTy : P Ty
  | "A" :: rest => some (.any, rest)
  | "N" :: rest => some (.nothing, rest)
  | "n" :: t :: rest => some (.named (decStr t), rest)
  | "c" :: t :: rest => some (.cls (decStr t), rest)
  | "l" :: t :: rest => some (.late (decStr t), rest)
  | "p" :: t :: rest => do
    let (sc, rest) ← pOptStr rest
    pure (.typeParam (decStr t) sc, rest)
  | "g" :: rest => do
    let (b, rest) ← pTy rest
    let (ps, rest) ← pList pTy rest
    pure (.generic b ps, rest)
  | "t" :: rest => do
    let (b, rest) ← pTy rest
    let (ps, rest) ← pList pTy rest
    pure (.tuple b ps, rest)
  | "C" :: rest => do
    let (b, rest) ← pTy rest
    let (ps, rest) ← pList pTy rest
    pure (.callable b ps, rest)
  | "u" :: rest => do
    let (ts, rest) ← pList pTy rest
    pure (.union ts, rest)
  | "L" :: rest => do
    let (v, rest) ← pLit rest
    pure (.literal v, rest)
  | "a" :: rest => do
    let (t, rest) ← pTy rest
    let (as, rest) ← pList pStr rest
    pure (.annotated t as, rest)
  | _ => none

def pTD : P TypeParamDecl := fun ts => do
  let (name, ts) ← pStr ts
  let (cs, ts) ← pList pTy ts
  let (b, ts) ← pOpt pTy ts
  let (sc, ts) ← pOptStr ts
  pure ({ name := name, constraints := cs, bound := b, scope := sc }, ts)

def pKind : P ParamKind
  | "po" :: rest => some (.posOnly, rest)
  | "re" :: rest => some (.regular, rest)
  | "kw" :: rest => some (.kwOnly, rest)
  | _ => none

def pBool : P Bool
  | "1" :: rest => some (true, rest)
  | "0" :: rest => some (false, rest)
  | _ => none

def pParam : P Param := fun ts => do
  let (name, ts) ← pStr ts
  let (ty, ts) ← pTy ts
  let (k, ts) ← pKind ts
  let (o, ts) ← pBool ts
  let (m, ts) ← pOpt pTy ts
  pure ({ name := name, ty := ty, kind := k, optional := o, mutated := m }, ts)

def pSig : P Sig := fun ts => do
  let (ps, ts) ← pList pParam ts
  let (sa, ts) ← pOpt pParam ts
  let (ssa, ts) ← pOpt pParam ts
  let (ret, ts) ← pTy ts
  let (ex, ts) ← pList pTy ts
  let (tm, ts) ← pList pTD ts
  pure ({ params := ps, starargs := sa, starstarargs := ssa, ret := ret, exceptions := ex, template := tm }, ts)

def pMKind : P MethodKind
  | "m" :: rest => some (.method, rest)
  | "s" :: rest => some (.staticmethod, rest)
  | "c" :: rest => some (.classmethod, rest)
  | "p" :: rest => some (.property, rest)
  | _ => none

def pFunc : P Func := fun ts => do
  let (name, ts) ← pStr ts
  let (sigs, ts) ← pList pSig ts
  let (k, ts) ← pMKind ts
  let (ab, ts) ← pBool ts
  let (co, ts) ← pBool ts
  let (fi, ts) ← pBool ts
  let (de, ts) ← pList pStr ts
  pure ({ name := name, sigs := sigs, kind := k, abstract := ab, coroutine := co, final := fi, decorators := de }, ts)

def pConst : P Const := fun ts => do
  let (name, ts) ← pStr ts
  let (ty, ts) ← pTy ts
  let (v, ts) ← pOpt pLit ts
  pure ({ name := name, ty := ty, value := v }, ts)

def pAlias : P Alias := fun ts => do
  let (name, ts) ← pStr ts
  let (ty, ts) ← pTy ts
  pure ({ name := name, ty := ty }, ts)

def pKw : P (String × Ty) := fun ts => do
  let (k, ts) ← pStr ts
  let (ty, ts) ← pTy ts
  pure ((k, ty), ts)

partial def pClass : P Class := fun ts => do
  let (name, ts) ← pStr ts
  let (kws, ts) ← pList pKw ts
  let (bases, ts) ← pList pTy ts
  let (ms, ts) ← pList pFunc ts
  let (cs, ts) ← pList pConst ts
  let (cls, ts) ← pList pClass ts
  let (de, ts) ← pList pStr ts
  let (sl, ts) ← pOpt (pList pStr) ts
  let (tm, ts) ← pList pTD ts
  pure (.mk name kws bases ms cs cls de sl tm, ts)

def pUnit : P TUnit := fun ts => do
  let (name, ts) ← pStr ts
  let (cs, ts) ← pList pConst ts
  let (tps, ts) ← pList pTD ts
  let (cls, ts) ← pList pClass ts
  let (fs, ts) ← pList pFunc ts
  let (als, ts) ← pList pAlias ts
  pure ({ name := name, constants := cs, typeParams := tps, classes := cls, functions := fs, aliases := als }, ts)

/-! encoders (token lists) -/

def eList {α : Type} (e : α → List String) (l : List α) : List String := toString l.length :: l.flatMap e
def eOpt {α : Type} (e : α → List String) : Option α → List String
  | none => ["-"]
  | some a => "+" :: e a
def eOptStr : Option String → List String
  | none => ["-"]
  | some s => [encStr s]
def eBool (b : Bool) : List String := [if b then "1" else "0"]
def eS (s : String) : List String := [encStr s]

def eLit : Lit → List String
  | .int i => ["i", toString i]
  | .str s => ["s", encStr s]
  | .bool b => ["b", if b then "1" else "0"]
  | .enumMember c n => ["e", encStr c, encStr n]

partial def eTy : Ty → List String
  | .any => ["A"]
  | .nothing => ["N"]
  | .named n => ["n", encStr n]
  | .cls n => ["c", encStr n]
  | .late n => ["l", encStr n]
  | .typeParam n s => ["p", encStr n] ++ eOptStr s
  | .generic b ps => "g" :: eTy b ++ eList eTy ps
  | .tuple b ps => "t" :: eTy b ++ eList eTy ps
  | .callable b ps => "C" :: eTy b ++ eList eTy ps
  | .union ts => "u" :: eList eTy ts
  | .literal v => "L" :: eLit v
  | .annotated t as => "a" :: eTy t ++ eList eS as

def eTD (d : TypeParamDecl) : List String :=
  eS d.name ++ eList eTy d.constraints ++ eOpt eTy d.bound ++ eOptStr d.scope
def eKind : ParamKind → List String
  | .posOnly => ["po"] | .regular => ["re"] | .kwOnly => ["kw"]
def eParam (p : Param) : List String :=
  eS p.name ++ eTy p.ty ++ eKind p.kind ++ eBool p.optional ++ eOpt eTy p.mutated
def eSig (s : Sig) : List String :=
  eList eParam s.params ++ eOpt eParam s.starargs ++ eOpt eParam s.starstarargs ++ eTy s.ret ++
  eList eTy s.exceptions ++ eList eTD s.template
def eMKind : MethodKind → List String
  | .method => ["m"] | .staticmethod => ["s"] | .classmethod => ["c"] | .property => ["p"]
def eFunc (f : Func) : List String :=
  eS f.name ++ eList eSig f.sigs ++ eMKind f.kind ++ eBool f.abstract ++ eBool f.coroutine ++ eBool f.final ++
  eList eS f.decorators
def eConst (c : Const) : List String := eS c.name ++ eTy c.ty ++ eOpt eLit c.value
def eAlias (a : Alias) : List String := eS a.name ++ eTy a.ty
def eKw (kv : String × Ty) : List String := eS kv.1 ++ eTy kv.2
partial def eClass : Class → List String
  | .mk name kws bases ms cs cls de sl tm =>
    eS name ++ eList eKw kws ++ eList eTy bases ++ eList eFunc ms ++ eList eConst cs ++ eList eClass cls ++
    eList eS de ++ eOpt (eList eS) sl ++ eList eTD tm
def eUnit (u : TUnit) : List String :=
  eS u.name ++ eList eConst u.constants ++ eList eTD u.typeParams ++ eList eClass u.classes ++
  eList eFunc u.functions ++ eList eAlias u.aliases

def join (ts : List String) : String := " ".intercalate ts

/-! table keys -/

abbrev Table := Std.HashMap String Nat

def tkeys (t : Table) : Keys Nat where
  ty x := t.getD ("ty " ++ join (eTy x)) 0
  const x := t.getD ("const " ++ join (eConst x)) 0
  func x := t.getD ("func " ++ join (eFunc x)) 0
  cls x := t.getD ("cls " ++ join (eClass x)) 0
  alias x := t.getD ("alias " ++ join (eAlias x)) 0
  tparam x := t.getD ("tparam " ++ join (eTD x)) 0
  titem x := t.getD ("titem " ++ join (eTD x)) 0
  deco x := t.getD ("deco " ++ encStr x) 0
  slot x := t.getD ("slot " ++ encStr x) 0

/-- the nodes of the canonical output that were compared by some `sorted` (kind, encoding) -/
partial def usedTy : Ty → List String
  | .generic b ps | .tuple b ps | .callable b ps => usedTy b ++ ps.flatMap usedTy
  | .union ts => (if ts.length > 1 then ts.map (fun t => "ty " ++ join (eTy t)) else []) ++ ts.flatMap usedTy
  | .annotated t _ => usedTy t
  | _ => []
def multi {α : Type} (kind : String) (e : α → List String) (l : List α) : List String :=
  if l.length > 1 then l.map (fun x => kind ++ " " ++ join (e x)) else []
def usedTD (d : TypeParamDecl) : List String :=
  d.constraints.flatMap usedTy ++ (match d.bound with | some b => usedTy b | none => [])
def usedParam (p : Param) : List String :=
  usedTy p.ty ++ (match p.mutated with | some b => usedTy b | none => [])
def usedSig (s : Sig) : List String :=
  s.params.flatMap usedParam ++ (match s.starargs with | some p => usedParam p | none => []) ++
  (match s.starstarargs with | some p => usedParam p | none => []) ++ usedTy s.ret ++
  multi "ty" eTy s.exceptions ++ s.exceptions.flatMap usedTy ++ multi "titem" eTD s.template ++
  s.template.flatMap usedTD
def usedFunc (f : Func) : List String := f.sigs.flatMap usedSig
partial def usedClass : Class → List String
  | .mk _ kws bases ms cs cls de sl tm =>
    kws.flatMap (fun kv => usedTy kv.2) ++ bases.flatMap usedTy ++ multi "func" eFunc ms ++ ms.flatMap usedFunc ++
    (if preserveConstants de bases then [] else multi "const" eConst cs) ++ cs.flatMap (fun c => usedTy c.ty) ++
    multi "cls" eClass cls ++ cls.flatMap usedClass ++ multi "deco" eS de ++
    (match sl with | some l => multi "slot" eS l | none => []) ++ tm.flatMap usedTD
def usedUnit (u : TUnit) : List String :=
  multi "const" eConst u.constants ++ u.constants.flatMap (fun c => usedTy c.ty) ++
  multi "tparam" eTD u.typeParams ++ u.typeParams.flatMap usedTD ++
  multi "cls" eClass u.classes ++ u.classes.flatMap usedClass ++
  multi "func" eFunc u.functions ++ u.functions.flatMap usedFunc ++
  multi "alias" eAlias u.aliases ++ u.aliases.flatMap (fun a => usedTy a.ty)

/-! errors -/

def pErr : P Err := fun ts => do
  let (file, ts) ← pStr ts
  let (line, ts) ← pNat ts
  let (col, ts) ← pNat ts
  let (method, ts) ← pStr ts
  let (name, ts) ← pStr ts
  let (msg, ts) ← pStr ts
  let (det, ts) ← pOptStr ts
  let (tb, ts) ← pOptStr ts
  pure (⟨file, line, col, method, name, msg, det, tb⟩, ts)

def eErr (e : Err) : List String :=
  [encStr e.file, toString e.line, toString e.col, encStr e.method, encStr e.name, encStr e.message] ++
  eOptStr e.details ++ eOptStr e.tb

def isSortedErrs : List Err → Bool
  | a :: b :: rest => keyLe a b && isSortedErrs (b :: rest)
  | _ => true

def b01 (b : Bool) : String := if b then "1" else "0"

def step (t : Table) (line : String) : Table × Option String :=
  match line.splitOn " " with
  | ["CLR"] => ({}, none)
  | "KEY" :: kind :: rank :: node =>
    match rank.toNat? with
    | some r => (t.insert (kind ++ " " ++ join node) r, none)
    | none => (t, some "BAD-KEY")
  | "CANON" :: toks =>
    match pUnit toks with
    | some (u, []) =>
      let ks := tkeys t
      let c := canonUnit natOrd ks u
      match (usedUnit c).find? (fun k => !t.contains k) with
      | some k => (t, some ("MISSING " ++ k))
      | none => (t, some (join (["OK", b01 (flatUnit u), b01 (tiesFreeUnit natOrd ks u)] ++ eUnit c)))
    | _ => (t, some "PARSE-ERROR")
  | "SCANON" :: toks =>
    match pUnit toks with
    | some (u, []) =>
      let c := canonUnit lexOrd pkeys u
      (t, some (join (["OK", b01 (flatUnit u), b01 (tiesFreeUnit lexOrd pkeys u)] ++ eUnit c)))
    | _ => (t, some "PARSE-ERROR")
  | "ERRS" :: toks =>
    match pList pErr toks with
    | some (log, []) =>
      let out := uniqueSortedErrors log
      (t, some (join (["OK", b01 (repKeyOK log), b01 (isSortedErrs out), toString out.length] ++ out.flatMap eErr)))
    | _ => (t, some "PARSE-ERROR")
  | _ => (t, some "BAD-OP")

end C04

def main : IO Unit := Driver.run ({} : C04.Table) C04.step
