import Driver.Loop
import PytypeModel.Pytd.EqHash
import PytypeModel.Generated.PytdSchema
import PytypeModel.Pytd.UndoAliases
open PytypeModel.Pytd PytypeModel.Pytd.Generated

/-! protocol (σ = the regenerated schema):
  value syntax, space separated prefix tokens:
    `N` None | `T`/`F` bool | `I<int>` | `S<hex utf8>` | `U<n>` followed by n values (tuple/list/sorted set)
    | `D` {} | `O<hex class name>:<n>` followed by n field values in `__struct_fields__` order
  type names: `TypeU` or a class name.
  `rt <type> <value>`   → `<hex of encodeNode σ v> <WT σ ty v> <decodeNode σ ty bytes == some v>`
  `dec <type> <hex>`    → the decoded value in the syntax above, or `ERR`
  `reset` | `pool <value>` (no output)
  `eqmat`               → rows of the veq matrix over the pool, `,`-separated bit strings
  `hcls`                → space separated class numbers: equal number ⇔ equal model hash key
  `eqok`                → bit string of eqOK per pool item
-/

def hexDigit (n : Nat) : Char := if n < 10 then Char.ofNat (48 + n) else Char.ofNat (87 + n)

def hexOf (bs : List Nat) : String :=
  bs.foldl (fun s b => (s.push (hexDigit (b / 16))).push (hexDigit (b % 16))) ""

def hexVal (c : Char) : Nat :=
  if c.isDigit then c.toNat - 48 else if 'a' ≤ c ∧ c ≤ 'f' then c.toNat - 87 else 0

def unhexChars : List Char → List Nat
  | a :: b :: r => (hexVal a * 16 + hexVal b) :: unhexChars r
  | _ => []

def unhex (s : String) : List Nat := unhexChars s.toList

partial def parseVal (toks : Array String) (i : Nat) : Option (Val × Nat) :=
  if h : i < toks.size then
    let t := toks[i]
    let rest : String := (t.drop 1).toString
    match t.front with
    | 'N' => some (.none, i + 1)
    | 'T' => some (.bool true, i + 1)
    | 'F' => some (.bool false, i + 1)
    | 'D' => some (.dict0, i + 1)
    | 'I' => rest.toInt?.map fun n => (.int n, i + 1)
    | 'S' => some (.str (unhex rest), i + 1)
    | 'U' => rest.toNat?.bind fun n => (parseMany toks (i + 1) n #[]).map fun (vs, j) => (.tup vs.toList, j)
    | 'O' =>
      match rest.splitOn ":" with
      | [nm, cnt] => cnt.toNat?.bind fun n =>
        (parseMany toks (i + 1) n #[]).map fun (vs, j) => (.node (unhex nm) vs.toList, j)
      | _ => none
    | _ => none
  else none
where
  parseMany (toks : Array String) (i n : Nat) (acc : Array Val) : Option (Array Val × Nat) :=
    if n = 0 then some (acc, i)
    else match parseVal toks i with
      | some (v, j) => parseMany toks j (n - 1) (acc.push v)
      | none => none

partial def printVal (v : Val) (acc : Array String) : Array String :=
  match v with
  | .none => acc.push "N"
  | .bool true => acc.push "T"
  | .bool false => acc.push "F"
  | .int i => acc.push ("I" ++ toString i)
  | .str s => acc.push ("S" ++ hexOf s)
  | .dict0 => acc.push "D"
  | .tup xs => xs.foldl (fun a x => printVal x a) (acc.push ("U" ++ toString xs.length))
  | .node n xs =>
    xs.foldl (fun a x => printVal x a) (acc.push ("O" ++ hexOf n ++ ":" ++ toString xs.length))

def showVal (v : Val) : String := " ".intercalate (printVal v #[]).toList

def σ : Schema := generatedSchema

def tyOf (name : String) : FTy :=
  if name == "TypeU" then [.structs typeUNames] else [.structs [name.toUTF8.toList.map (·.toNat)]]

/-- an instance of the hash parameters: free terms, a set's element hashes sorted (permutation invariant) -/
def strHash : HashFns String where
  hNone := "N"
  hInt := fun i => "I" ++ toString i
  hStr := fun s => "S" ++ hexOf s
  hTup := fun l => "(" ++ ",".intercalate l ++ ")"
  hDict := "D"
  hNode := fun n l => "O" ++ hexOf n ++ "(" ++ ",".intercalate l ++ ")"
  hSet := fun l => "{" ++ ",".intercalate (l.toArray.qsort (· < ·)).toList ++ "}"

def bit (b : Bool) : Char := if b then '1' else '0'

def classIds (keys : Array String) : Array Nat := Id.run do
  let mut seen : Array String := #[]
  let mut out : Array Nat := #[]
  for k in keys do
    match seen.findIdx? (· == k) with
    | some i => out := out.push i
    | none => out := out.push seen.size; seen := seen.push k
  return out

/-! `undo <k> <hex alias name> <hex module name> ×k <hex late-type name>` → `<hex of the rewritten name> <noChain bit>`
   (names are UTF-8 dotted strings, hex encoded; serialize_ast.UndoModuleAliasesVisitor.VisitLateType) -/
def strOfHex (h : String) : String :=
  match String.fromUTF8? (ByteArray.mk ((unhex h).map (fun n => n.toUInt8)).toArray) with
  | some s => s
  | none => ""

def dotted (s : String) : Dotted := s.splitOn "."

def runUndo (toks : Array String) : String :=
  match toks[1]?.bind String.toNat? with
  | none => "bad-op"
  | some k =>
    if toks.size != 2 * k + 3 then "bad-op"
    else
      let al := (List.range k).map fun i =>
        (dotted (strOfHex (toks.getD (2 + 2 * i) "")), dotted (strOfHex (toks.getD (3 + 2 * i) "")))
      let name := dotted (strOfHex (toks.getD (2 * k + 2) ""))
      let r := ".".intercalate (undoAlias al name)
      hexOf (r.toUTF8.toList.map (·.toNat)) ++ " " ++ String.singleton (bit (noChain al))

def stepC12 (pool : Array Val) (line : String) : Array Val × Option String :=
  let toks := (line.splitOn " ").toArray
  match toks[0]? with
  | some "reset" => (#[], none)
  | some "rt" =>
    match toks[1]?, parseVal toks 2 with
    | some tn, some (v, _) =>
      let ty := tyOf tn
      let bs := encodeNode σ v
      let ok := match decodeNode σ ty bs with
        | some v' => v' == v
        | none => false
      (pool, some (hexOf bs ++ " " ++ String.singleton (bit (WT σ ty v)) ++ " " ++ String.singleton (bit ok)))
    | _, _ => (pool, some "bad-op")
  | some "dec" =>
    match toks[1]?, toks[2]? with
    | some tn, some hx =>
      match decodeNode σ (tyOf tn) (unhex hx) with
      | some v => (pool, some (showVal v))
      | none => (pool, some "ERR")
    | _, _ => (pool, some "bad-op")
  | some "pool" =>
    match parseVal toks 1 with
    | some (v, _) => (pool.push v, none)
    | none => (pool, some "bad-op")
  | some "eqmat" =>
    let rows := pool.toList.map fun a => String.ofList (pool.toList.map fun b => bit (veq σ a b))
    (pool, some (",".intercalate rows))
  | some "hcls" =>
    let ids := classIds (pool.map (vhash strHash σ))
    (pool, some (" ".intercalate (ids.toList.map toString)))
  | some "eqok" => (pool, some (String.ofList (pool.toList.map fun a => bit (eqOK σ a))))
  | some "undo" => (pool, some (runUndo toks))
  | _ => (pool, some "bad-op")

def main : IO Unit := Driver.run #[] stepC12
