import Driver.Loop
import PytypeModel.Typegraph.Reach
open PytypeModel.Reach

/-! protocol: `reset` | `n` | `c a b` | `q a b` → 0/1 | `all` → row-major bit string of is_reachable(a,b) -/
def stepC09 (p : Prog) (line : String) : Prog × Option String :=
  match line.splitOn " " with
  | ["reset"] => (Prog.empty, none)
  | ["n"] => (p.step .newNode, none)
  | ["c", a, b] =>
    match a.toNat?, b.toNat? with
    | some a, some b => if a < p.n && b < p.n then (p.step (.connect a b), none) else (p, some "bad-op")
    | _, _ => (p, some "bad-op")
  | ["q", a, b] =>
    match a.toNat?, b.toNat? with
    | some a, some b =>
      if a < p.n && b < p.n then (p, some (if p.isReachable a b then "1" else "0")) else (p, some "bad-op")
    | _, _ => (p, some "bad-op")
  | ["all"] =>
    let n := p.n
    let s := String.mk ((List.range n).flatMap fun a => (List.range n).map fun b =>
      if p.isReachable a b then '1' else '0')
    (p, some s)
  | _ => (p, some "bad-op")

def main : IO Unit := Driver.run Prog.empty stepC09
