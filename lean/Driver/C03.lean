import Driver.Loop
import PytypeModel.Director.Spec
open PytypeModel.Director

/-! line protocol of the C03 driver (strings travel as comma-separated code points, `-` = empty)

`ls reset` | `ls set l b` | `ls range l b` → ok/ValueError | `ls in max` → bits 0..max |
`ls after l` → n/None | `ls trans` → transitions

`d reset` | `d disable <name>` | `d fr s e` | `d ret l` | `d group L|C s e` | `d comment l type|pytype open <data>` |
`d build` → ok/<crash> | `d actions` → action list | `d save` (remember the action list) |
`d insok T|S <key> l1,l2,..` → 1/0 : is the current action list the saved one plus allowed actions |
`d insokc <key> l type|pytype open <data>` → 1/0 + touched lines (trailing comment c, T = touched c) | `d q <same 0/1> <opcode|-> <name> l1 l2 …` (l = N for None) →
  per line `K<line>` kept / `S<line>` suppressed / `X<crash>` -/

structure DSt where
  ls : LineSet := {}
  gd : List String := []
  frs : List (Nat × Nat) := []
  rets : List Nat := []
  groups : List Group := []        -- reversed, comments reversed
  built : Option (Except Crash Director) := none
  saved : List Action := []

def decodeStr (s : String) : Option String :=
  if s == "-" then some "" else
    (s.splitOn ",").mapM (fun (t : String) => t.toNat?.map Char.ofNat) |>.map String.ofList

def crashStr : Crash → String
  | .valueError => "ValueError"
  | .indexError => "IndexError"
  | .keyError => "KeyError"

def keyStr : Key → String
  | none => "#ignore"
  | some n => n

def actionStr : Action → String
  | .setLine k l b => s!"set({keyStr k},{l},{if b then 1 else 0})"
  | .startRange k l b => s!"range({keyStr k},{l},{if b then 1 else 0})"
  | .adjustEnd o n => s!"adj({o},{n})"

def DSt.parserOut (s : DSt) : ParserOut :=
  { groups := (s.groups.map fun g => { g with comments := g.comments.reverse }).reverse,
    functionRanges := s.frs.reverse, returnLines := s.rets.reverse }

def parseBool (s : String) : Option Bool := if s == "1" then some true else if s == "0" then some false else none
def parseTool (s : String) : Option Tool := if s == "type" then some .type else if s == "pytype" then some .pytype else none

def parseKey (s : String) : Option Key :=
  if s == "#ignore" then some none else (decodeStr s).map some

def qOne (d : Director) (same : Bool) (op name : String) (tok : String) : String :=
  let line : Option (Option Nat) := if tok == "N" then some none else tok.toNat?.map some
  match line with
  | none => "bad"
  | some l =>
    match filterError d { sameFile := same, name := name, line := l, opcode := op } with
    | .error c => "X" ++ crashStr c
    | .ok (keep, l') => (if keep then "K" else "S") ++ (match l' with | some n => toString n | none => "N")

def stepC03 (s : DSt) (line : String) : DSt × Option String :=
  match line.splitOn " " with
  | ["ls", "reset"] => ({ s with ls := {} }, none)
  | ["ls", "set", l, b] =>
    match l.toNat?, parseBool b with
    | some l, some b => ({ s with ls := s.ls.setLine l b }, none)
    | _, _ => (s, some "bad-op")
  | ["ls", "range", l, b] =>
    match l.toNat?, parseBool b with
    | some l, some b =>
      match s.ls.startRange l b with
      | .ok ls => ({ s with ls := ls }, some "ok")
      | .error c => (s, some (crashStr c))
    | _, _ => (s, some "bad-op")
  | ["ls", "in", m] =>
    match m.toNat? with
    | some m => (s, some (String.ofList ((List.range (m + 1)).map fun l => if s.ls.contains l then '1' else '0')))
    | none => (s, some "bad-op")
  | ["ls", "after", l] =>
    match l.toNat? with
    | some l => (s, some (match s.ls.getDisableAfter l with | some n => toString n | none => "None"))
    | none => (s, some "bad-op")
  | ["ls", "trans"] => (s, some (" ".intercalate (s.ls.transitions.map toString)))
  | ["d", "reset"] => ({ s with gd := [], frs := [], rets := [], groups := [], built := none }, none)
  | ["d", "disable", n] =>
    match decodeStr n with
    | some n => ({ s with gd := s.gd ++ [n] }, none)
    | none => (s, some "bad-op")
  | ["d", "fr", a, b] =>
    match a.toNat?, b.toNat? with
    | some a, some b => ({ s with frs := (a, b) :: s.frs }, none)
    | _, _ => (s, some "bad-op")
  | ["d", "ret", a] =>
    match a.toNat? with
    | some a => ({ s with rets := a :: s.rets }, none)
    | none => (s, some "bad-op")
  | ["d", "group", k, a, b] =>
    match a.toNat?, b.toNat? with
    | some a, some b =>
      let kind := if k == "C" then RangeKind.call else RangeKind.line
      ({ s with groups := { range := { kind := kind, startLine := a, endLine := b }, comments := [] } :: s.groups }, none)
    | _, _ => (s, some "bad-op")
  | ["d", "comment", l, t, o, data] =>
    match l.toNat?, parseTool t, parseBool o, decodeStr data, s.groups with
    | some l, some t, some o, some data, g :: gs =>
      let c : Comment := { line := l, tool := t, data := data, openEnded := o }
      ({ s with groups := { g with comments := c :: g.comments } :: gs }, none)
    | _, _, _, _, _ => (s, some "bad-op")
  | ["d", "build"] =>
    let r := build s.gd s.parserOut
    ({ s with built := some r }, some (match r with | .ok _ => "ok" | .error c => crashStr c))
  | ["d", "actions"] => (s, some (" ".intercalate ((allActions s.gd s.parserOut).map actionStr)))
  | ["d", "save"] => ({ s with saved := allActions s.gd s.parserOut }, none)
  | ["d", "insok", mode, k, ls] =>
    match parseKey k, (if ls == "-" then some [] else (ls.splitOn ",").mapM String.toNat?) with
    | some k, some T =>
      let p := if mode == "S" then allowedStandalone k else allowedTrailing k T
      (s, some (if insOk p s.saved (allActions s.gd s.parserOut) then "1" else "0"))
    | _, _ => (s, some "bad-op")
  | ["d", "insokc", k, l, t, o, data] =>
    match parseKey k, l.toNat?, parseTool t, parseBool o, decodeStr data with
    | some k, some l, some t, some o, some data =>
      let c : Comment := { line := l, tool := t, data := data, openEnded := o }
      let T := touched c s.parserOut.groups
      let ok := insOk (allowedTrailing k T) s.saved (allActions s.gd s.parserOut)
      (s, some ((if ok then "1" else "0") ++ " " ++ ",".intercalate (T.map toString)))
    | _, _, _, _, _ => (s, some "bad-op")
  | "d" :: "q" :: same :: op :: name :: toks =>
    match s.built, decodeStr name, parseBool same with
    | some (.ok d), some name, some same =>
      let op := if op == "-" then "" else op
      (s, some (" ".intercalate (toks.map (qOne d same op name))))
    | some (.error c), _, _ => (s, some ("X" ++ crashStr c))
    | _, _, _ => (s, some "bad-op")
  | _ => (s, some "bad-op")

def main : IO Unit := Driver.run ({} : DSt) stepC03
