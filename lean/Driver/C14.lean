import Driver.Loop
import PytypeModel.Sem.DispatchTable
open PytypeModel.Dispatch PytypeModel.Generated

/-! protocol (state: the current user-class hierarchy)
  `H <class>;<class>;…`  class = `<mro>|<members>|<init>`; mro `0,1` ; members `name:m3,name:mN,name:d0`
                          (`m<tag>` method returning a literal, `mN` returning NotImplemented, `d<tag>` data;
                          `.` = none); init `-` (no own __init__) | `.` (empty) | `a,b`.      → no output
  `S bin <x> <op> <y>` | `S sub <x> <y>` | `S neg <x>` | `S call <x>` | `S attrU <c> <name>` |
  `S mcallU <c> <name>` | `S attrB <k> <a>` | `S mcallB <k> <a>` | `S fcall <f> <x>`
      operands `b<k>` (builtin value class k) / `u<c>` (instance of user class c); op add|sub|mul|div
      → `<pytype model> <cpython model> <row>`:  `ok:-|ok:v<tag>|ok:N|err:<kind>`  `OK,TE,AE,EX` (set)
        row = `kind,aux,l,r` or `-`
  `wf`        → `<WF> <AllVal>`
  `rowcheck`  → `<rows found under their own key> <rows>`
-/

def parseMember (s : String) : Option (String × Member) :=
  match s.splitOn ":" with
  | [n, k] =>
    if k == "mN" then some (n, .method .notImpl)
    else if k.startsWith "m" then (k.drop 1).toNat?.map fun t => (n, .method (.val t))
    else if k.startsWith "d" then (k.drop 1).toNat?.map fun t => (n, .data t)
    else none
  | _ => none

def parseClass (s : String) : Option ClassDef :=
  match s.splitOn "|" with
  | [m, ms, ini] => do
    let mro ← (m.splitOn ",").mapM String.toNat?
    let members ← if ms == "." then some [] else (ms.splitOn ",").mapM parseMember
    let init := if ini == "-" then none else if ini == "." then some [] else some (ini.splitOn ",")
    pure { mro := mro, members := members, init := init }
  | _ => none

def parseOperand (s : String) : Option Operand :=
  if s.startsWith "b" then (s.drop 1).toNat?.map Operand.b
  else if s.startsWith "u" then (s.drop 1).toNat?.map Operand.u
  else none

def parseOp : String → Option Op
  | "add" => some .add | "sub" => some .sub | "mul" => some .mul | "div" => some .div | _ => none

def parseStmt : List String → Option Stmt
  | ["bin", x, op, y] => do pure (.bin (← parseOperand x) (← parseOp op) (← parseOperand y))
  | ["sub", x, y] => do pure (.sub (← parseOperand x) (← parseOperand y))
  | ["neg", x] => do pure (.neg (← parseOperand x))
  | ["call", x] => do pure (.call (← parseOperand x))
  | ["attrU", c, n] => do pure (.attrU (← c.toNat?) n)
  | ["mcallU", c, n] => do pure (.mcallU (← c.toNat?) n)
  | ["attrB", k, a] => do pure (.attrB (← k.toNat?) (← a.toNat?))
  | ["mcallB", k, a] => do pure (.mcallB (← k.toNat?) (← a.toNat?))
  | ["fcall", f, x] => do pure (.fcall (← f.toNat?) (← parseOperand x))
  | _ => none

def showPy : PyRes → String
  | .ok none => "ok:-"
  | .ok (some (.val t)) => s!"ok:v{t}"
  | .ok (some .notImpl) => "ok:N"
  | .err .unsupported => "err:unsupported"
  | .err .attribute => "err:attribute"
  | .err .notCallable => "err:notcallable"
  | .err .reported => "err:reported"

def showOutcome : Outcome → String
  | .ok => "OK" | .typeError => "TE" | .attrError => "AE" | .other => "EX"

def showRow : Option RowKey → String
  | none => "-"
  | some (a, b, c, d) => s!"{a},{b},{c},{d}"

def rowCheck : Nat × Nat :=
  genView.chunks.foldl (fun acc ch => ch.foldl (fun (f, n) r =>
    match genView.find r.key with
    | some r' => (if r'.py == r.py && r'.cpy == r.cpy && r'.adv == r.adv then f + 1 else f, n + 1)
    | none => (f, n + 1)) acc) (0, 0)

def stepC14 (H : Hier) (line : String) : Hier × Option String :=
  match line.splitOn " " with
  | ["H", cs] =>
    match (cs.splitOn ";").mapM parseClass with
    | some h => (h, none)
    | none => (H, some "bad-op")
  | ["H"] => ([], none)
  | "S" :: rest =>
    match parseStmt rest with
    | some s =>
      (H, some (showPy (modelStmt genView H s) ++ " " ++
        ",".intercalate ((cpyStmt genView H s).map showOutcome) ++ " " ++ showRow (s.row genView H)))
    | none => (H, some "bad-op")
  | ["wf"] => (H, some s!"{WF H} {AllVal H}")
  | ["rowcheck"] => (H, some s!"{rowCheck.1} {rowCheck.2}")
  | _ => (H, some "bad-op")

def main : IO Unit := Driver.run ([] : Hier) stepC14
