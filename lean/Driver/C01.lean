import Driver.Loop
import Driver.Sexp
import PytypeModel.Sem.MiniFlowTable
open PytypeModel.MiniFlow Driver

/-! protocol: one line `<prog-sexps> ;; name1 <ty> name2 <ty> …`  → one line
`name:<semsub>:<rel>:<modelSem>:<modelTable> …` where semsub = 1 iff sub (inferName decSem) reported,
rel ∈ eq|wider|narrower|incomparable compares the reported type with inferName decTable. -/

def toTestTy : String → Option TestTy
  | "int" => some (.base .int) | "float" => some (.base .float) | "str" => some (.base .str)
  | "bytes" => some (.base .bytes) | "bool" => some (.base .bool) | "none" => some (.base .none)
  | "list" => some .list | "tuple" => some .tuple | "set" => some .set | "dict" => some .dict
  | "object" => some .object | _ => none

mutual
partial def toExpr : Sexp → Option Expr
  | .atom "n" => some (.lit .none)
  | .list [.atom "i", .atom n] => (n.toInt?).map fun k => .lit (.int k)
  | .list [.atom "f", .atom b] => some (.lit (.float (b == "1")))
  | .list [.atom "s"] => some (.lit (.str ""))
  | .list [.atom "s", .atom t] => some (.lit (.str t))
  | .list [.atom "y", .atom b] => some (.lit (.bytes (b == "1")))
  | .list [.atom "b", .atom b] => some (.lit (.bool (b == "1")))
  | .list [.atom "v", .atom x] => some (.name x)
  | .list (.atom "L" :: es) => (es.mapM toExpr).map .list
  | .list (.atom "T" :: es) => (es.mapM toExpr).map .tuple
  | .list (.atom "S" :: es) => (es.mapM toExpr).map .set
  | .list (.atom "D" :: es) => do
      let xs ← es.mapM toExpr
      let rec split : List Expr → List Expr × List Expr
        | k :: v :: rest => let (ks, vs) := split rest; (k :: ks, v :: vs)
        | _ => ([], [])
      let (ks, vs) := split xs
      pure (.dict ks vs)
  | .list [.atom "?", c, a, b] => do pure (.ifexp (← toExpr c) (← toExpr a) (← toExpr b))
  | .list [.atom "&", a, b] => do pure (.and (← toExpr a) (← toExpr b))
  | .list [.atom "|", a, b] => do pure (.or (← toExpr a) (← toExpr b))
  | .list [.atom "!", a] => do pure (.not (← toExpr a))
  | .list [.atom "N", a] => do pure (.isNone (← toExpr a))
  | .list [.atom "M", a] => do pure (.isNotNone (← toExpr a))
  | .list [.atom "I", a, .atom t] => do pure (.isinst (← toExpr a) (← toTestTy t))
  | .list [.atom "O", .atom k] => (k.toNat?).map .opaque
  | _ => none
end

partial def toStmt : Sexp → Option Stmt
  | .list [.atom "=", .atom x, e] => (toExpr e).map (.assign x)
  | .list [.atom "if", c, .list thn, .list els] => do
      pure (.ite (← toExpr c) (← thn.mapM toStmt) (← els.mapM toStmt))
  | _ => none

partial def toTy : Sexp → Option Ty
  | .atom "int" => some (.base .int) | .atom "float" => some (.base .float) | .atom "str" => some (.base .str)
  | .atom "bytes" => some (.base .bytes) | .atom "bool" => some (.base .bool) | .atom "none" => some (.base .none)
  | .atom "any" => some .any | .atom "nothing" => some .nothing
  | .list [.atom "list", t] => (toTy t).map .list
  | .list [.atom "set", t] => (toTy t).map .set
  | .list [.atom "dict", k, v] => do pure (.dict (← toTy k) (← toTy v))
  | .list (.atom "tuple" :: ts) => (ts.mapM toTy).map .tuple
  | .list (.atom "union" :: ts) => (ts.mapM toTy).map .union
  | _ => none

def baseStr : Base → String
  | .int => "int" | .float => "float" | .str => "str" | .bytes => "bytes" | .bool => "bool" | .none => "none"

partial def tyStr : Ty → String
  | .base b => baseStr b
  | .any => "any" | .nothing => "nothing"
  | .list t => s!"(list {tyStr t})"
  | .set t => s!"(set {tyStr t})"
  | .dict k v => s!"(dict {tyStr k} {tyStr v})"
  | .tuple ts => "(tuple" ++ String.join (ts.map fun t => " " ++ tyStr t) ++ ")"
  | .union ts => "(union" ++ String.join (ts.map fun t => " " ++ tyStr t) ++ ")"

def splitOnSep (xs : List Sexp) : List Sexp × List Sexp :=
  let rec go : List Sexp → List Sexp → List Sexp × List Sexp
    | [], acc => (acc.reverse, [])
    | .atom ";;" :: rest, acc => (acc.reverse, rest)
    | x :: rest, acc => go rest (x :: acc)
  go xs []

def answer (line : String) : String :=
  match parseAll line with
  | none => "bad-op"
  | some xs =>
    let (ps, qs) := splitOnSep xs
    match ps.mapM toStmt with
    | none => "bad-op"
    | some prog =>
      let envsSem := execAs decSem [] prog
      let envsTab := execAs decTable [] prog
      let inferFrom (envs : List Env) (x : String) : Ty :=
        collapse (.union (envs.filterMap fun env => (env.get x).map typeOf))
      let rec go : List Sexp → List String → Option (List String)
        | [], acc => some acc.reverse
        | .atom x :: t :: rest, acc =>
          match toTy t with
          | none => none
          | some rep =>
            let ms := inferFrom envsSem x
            let mt := inferFrom envsTab x
            let semsub := if sub ms rep then "1" else "0"
            let rel := match sub mt rep, sub rep mt with
              | true, true => "eq" | true, false => "wider" | false, true => "narrower" | false, false => "incomparable"
            go rest (s!"{x}:{semsub}:{rel}:{tyStr ms}:{tyStr mt}" :: acc)
        | _, _ => none
      match go qs [] with
      | some outs => s!"paths={envsSem.length}/{envsTab.length} " ++ " | ".intercalate outs
      | none => "bad-op"

def main : IO Unit := Driver.run () (fun s line => (s, some (answer line)))
