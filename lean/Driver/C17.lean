import Driver.Loop
import PytypeModel.Bool.Booleq
open PytypeModel.Booleq

/-! protocol (tokens separated by one blank; names contain no blank, `;`, `,`, brackets)

term grammar (prefix): `T` | `F` | `E l r` | `A n t1 … tn` | `O n t1 … tn`

* `B <term>`   → canonical text of the term rebuilt bottom-up through `mkEq`/`mkAnd`/`mkOr`
* `N <term>`   → `1`/`0`: is the rebuilt term in normal form
* `TAB <table> ; <table> ; …`  sets the current tables; a table is `key n v1 … vn key n …`
* `S <term>`   → for the *raw* term (children in the given order = iteration order of the Python set),
                 one field per current table joined by `;`: `!` KeyError, `=` result has the same
                 canonical text as the input, otherwise the canonical text of the result
-/

partial def parseTerm : List String → Option (Term × List String)
  | "T" :: r => some (.tt, r)
  | "F" :: r => some (.ff, r)
  | "E" :: l :: r :: rest => some (.eq l r, rest)
  | "A" :: n :: rest => do
    let (es, rest) ← parseN (← n.toNat?) rest []
    some (.and es, rest)
  | "O" :: n :: rest => do
    let (es, rest) ← parseN (← n.toNat?) rest []
    some (.or es, rest)
  | _ => none
where
  parseN : Nat → List String → List Term → Option (List Term × List String)
    | 0, rest, acc => some (acc.reverse, rest)
    | n + 1, rest, acc => do
      let (t, rest) ← parseTerm rest
      parseN n rest (t :: acc)

partial def parseTable : List String → Table → Option Table
  | [], acc => some acc.reverse
  | k :: n :: rest, acc => do
    let n ← n.toNat?
    if rest.length < n then none
    else parseTable (rest.drop n) ((k, rest.take n) :: acc)
  | _, _ => none

def splitOnTok (sep : String) (ws : List String) : List (List String) :=
  let (cur, acc) := ws.foldl (fun (p : List String × List (List String)) w =>
    if w == sep then ([], p.1.reverse :: p.2) else (w :: p.1, p.2)) ([], [])
  (cur.reverse :: acc).reverse

def showSimp (T : Table) (t : Term) (ct : String) : String :=
  match simplify T t with
  | .error _ => "!"
  | .ok r => let c := canon r; if c == ct then "=" else c

def stepC17 (tabs : List Table) (line : String) : List Table × Option String :=
  match (line.splitOn " ").filter (· ≠ "") with
  | "B" :: ws =>
    match parseTerm ws with
    | some (t, []) => (tabs, some (canon (build t)))
    | _ => (tabs, some "bad-op")
  | "N" :: ws =>
    match parseTerm ws with
    | some (t, []) => (tabs, some (if (build t).normal then "1" else "0"))
    | _ => (tabs, some "bad-op")
  | "TAB" :: ws =>
    match (splitOnTok ";" ws).mapM (fun g => parseTable g []) with
    | some ts => (ts, none)
    | none => (tabs, some "bad-op")
  | "S" :: ws =>
    match parseTerm ws with
    | some (t, []) =>
      let ct := canon t
      (tabs, some (";".intercalate (tabs.map fun T => showSimp T t ct)))
    | _ => (tabs, some "bad-op")
  | _ => (tabs, some "bad-op")

def main : IO Unit := Driver.run ([] : List Table) stepC17
