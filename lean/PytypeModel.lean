-- Root of the library.  Individual properties are built as `PytypeModel.Props.Cxx` (see setup.sh).
import PytypeModel.Typegraph.Reach
