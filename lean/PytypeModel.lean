import PytypeModel.Typegraph.Reach
