#!/bin/bash
# MANIFEST.setup_cmd: builds everything the checks need, offline, from files on disk.
set -e
cd "$(dirname "$0")"
mkdir -p build evidence
# 1. the real typegraph extension, out of tree, from /repo's current sources
/venv/bin/python -c "
import sys; sys.path.insert(0, '.')
from harness import common
print('ext:', common.ensure_ext())
"
# 2. regenerate data tables from /repo (translators), then build the Lean library, proofs, drivers
if [ -x translate/run_all.sh ]; then translate/run_all.sh; fi
cd lean
targets=""
for f in PytypeModel/Props/C*.lean; do targets="$targets PytypeModel.Props.$(basename "$f" .lean)"; done
for f in Driver/C*.lean; do targets="$targets drv_$(basename "$f" .lean | tr 'A-Z' 'a-z')"; done
lake build $targets 2>&1 | tail -5
