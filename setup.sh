#!/bin/bash
# MANIFEST.setup_cmd: builds everything the checks need, offline, from files on disk.
cd "$(dirname "$0")"
mkdir -p build evidence
# 1. the real typegraph extension, out of tree, from /repo's current sources
/venv/bin/python -c "
import sys; sys.path.insert(0, '.')
from harness import common
print('ext:', common.ensure_ext())
" || exit 1
# 2. regenerate data tables from /repo (translators)
if [ -x translate/run_all.sh ]; then translate/run_all.sh || echo "setup: a translator failed (the checks re-run them)"; fi
# 3. build the Lean library, proofs and drivers of every claimed property (each check rebuilds what it needs anyway)
cd lean
targets=""
for id in $(grep -v '^#' ../harness/registry/READY); do
  [ -f "PytypeModel/Props/$id.lean" ] && targets="$targets PytypeModel.Props.$id"
  [ -f "Driver/$id.lean" ] && targets="$targets drv_$(echo "$id" | tr 'A-Z' 'a-z')"
done
lake build $targets 2>&1 | tail -5
exit 0
