"""C12 — serialised stubs decode to the same declarations, byte-stably; ==/hash agree (DESIGN.md §5 C12).

P  lake build PytypeModel.Props.C12 (schema regenerated from REPO first) + axiom audit.
K1 byte-exact: real msgspec bytes (pickle_utils.Encoder) vs the Lean driver's `encodeNode` for generated
   nodes of every pytd class, SerializableAst of ASTs emitted by io.generate_pyi, of the bundled stubs and of
   the loader's resolved builtins/typing; real decode vs the model's verdict; real-side laws
   (decode∘encode = id, re-encode byte-identical, DecodeAst(Serialize(x)).ast == CanonicalOrdering(x), ...).
K2 all ordered pairs of a pool of type nodes: real == / hash vs the model's veq / hash classes.
W  replay of the fixed witness c12-union-hash.
S  (only if P or K broke) the property's own oracles on the real code, shrinking.
"""
import enum
import os
import subprocess
import sys
import time

from harness import common

REQUIRED = [
    "mp_roundtrip", "mp_roundtrip_not_full", "encodeMP_injective", "encodeMP_prefix_free", "encodeMP_bytes",
    "node_roundtrip", "node_bytes_roundtrip", "byte_stable", "encodeNode_injective",
    "schema_wf", "typeu_complete", "typeu_wf", "serializable_ast_ty_wf",
    "serializable_ast_roundtrip", "type_node_roundtrip",
    "schema_eqspec", "eq_hash", "eq_hash_pytd", "eq_symm", "eq_trans", "eq_refl", "eq_hash_needs_perm",
    "canon_sort_idem", "canon_sort_perm",
    "undo_aliases_local", "undo_aliases_longest_prefix", "undo_aliases_idempotent_partial",
    "undo_aliases_idempotent_not_full",
]

PREP = {"error": None, "notes": []}
_T0 = time.time()


def trace(msg):
  if os.environ.get("VERIF_TRACE"):
    sys.stderr.write("[c12 %7.1fs] %s\n" % (time.time() - _T0, msg))
    sys.stderr.flush()


def prepare():
  """Regenerate lean/PytypeModel/Generated/PytdSchema.lean from the classes of REPO."""
  r = subprocess.run([common.PY, os.path.join(common.VERIF, "translate", "pytd_schema.py")],
                     stdout=subprocess.PIPE, stderr=subprocess.STDOUT, text=True,
                     env=dict(os.environ, PYTYPE_REPO=common.REPO))
  PREP["notes"] = [l for l in r.stdout.splitlines() if "NOTE" in l]
  if r.returncode != 0:
    PREP["error"] = r.stdout[-3000:]


# ----------------------------------------------------------------------------
# the real code
# ----------------------------------------------------------------------------
class Real:
  """Lazily imported handles on the real modules."""
  _inst = None

  def __init__(self):
    common.load_pytype()
    import msgspec
    from pytype import config, io, load_pytd
    from pytype.imports import pickle_utils
    from pytype.pyi import parser
    from pytype.pytd import pytd, pytd_utils, serialize_ast, visitors
    self.msgspec, self.config, self.io, self.load_pytd = msgspec, config, io, load_pytd
    self.pickle_utils, self.parser, self.pytd, self.pytd_utils = pickle_utils, parser, pytd, pytd_utils
    self.serialize_ast, self.visitors = serialize_ast, visitors
    self._dec = {}

  @classmethod
  def get(cls):
    if cls._inst is None:
      cls._inst = Real()
    return cls._inst

  def decoder(self, tyname):
    if tyname not in self._dec:
      if tyname == "TypeU":
        t = self.pytd.TypeU
      elif tyname == "SerializableAst":
        t = self.serialize_ast.SerializableAst
      else:
        t = getattr(self.pytd, tyname)
      self._dec[tyname] = self.msgspec.msgpack.Decoder(t)
    return self._dec[tyname]


class Untokenizable(Exception):
  pass


def _hx(s):
  return s.encode("utf-8").hex()


def to_tokens(x, out, msgspec):
  """Python value -> the driver's value syntax (see lean/Driver/C12.lean)."""
  if x is None:
    out.append("N")
  elif x is True:
    out.append("T")
  elif x is False:
    out.append("F")
  elif isinstance(x, enum.Enum):
    to_tokens(x.value, out, msgspec)
  elif isinstance(x, int):
    out.append("I%d" % x)
  elif isinstance(x, str):
    out.append("S" + _hx(x))
  elif isinstance(x, (tuple, list)):
    out.append("U%d" % len(x))
    for y in x:
      to_tokens(y, out, msgspec)
  elif isinstance(x, (set, frozenset)):
    if not all(isinstance(y, str) for y in x):
      raise Untokenizable("set of non-str")
    ys = sorted(x, key=lambda s: s.encode("utf-8"))
    out.append("U%d" % len(ys))
    for y in ys:
      to_tokens(y, out, msgspec)
  elif isinstance(x, dict):
    if x:
      raise Untokenizable("non-empty dict (lookup cache not cleared)")
    out.append("D")
  elif isinstance(x, msgspec.Struct):
    fs = x.__struct_fields__
    out.append("O%s:%d" % (_hx(type(x).__name__), len(fs)))
    for f in fs:
      to_tokens(getattr(x, f), out, msgspec)
  else:
    raise Untokenizable("value of type %s" % type(x).__name__)
  return out


def val(x):
  return " ".join(to_tokens(x, [], Real.get().msgspec))


def count_structs(x, msgspec):
  if isinstance(x, msgspec.Struct):
    return 1 + sum(count_structs(getattr(x, f), msgspec) for f in x.__struct_fields__)
  if isinstance(x, (tuple, list)):
    return sum(count_structs(y, msgspec) for y in x)
  return 0


# ----------------------------------------------------------------------------
# generators
# ----------------------------------------------------------------------------
class Gen:
  NAMES = ["int", "str", "x", "T", "builtins.int", "typing.List", "foo.Bar", "a.b.C", "K", "V", "\u00e9.\u00df",
           "_T0", "NoneType", "tuple", "list", "dict", "m.A", "m.B", "typing.Any", "object", "\U0001F600",
           "m.A.Inner", "foo.bar.C", "foo.bar.C.D", "pkg.mod.K", "pkg", "foo", "foo.bar", "pkg.mod"]

  def __init__(self, rng, real):
    self.rng, self.R, self.p = rng, real, real.pytd
    self.long_done = set()

  def name(self):
    r = self.rng.random()
    if r < 0.04:
      n = self.rng.choice([31, 32, 33, 255, 256, 300])
      return ("n%d_" % n + "abcdefghij" * 40)[:n]
    return self.rng.choice(self.NAMES)

  def string(self):
    r = self.rng.random()
    if r < 0.1:
      return ""
    if r < 0.2:
      n = self.rng.choice([31, 32, 255, 256, 1000])
      return ("\u00e9" * n)[: n // 2] + "z" * (n - 2 * (n // 2))   # byte length == n
    return self.name()

  def integer(self):
    r = self.rng.random()
    if r < 0.5:
      return self.rng.choice([0, 1, -1, 5, 127, 128, 255, 256, 65535, 65536, 2 ** 32 - 1, 2 ** 32, 2 ** 63 - 1,
                              2 ** 63, 2 ** 64 - 1, -32, -33, -128, -129, -32768, -32769, -2 ** 31,
                              -2 ** 31 - 1, -2 ** 63])
    return self.rng.randrange(-2 ** 63, 2 ** 64)

  def literal_value(self, d):
    p = self.p
    k = self.rng.randrange(6)
    if k == 0:
      return self.integer()
    if k == 1:
      return self.string()
    if k == 2:
      return self.rng.random() < 0.5
    if k == 3 and d > 0:
      return self.ty(d - 1)
    if k == 4:
      return p.Constant(self.name(), self.ty(0), None)
    return self.rng.randrange(-40, 300)

  def base(self):
    p = self.p
    k = self.rng.randrange(3)
    if k == 0:
      return p.NamedType(self.name())
    if k == 1:
      return p.ClassType(self.name())
    return p.LateType(self.name(), self.rng.random() < 0.3)

  def tparam(self, d, cls=None):
    p = self.p
    cls = cls or (p.TypeParameter if self.rng.random() < 0.7 else p.ParamSpec)
    kw = {}
    if self.rng.random() < 0.3 and d > 0:
      kw["constraints"] = tuple(self.ty(d - 1) for _ in range(self.rng.randrange(1, 3)))
    if self.rng.random() < 0.3 and d > 0:
      kw["bound"] = self.ty(d - 1)
    r = self.rng.random()
    if r < 0.15 and d > 0:
      kw["default"] = self.ty(d - 1)
    elif r < 0.3 and d > 0:
      kw["default"] = tuple(self.ty(d - 1) for _ in range(self.rng.randrange(0, 3)))
    if self.rng.random() < 0.5:
      kw["scope"] = self.name()
    return cls(self.rng.choice(["T", "K", "V", "_T", "P"]), **kw)

  def ty(self, d):
    p, rng = self.p, self.rng
    leaf = d <= 0 or rng.random() < 0.3
    if leaf:
      k = rng.randrange(11)
      if k == 0:
        return p.NamedType(self.name())
      if k == 1:
        return p.ClassType(self.name())
      if k == 2:
        return p.LateType(self.name(), rng.random() < 0.3)
      if k == 3:
        return p.AnythingType()
      if k == 4:
        return p.NothingType()
      if k == 5:
        return p.Literal(self.literal_value(0))
      if k == 6:
        return self.tparam(0)
      if k == 7:
        return p.ParamSpecArgs(self.name())
      if k == 8:
        return p.ParamSpecKwargs(self.name())
      return p.NamedType(self.name())
    k = rng.randrange(10)
    sub = lambda lo, hi: tuple(self.ty(d - 1) for _ in range(rng.randrange(lo, hi)))
    if k == 0:
      return p.UnionType(sub(1, 5))
    if k == 1:
      return p.IntersectionType(sub(1, 4))
    if k == 2:
      return p.GenericType(self.base(), sub(1, 4))
    if k == 3:
      return p.TupleType(self.base(), sub(0, 4))
    if k == 4:
      return p.CallableType(self.base(), sub(1, 4))
    if k == 5:
      return p.Concatenate(self.base(), sub(1, 3))
    if k == 6:
      n = rng.choice([0, 1, 2, 15, 16, 17]) if rng.random() < 0.5 else rng.randrange(0, 4)
      return p.Annotated(self.ty(d - 1), tuple(self.string() for _ in range(n)))
    if k == 7:
      return p.Literal(self.literal_value(d))
    if k == 8:
      return self.tparam(d)
    return p.UnionType(sub(2, 4))

  def constant(self, d):
    p, rng = self.p, self.rng
    k = rng.randrange(7)
    v = [None, p.AnythingType(), self.integer(), self.string(), rng.random() < 0.5,
         tuple(self.string() for _ in range(rng.choice([0, 1, 2, 16, 20]))), None][k]
    return p.Constant(self.name(), self.ty(d), v)

  def param(self, d):
    p, rng = self.p, self.rng
    return p.Parameter(self.name(), self.ty(d), rng.choice(list(p.ParameterKind)), rng.random() < 0.5,
                       self.ty(d) if rng.random() < 0.2 else None)

  def template(self, d):
    return tuple(self.p.TemplateItem(self.tparam(d)) for _ in range(self.rng.randrange(0, 3)))

  def signature(self, d):
    p, rng = self.p, self.rng
    return p.Signature(tuple(self.param(d) for _ in range(rng.randrange(0, 4))),
                       self.param(d) if rng.random() < 0.3 else None,
                       self.param(d) if rng.random() < 0.3 else None,
                       self.ty(d), tuple(self.ty(d) for _ in range(rng.randrange(0, 3))), self.template(d))

  def flags(self):
    p, rng = self.p, self.rng
    f = p.MethodFlag.NONE
    r = rng.random()
    if r < 0.4:
      return f
    if r < 0.5:
      return f & ~p.MethodFlag.NONE   # MethodFlag(0)
    for m in (p.MethodFlag.ABSTRACT, p.MethodFlag.COROUTINE, p.MethodFlag.FINAL):
      if rng.random() < 0.5:
        f |= m
    if rng.random() < 0.3:
      f &= ~p.MethodFlag.NONE
    return f

  def function(self, d):
    p, rng = self.p, self.rng
    kw = {}
    if rng.random() < 0.6:
      kw["flags"] = self.flags()
    if rng.random() < 0.3:
      kw["decorators"] = tuple(self.alias(0) for _ in range(rng.randrange(0, 3)))
    return p.Function(self.name(), tuple(self.signature(d) for _ in range(rng.randrange(1, 3))),
                      rng.choice(list(p.MethodKind)), **kw)

  def alias(self, d):
    p, rng = self.p, self.rng
    k = rng.randrange(6)
    if k == 0:
      t = self.constant(d)
    elif k == 1 and d > 0:
      t = self.function(d - 1)
    elif k == 2:
      t = p.Module(self.name(), self.name())
    else:
      t = self.ty(d)
    return p.Alias(self.name(), t)

  def klass(self, d, nest=1):
    p, rng = self.p, self.rng
    return p.Class(
        self.name(),
        tuple((self.rng.choice(["metaclass", "total", "k"]), self.ty(d)) for _ in range(rng.randrange(0, 2))),
        tuple(self.ty(d) for _ in range(rng.randrange(0, 3))),
        tuple(self.function(d) for _ in range(rng.randrange(0, 3))),
        tuple(self.constant(d) for _ in range(rng.randrange(0, 3))),
        tuple(self.klass(d, nest - 1) for _ in range(rng.randrange(0, 2))) if nest > 0 else (),
        tuple(self.alias(0) for _ in range(rng.randrange(0, 2))),
        None if rng.random() < 0.6 else tuple(self.string() for _ in range(rng.randrange(0, 3))),
        self.template(d))

  def unit(self, d, size=3, name=None):
    p, rng = self.p, self.rng
    n = lambda: rng.randrange(0, size + 1)
    return p.TypeDeclUnit(name or rng.choice(["m", "foo.bar", "pkg.mod"]),
                          tuple(self.constant(d) for _ in range(n())),
                          tuple(self.tparam(d) for _ in range(n())),
                          tuple(self.klass(d) for _ in range(n())),
                          tuple(self.function(d) for _ in range(n())),
                          tuple(self.alias(d) for _ in range(n())))

  # ---- the classes of declarations K1 draws from, with the declared type they are decoded at
  def decl_cases(self, n, d):
    out = []
    makers = [("TypeU", lambda: self.ty(d)), ("Constant", lambda: self.constant(d)),
              ("Alias", lambda: self.alias(d)), ("Function", lambda: self.function(d)),
              ("Signature", lambda: self.signature(d)), ("Parameter", lambda: self.param(d)),
              ("Class", lambda: self.klass(d)), ("TypeDeclUnit", lambda: self.unit(d)),
              ("TemplateItem", lambda: self.p.TemplateItem(self.tparam(d))),
              ("Module", lambda: self.p.Module(self.name(), self.name()))]
    for i in range(n):
      tyn, mk = makers[i % len(makers)] if i % 3 else makers[0]
      out.append({"tyname": tyn, "obj": mk(), "legit": True, "origin": "generated"})
    return out

  def size_cases(self):
    """Boundary sizes of every length-prefixed format."""
    p = self.p
    out = []
    for n in (0, 1, 31, 32, 255, 256, 65535, 65536, 70000):
      out.append(p.Literal("a" * n))
      out.append(p.NamedType("\u00e9" * (n // 2) + "a" * (n % 2)))
    for n in (0, 1, 15, 16, 17, 255, 65535, 65536):
      out.append(p.Annotated(p.AnythingType(), tuple("s" for _ in range(n))))
    for n in (1, 15, 16, 300):
      out.append(p.UnionType(tuple(p.NamedType("t%d" % i) for i in range(n))))
      out.append(p.TupleType(p.NamedType("tuple"), tuple(p.Literal(i - 40) for i in range(n))))
    for v in (0, 127, 128, 255, 256, 65535, 65536, 2 ** 32 - 1, 2 ** 32, 2 ** 63 - 1, 2 ** 63, 2 ** 64 - 1,
              -1, -32, -33, -128, -129, -32768, -32769, -2 ** 31, -2 ** 31 - 1, -2 ** 63):
      out.append(p.Literal(v))
    return [{"tyname": "TypeU", "obj": o, "legit": True, "origin": "boundary"} for o in out]

  def probe_cases(self):
    """Values outside what the declared field types / the wire format allow: only the agreement of the
    model's verdict (WT, decodable) with the real encoder/decoder is compared."""
    p = self.p
    f = p.Function("f", (), p.MethodKind.METHOD)
    c = p.Class("C", (), (), (), (), (), (), None, ())
    objs = [
        ("TypeU", p.Literal(2 ** 64)), ("TypeU", p.Literal(-2 ** 63 - 1)), ("TypeU", p.Literal(10 ** 30)),
        ("TypeU", p.GenericType(p.AnythingType(), (p.NamedType("x"),))),
        ("TypeU", p.GenericType(p.NamedType("x"), (f,))),
        ("TypeU", p.UnionType((p.NamedType("x"), f))),
        ("TypeU", p.Annotated(p.NamedType("x"), (1, 2))),
        ("TypeU", p.NamedType(5)),
        ("TypeU", p.LateType("x", 1)),
        ("TypeU", p.Module("a", "b")),
        ("Alias", p.Alias("a", c)),
        ("Constant", p.Constant("a", p.NamedType("x"), (1, 2))),
        ("Constant", p.Constant("a", p.NamedType("x"), p.NothingType())),
        ("Parameter", p.Parameter("a", p.NamedType("x"), "regular", False, None)),
        ("Parameter", p.Parameter("a", p.NamedType("x"), p.ParameterKind.REGULAR, None, None)),
        ("Signature", p.Signature((), p.NamedType("x"), None, p.NamedType("x"), (), ())),
        ("Function", p.Function("f", (), p.MethodKind.METHOD, 16)),
        ("Function", p.Function("f", (), p.MethodKind.METHOD, -1)),
        ("Function", p.Function("f", (), "method")),
        ("Function", p.Function("f", (), "nope")),
        ("Class", p.Class("C", (("k",),), (), (), (), (), (), None, ())),
        ("Class", p.Class("C", (("k", p.NamedType("x"), p.NamedType("x")),), (), (), (), (), (), None, ())),
        ("Constant", p.NamedType("x")),
        ("TemplateItem", p.TemplateItem(p.NamedType("x"))),
    ]
    return [{"tyname": t, "obj": o, "legit": False, "origin": "probe"} for t, o in objs]


PROGRAMS = [
    "def f(x: int, y: str = 'a') -> bool:\n  return len(y) > x\n",
    "import typing\nT = typing.TypeVar('T')\ndef ident(x: T) -> T:\n  return x\nclass Box(typing.Generic[T]):\n  def __init__(self, v: T):\n    self.v = v\n  def get(self) -> T:\n    return self.v\n",
    "from typing import Optional, Union, List, Dict, Callable, Tuple\ndef g(a: Optional[int], b: Union[str, bytes, None]) -> List[Dict[str, Tuple[int, ...]]]:\n  return []\nh: Callable[[int, str], bool] = lambda a, b: True\n",
    "class A:\n  x = 1\n  y: str = 'q'\n  def m(self, z):\n    return z\n  @staticmethod\n  def s(a, b=2):\n    return a\n  @classmethod\n  def c(cls):\n    return cls()\n  @property\n  def p(self):\n    return self.x\nclass B(A):\n  def m(self, z):\n    return [z]\n",
    "from typing import Literal, Final\nX: Final = 3\nMODE: Literal['r', 'w'] = 'r'\ndef k(flag: Literal[True], n: Literal[5, -7]) -> None: ...\n",
    "class Base:\n  def run(self) -> int:\n    raise NotImplementedError()\nasync def co(x):\n  return x\ndef gen(n):\n  for i in range(n):\n    yield i\n",
    "from typing import NamedTuple, Any\nclass P(NamedTuple):\n  a: int\n  b: str\ndef mk(*args: int, **kw: Any) -> P:\n  return P(1, 'x')\nzs = {1: 'a', 2: None}\nws = (1, 'a', 2.5)\n",
    "def outer(n):\n  def inner(m):\n    return m + n\n  return inner\nv = outer(1)(2)\nu = [x for x in 'abc']\nw = {x: [x] for x in range(3)}\ndef either(c):\n  if c:\n    return 1\n  return 'one'\n",
    "from typing import Protocol, overload, TypeVar, Sequence\nS = TypeVar('S', bound='Shape')\nclass Shape:\n  def scale(self: S, k: float) -> S:\n    return self\nclass HasLen(Protocol):\n  def __len__(self) -> int: ...\n@overload\ndef first(x: str) -> str: ...\n@overload\ndef first(x: Sequence[int]) -> int: ...\ndef first(x):\n  return x[0]\n",
    "class D:\n  __slots__ = ('b', 'a')\n  def __init__(self, b: int, a: str = 'x'):\n    self.b = b\n    self.a = a\n  def total(self) -> int:\n    return self.b\nclass E(Exception):\n  pass\ndef r(x):\n  if x:\n    raise E()\n  return D(1)\n",
]


def gen_program(rng, i):
  """Small random composition of annotated functions/classes (builtins + typing only)."""
  tys = ["int", "str", "bool", "float", "bytes", "None", "list[int]", "dict[str, int]", "tuple[int, str]",
         "typing.Optional[str]", "typing.Union[int, str]", "typing.List[typing.Any]", "typing.Callable[[int], str]",
         "set[str]", "typing.Tuple[int, ...]", "object", "type[int]"]
  vals = ["1", "'s'", "[1, 2]", "{'a': 1}", "(1, 'x')", "None", "3.5", "f%d_0" % i, "K%d_0()" % i]
  lines = ["import typing"]
  for k in range(rng.randrange(2, 6)):
    ps = ", ".join("%s: %s" % (chr(97 + j), rng.choice(tys)) for j in range(rng.randrange(0, 4)))
    lines.append("def f%d_%d(%s) -> %s: ..." % (i, k, ps, rng.choice(tys)))
  for k in range(rng.randrange(1, 4)):
    lines.append("class K%d_%d:" % (i, k))
    for j in range(rng.randrange(1, 4)):
      lines.append("  a%d: %s" % (j, rng.choice(tys)))
    lines.append("  def m(self, x: %s) -> %s: ..." % (rng.choice(tys), rng.choice(tys)))
  for k in range(rng.randrange(0, 4)):
    lines.append("v%d_%d = %s" % (i, k, rng.choice(vals)))
  return "\n".join(lines) + "\n"


# ----------------------------------------------------------------------------
# oracles on the real code (used as real-side laws in K and as the search oracle in S)
# ----------------------------------------------------------------------------
def node_eq(R, a, b):
  """Structural equality that also works for TypeDeclUnit / SerializableAst (identity-compared classes)."""
  p = R.pytd
  if isinstance(a, p.TypeDeclUnit) and isinstance(b, p.TypeDeclUnit):
    return a.name == b.name and R.pytd_utils.ASTeq(a, b)
  if isinstance(a, R.serialize_ast.SerializableAst) and isinstance(b, R.serialize_ast.SerializableAst):
    return (node_eq(R, a.ast, b.ast) and a.dependencies == b.dependencies
            and a.late_dependencies == b.late_dependencies and a.src_path == b.src_path
            and a.metadata == b.metadata and a.class_type_nodes == b.class_type_nodes)
  return a == b


def codec_oracle(R, tyname, obj):
  """decode(encode(x)) == x, identical token image, re-encode byte-identical, deterministic bytes.
  Returns None if the law holds, else a short description."""
  try:
    b = R.pickle_utils.Encoder.encode(obj)
  except Exception as e:  # pylint: disable=broad-except
    return "encode raised %s: %s" % (type(e).__name__, str(e)[:120])
  try:
    d = R.decoder(tyname).decode(b)
  except Exception as e:  # pylint: disable=broad-except
    return "decode raised %s: %s" % (type(e).__name__, str(e)[:160])
  try:
    if not node_eq(R, d, obj):
      return "decoded value != original"
    if to_tokens(d, [], R.msgspec) != to_tokens(obj, [], R.msgspec):
      return "decoded value differs structurally from the original (though ==)"
  except Untokenizable as e:
    return "not serialisable state: %s" % e
  if R.pickle_utils.Encoder.encode(d) != b:
    return "re-encoding the decoded value gives different bytes"
  if R.msgspec.msgpack.Encoder(order="deterministic").encode(obj) != b:
    return "bytes differ from the deterministic (sorted) encoding"
  return None


def collect_class_types(R, ast):
  v = R.serialize_ast.FindClassTypesVisitor()
  ast.Visit(v)
  return v.class_type_nodes


def late_names(R, node):
  """names of all LateTypes of a tree, sorted"""
  out = []
  p = R.pytd

  def go(x):
    if isinstance(x, p.LateType):
      out.append(x.name)
    elif isinstance(x, R.msgspec.Struct):
      for f in x.__struct_fields__:
        if f != "_name2item":
          go(getattr(x, f))
    elif isinstance(x, (tuple, list)):
      for y in x:
        go(y)
  go(node)
  return sorted(out)


def undo_alias_spec(R, ast):
  """Independent statement of what UndoModuleAliasesVisitor does to the LateType names of ONE unit: the longest
  proper dotted prefix that is a module alias *of this unit* is replaced by the aliased module's name; nothing
  else changes (in particular no alias of another unit is ever used)."""
  p = R.pytd
  aliases = {}
  for a in ast.aliases:
    if isinstance(a.type, p.Module):
      n = a.name
      if n.startswith(ast.name + "."):
        n = n[len(ast.name) + 1:]
      aliases[n] = a.type.module_name
  out = []
  for name in late_names(R, ast):
    parts = name.split(".")
    new = name
    for i in range(len(parts) - 1, 0, -1):
      pre = ".".join(parts[:i])
      if pre in aliases:
        new = aliases[pre] + "." + ".".join(parts[i:])
        break
    out.append(new)
  return sorted(out)


def alias_prefix_of_own_module(R, ast):
  """Known finding c12-alias-prefix-of-own-module (the complement of the model's `noChain`, restricted to names that
  are really rewritten): a module alias `a -> m` where some alias name of the unit (possibly `a` itself:
  `import foo.bar as foo`) is a dotted prefix of `m`, and a LateType below `a`.  Undoing the aliases is then not
  idempotent (`foo.X` -> `foo.bar.X` -> `foo.bar.bar.X`), so re-encoding the decoded AST gives other bytes."""
  p = R.pytd
  al = []
  for x in ast.aliases:
    if isinstance(x.type, p.Module):
      n = x.name[len(ast.name) + 1:] if x.name.startswith(ast.name + ".") else x.name
      al.append((n.split("."), x.type.module_name.split(".")))
  chained = [a_ for a_, m in al if any(m[:len(b_)] == b_ for b_, _ in al)]
  names = [nm.split(".") for nm in late_names(R, ast) if "." in nm]
  return any(nm[:len(a_)] == a_ and len(nm) > len(a_) for a_ in chained for nm in names)


def ast_oracle(R, ast):
  """DecodeAst(Serialize(x)).ast == CanonicalOrdering(x) (by value), dependencies as collected, all cls
  pointers cleared, Serialize of the decoded AST byte-identical, canonical ordering idempotent."""
  pu, su = R.pickle_utils, R.serialize_ast
  try:
    # Serialize clears ClassType.cls pointers of `ast` IN PLACE and orders canonically afterwards; the reference below
    # is therefore computed on the pointer-free tree (node sort keys print resolved and unresolved references
    # differently).  Serialising the very same object again must give the same bytes.
    b0 = pu.Serialize(ast)
    if pu.Serialize(ast) != b0:
      return "serialising the same AST object twice gives different bytes"
    pre = ast
    if pre.name.endswith(".__init__"):
      pre = pre.Visit(R.visitors.RenameModuleVisitor(pre.name, pre.name.rsplit(".__init__", 1)[0]))
    pre0 = pre
    pre = pre.Visit(su.UndoModuleAliasesVisitor())
    deps = R.visitors.CollectDependencies()
    pre.Visit(deps)
    canon = R.pytd_utils.CanonicalOrdering(pre)
    canon2 = R.pytd_utils.CanonicalOrdering(canon)
    if not R.pytd_utils.ASTeq(canon2, canon) or val_noptr(R, canon2) != val_noptr(R, canon):
      return "CanonicalOrdering is not idempotent on this AST"
    b = b0
    d = pu.DecodeAst(b)
  except Exception as e:  # pylint: disable=broad-except
    return "Serialize/DecodeAst raised %s: %s" % (type(e).__name__, str(e)[:200])
  if late_names(R, d.ast) != undo_alias_spec(R, ast if not ast.name.endswith(".__init__") else pre0):
    return ("LateType names of the decoded AST are not the original's with this unit's own module aliases undone "
            "(longest aliased prefix -> module name)")
  if d.ast.name != canon.name or not R.pytd_utils.ASTeq(d.ast, canon):
    return "decoded AST != CanonicalOrdering(original) (ASTeq)"
  if val_noptr(R, d.ast) != val_noptr(R, canon):
    return "decoded AST differs structurally from CanonicalOrdering(original)"
  if d.dependencies != sorted(deps.dependencies.items()) or d.late_dependencies != sorted(deps.late_dependencies.items()):
    return "decoded dependencies differ from CollectDependencies"
  if any(c.cls is not None for c in collect_class_types(R, d.ast)):
    return "a ClassType.cls pointer survived serialisation"
  try:
    if alias_prefix_of_own_module(R, ast):
      pass   # characterised known finding (replayed by W): re-encoding is not byte-stable for exactly this shape
    elif pu.Serialize(d.ast) != b:
      return "Serialize(DecodeAst(Serialize(x)).ast) gives different bytes"
    if pu.Encode(d) != b:
      return "Encode(DecodeAst(bytes)) gives different bytes"
  except Exception as e:  # pylint: disable=broad-except
    return "re-serialising raised %s: %s" % (type(e).__name__, str(e)[:200])
  if not alias_prefix_of_own_module(R, ast) and \
      R.msgspec.msgpack.Encoder(order="deterministic").encode(su.SerializeAst(d.ast)) != b:
    return "bytes differ from the deterministic (sorted) encoding"
  # history: a loader links the decoded AST in place (serialize_ast.FillLocalReferences / ProcessAst); a later decode of
  # the SAME bytes in the same process must still be the pointer-free canonical declarations and re-encode to them
  try:
    d.ast.Visit(R.visitors.FillInLocalPointers({"": d.ast, d.ast.name: d.ast}))   # in place, as ProcessAst does
    d2 = pu.DecodeAst(b)
    d3 = pu.DecodeAst(bytes(bytearray(b)))
    for dd in (d2, d3):
      if any(c.cls is not None for c in collect_class_types(R, dd.ast)):
        return "a later DecodeAst of the same bytes returns ClassType pointers filled in by the user of an earlier decode"
      if val_noptr(R, dd.ast) != val_noptr(R, canon):
        return "a later DecodeAst of the same bytes differs from the first"
      if pu.Encode(dd) != b:
        return "Encode(second DecodeAst(bytes)) gives different bytes"
  except Exception as e:  # pylint: disable=broad-except
    return "decoding the same bytes again after linking the first result raised %s: %s" % (type(e).__name__, str(e)[:200])
  return None


def file_oracle(R, asts):
  """Save/Load (gzip with fixed mtime) and the module bundle: byte-stable files, loading gives the value back."""
  import gzip
  import shutil
  import tempfile
  import unittest.mock
  pu = R.pickle_utils
  d = tempfile.mkdtemp(prefix="c12-", dir=common.BUILD)
  try:
    for label, ast in asts:
      sa = R.serialize_ast.SerializeAst(ast)
      path = os.path.join(d, "m.pickled")
      outs = []
      for t in (1000.0, 987654321.0):
        with unittest.mock.patch("time.time", return_value=t):
          pu.Save(sa, path, compress=True)
        outs.append(open(path, "rb").read())
      if outs[0] != outs[1]:
        return "%s: Save(compress=True) writes different files at different times" % label
      if gzip.decompress(outs[0]) != pu.Encode(sa):
        return "%s: gzip payload differs from Encode" % label
      if not node_eq(R, pu.LoadAst(path, compress=True), sa):
        return "%s: LoadAst(Save(x)) != x" % label
      pu.SerializeAndSave(ast, path, compress=False, src_path="a/b.pyi", metadata=["k=v"])
      raw = open(path, "rb").read()
      if raw != pu.Serialize(ast, src_path="a/b.pyi", metadata=["k=v"]):
        return "%s: SerializeAndSave differs from Serialize" % label
      back = pu.LoadAst(path)
      if back.src_path != "a/b.pyi" or back.metadata != ["k=v"]:
        return "%s: src_path/metadata not preserved" % label
    mods = [(label, label + ".pyi", ast) for label, ast in asts]
    bundle = pu.PrepareModuleBundle(mods)
    b = pu.Encode(bundle)
    if b != pu.Encode(pu.PrepareModuleBundle(mods)):
      return "module bundle encoding is not stable"
    got = pu.DecodeBuiltins(b)
    if len(got) != len(mods):
      return "module bundle lost modules"
    for (name, rawast), (label, fn, ast) in zip(got, mods):
      if name != label or bytes(rawast) != pu.Serialize(ast, src_path=fn):
        return "module bundle entry %s differs from Serialize" % label
      if not R.pytd_utils.ASTeq(pu.DecodeAst(bytes(rawast)).ast, R.pytd_utils.CanonicalOrdering(ast)):
        return "module bundle entry %s does not decode to the canonical AST" % label
  except Exception as e:  # pylint: disable=broad-except
    return "Save/Load raised %s: %s" % (type(e).__name__, str(e)[:200])
  finally:
    shutil.rmtree(d, ignore_errors=True)
  return None


def val_noptr(R, ast):
  """Token image of an AST ignoring ClassType.cls pointers and lookup caches."""
  p = R.pytd
  out = []

  def go(x):
    if isinstance(x, p.ClassType):
      out.append("C" + x.name)
    elif isinstance(x, R.msgspec.Struct):
      out.append("O" + type(x).__name__)
      for f in x.__struct_fields__:
        if f != "_name2item":
          go(getattr(x, f))
    elif isinstance(x, (tuple, list)):
      out.append("U%d" % len(x))
      for y in x:
        go(y)
    else:
      out.append(repr(x))
  go(ast)
  return out


def eqhash_oracle(pool):
  """All ordered pairs: a == b must imply hash(a) == hash(b) and a single set entry."""
  bad = []
  hs = [hash(a) for a in pool]
  for i, a in enumerate(pool):
    for j, b in enumerate(pool):
      if i < j and a == b and (hs[i] != hs[j] or len({a, b}) != 1):
        bad.append((i, j))
  return bad


# ----------------------------------------------------------------------------
# K1
# ----------------------------------------------------------------------------
def first_diff(a, b):
  """Index of the first differing character (binary search on prefixes)."""
  lo, hi = 0, min(len(a), len(b))
  if a[:hi] == b[:hi]:
    return hi
  while lo < hi:
    mid = (lo + hi) // 2
    if a[:mid + 1] == b[:mid + 1]:
      lo = mid + 1
    else:
      hi = mid
  return lo


CASES = []   # all K1 cases of this run (S looks the objects up again)
ASTS = []    # (label, TypeDeclUnit) handed to Serialize


def build_asts(R, rng, tier, gen, res, crashes):
  """ASTs 'pytype emits or loads': emitted for programs, bundled stubs (parsed), loader-resolved builtins.
  Exceptions of the real code are collected in `crashes` (they become disagreements)."""
  import traceback
  asts = []

  def crash(what, inp, e):
    crashes.append({"kind": "real-crash", "what": "%s raised %s: %s" % (what, type(e).__name__, str(e)[:300]),
                    "input": inp, "traceback": traceback.format_exc()[-1500:]})
  opts = R.config.Options.create(python_version=(3, 12))
  progs = list(PROGRAMS) + [gen_program(rng, i) for i in range(4 if tier == "quick" else 30)]
  if tier == "quick":
    progs = [progs[i] for i in sorted(rng.sample(range(len(PROGRAMS)), 5))] + progs[len(PROGRAMS):]
  try:
    loader = R.load_pytd.create_loader(opts)
    _ = loader.builtins
  except Exception as e:  # pylint: disable=broad-except
    crash("load_pytd.create_loader / loading the bundled builtins", "pytype/stubs/builtins/builtins.pytd", e)
    loader = None
  if loader is not None:
    for i, src in enumerate(progs):
      try:
        ret, _ = R.io.generate_pyi(src, opts, loader)
        asts.append(("emitted:%d" % i, ret.ast, src))
      except Exception as e:  # pylint: disable=broad-except
        crash("io.generate_pyi", src, e)
  # bundled stubs, parsed (unresolved NamedTypes)
  popts = R.parser.PyiOptions(python_version=(3, 12))
  stub_dir = os.path.join(common.REPO, "pytype", "stubs", "builtins")
  stubs = ["builtins.pytd", "typing.pytd", "protocols.pytd", "mypy_extensions.pytd"]
  if tier == "thorough":
    for sub in ("attr", "attrs", "numpy"):
      d = os.path.join(stub_dir, sub)
      if os.path.isdir(d):
        stubs += [os.path.join(sub, f) for f in sorted(os.listdir(d)) if f.endswith((".pytd", ".pyi"))]
  for s in stubs:
    path = os.path.join(stub_dir, s)
    if not os.path.exists(path):
      continue
    mod = os.path.splitext(s)[0].replace(os.sep, ".")
    try:
      asts.append(("stub:" + s, R.parser.parse_string(open(path).read(), name=mod, filename=path, options=popts), None))
    except Exception as e:  # pylint: disable=broad-except
      if s in ("builtins.pytd", "typing.pytd", "protocols.pytd", "mypy_extensions.pytd"):
        crash("parser.parse_string", "pytype/stubs/builtins/" + s, e)
      else:
        res.cov.setdefault("stub_parse_errors", []).append("%s: %s" % (s, str(e)[:100]))
  # hand-written stubs prepared for export (SourceToExportableAst = what pytype does with a .pyi it is given): local
  # classes are resolved, typing classes are not, so the tree is in a mixed resolution state; unions of same-base
  # generics whose parameters are a local class in one member and a typing class in the other; module names that sort
  # before and after `builtins` / `typing`
  HAND_STUB = (
      "from typing import Callable, Dict, Hashable, Iterable, List, Optional, Sized, Tuple, Union\n"
      "class Local:\n    v: int\n    def key(self) -> Hashable: ...\n"
      "def a(x: Union[Tuple[Local, int], Tuple[Hashable, int, str]]) -> "
      "Union[Callable[[Local], int], Callable[[Sized, int], str]]: ...\n"
      "def b(x: Union[List[Local], List[Hashable]], y: Union[Dict[str, Local], Dict[str, Iterable[int]]]) -> "
      "Optional[Local]: ...\n"
      "def c(k: Union[Local, Hashable]) -> Union[Tuple[Hashable, int], Tuple[Local, int, str]]: ...\n"
      "z: Union[Callable[[int], Local], Callable[[int, str], Hashable]]\n")
  if loader is not None:
    for mod in ("aaa", "pkg.mod", "utils", "zzz.views"):
      try:
        asts.append(("hand-stub-exportable:" + mod, R.serialize_ast.SourceToExportableAst(mod, HAND_STUB, loader), None))
      except Exception as e:  # pylint: disable=broad-except
        crash("serialize_ast.SourceToExportableAst", "hand stub as module " + mod, e)
  # export-dialect units with module aliases and LateTypes at every depth below an aliased prefix (hand-built: the
  # sandbox cannot import third modules, so pytype itself never emits these here)
  try:
    p = R.pytd
    def lt(n):
      return p.LateType(n)
    def unit(name, aliases, late):
      return p.TypeDeclUnit(
          name=name,
          constants=tuple(p.Constant("%s.k%d" % (name, i), lt(n), None) for i, n in enumerate(late)),
          type_params=(), classes=(), functions=(),
          aliases=tuple(p.Alias("%s.%s" % (name, a), p.Module(a, m)) for a, m in aliases))
    asts.append(("alias-unit:aliased", unit("uses_alias", [("shapes", "gfx.primitives"), ("gfx.colors", "gfx.colors"),
                                                             ("gfx", "gfx")],
                                             ["shapes.Square", "shapes.Outer.Inner", "shapes.Outer.Inner.Deep",
                                              "gfx.colors.Palette", "gfx.colors.Palette.Entry", "gfx.text.Font",
                                              "gfx.Font", "other.Thing", "plain"]), None))
    # the same names in a unit WITHOUT aliases: nothing may be rewritten (no alias of another unit is ever used)
    asts.append(("alias-unit:plain", unit("no_alias", [], ["shapes.Square", "shapes.Outer.Inner", "gfx.colors.Palette.Entry",
                                                           "gfx.Font"]), None))
    asts.append(("alias-unit:aliased-again", unit("uses_alias2", [("shapes", "other.shapes")],
                                                   ["shapes.Square", "shapes.Outer.Inner"]), None))
  except Exception as e:  # pylint: disable=broad-except
    crash("constructing the alias units", "alias-unit", e)
  for i in range(6 if tier == "quick" else 60):
    try:
      asts.append(("generated-unit:%d" % i, gen.unit(2, size=3, name="gen%d" % i), None))
    except Exception as e:  # pylint: disable=broad-except
      crash("constructing generated pytd nodes", "generated-unit:%d" % i, e)
      break
  # the resolved builtins/typing of a fresh loader (ClassType pointers everywhere); serialising clears
  # the pointers in place, so this loader is not used for anything else afterwards
  try:
    fresh = R.load_pytd.create_loader(opts)
    asts.append(("loader:builtins", fresh.builtins, None))
    asts.append(("loader:typing", fresh.typing, None))
  except Exception as e:  # pylint: disable=broad-except
    if loader is not None:
      crash("load_pytd.create_loader", "pytype/stubs/builtins", e)
  return asts


def correspond(res, rng, tier):
  if PREP["error"]:
    return [{"kind": "translator-failed", "log": PREP["error"]}]
  R = Real.get()
  t0 = time.time()
  # P built drv_c12 together with the Props module (extra_targets); only when P failed make sure the
  # driver matches the regenerated schema (one more serialised lake call)
  if res.cov.get("obligations") and res.cov.get("discharged") == res.cov.get("obligations"):
    drv = common.Driver("drv_c12")
  else:
    drv = common.ensure_driver("drv_c12")
  gen = Gen(rng, R)
  disagreements = []
  cases = []
  for mk in (gen.size_cases, lambda: gen.decl_cases(260 if tier == "quick" else 2500, 3), gen.probe_cases):
    try:
      cases += mk()
    except Exception as e:  # pylint: disable=broad-except
      import traceback
      disagreements.append({"kind": "real-crash", "what": "constructing pytd nodes raised %s: %s" % (
          type(e).__name__, str(e)[:300]), "input": "generator", "traceback": traceback.format_exc()[-1500:]})
  # ASTs: laws first (they need the unserialised tree), then the SerializableAst as a codec case
  trace("cases generated")
  asts = build_asts(R, rng, tier, gen, res, disagreements)
  trace("asts built")
  ASTS[:] = asts
  law_fail = 0
  for label, ast, src in asts:
    msg = ast_oracle(R, ast)
    trace("ast_oracle " + label)
    if msg:
      law_fail += 1
      disagreements.append({"kind": "ast-law", "case": label, "what": msg, "source": src})
    try:
      sa = R.serialize_ast.SerializeAst(ast)
      cases.append({"tyname": "SerializableAst", "obj": sa, "legit": True, "origin": label.split(":")[0], "label": label})
    except Exception as e:  # pylint: disable=broad-except
      disagreements.append({"kind": "ast-law", "case": label, "what": "SerializeAst raised %r" % e, "source": src})
  CASES[:] = cases
  # ---- real side
  lines = []
  meta = []
  per_class = {}
  for idx, c in enumerate(cases):
    obj, tyn = c["obj"], c["tyname"]
    try:
      toks = " ".join(to_tokens(obj, [], R.msgspec))
    except Untokenizable as e:
      if c["legit"]:
        disagreements.append({"kind": "outside-model", "case": idx, "what": str(e), "repr": repr(obj)[:300]})
      continue
    try:
      real = R.pickle_utils.Encoder.encode(obj)
      enc_err = None
    except Exception as e:  # pylint: disable=broad-except
      real, enc_err = None, "%s: %s" % (type(e).__name__, str(e)[:100])
    dec_ok = False
    dec_err = None
    if real is not None:
      try:
        d = R.decoder(tyn).decode(real)
        dec_ok = to_tokens(d, [], R.msgspec) == to_tokens(obj, [], R.msgspec)
        if not dec_ok:
          dec_err = "decoded to a different value"
      except Exception as e:  # pylint: disable=broad-except
        dec_err = "%s: %s" % (type(e).__name__, str(e)[:140])
    if c["legit"]:
      msg = codec_oracle(R, tyn, obj)
      if msg:
        disagreements.append({"kind": "codec-law", "case": idx, "type": tyn, "what": msg,
                              "repr": repr(obj)[:400], "label": c.get("label")})
    lines.append("rt %s %s" % (tyn, toks))
    meta.append((idx, real, enc_err, dec_ok, dec_err))
    per_class[type(obj).__name__] = per_class.get(type(obj).__name__, 0) + 1
  t_real = time.time() - t0
  trace("real side done")
  out = drv.batch(lines)
  trace("driver done")
  t_drv = time.time() - t0 - t_real
  distinct = set()
  nbytes = 0
  n_agree = 0
  for (idx, real, enc_err, dec_ok, dec_err), o in zip(meta, out):
    c = cases[idx]
    parts = o.split(" ")
    if len(parts) != 3:
      disagreements.append({"kind": "driver", "case": idx, "out": o[:200]})
      continue
    mhex, wt, ok = parts
    real_ok = real is not None and dec_ok
    prob = None
    rhex = real.hex() if real is not None else None
    if rhex is not None and rhex != mhex:
      k = first_diff(rhex, mhex)
      prob = "bytes differ at hex offset %d: real …%s model …%s (len %d vs %d)" % (
          k, rhex[max(0, k - 8):k + 24], mhex[max(0, k - 8):k + 24], len(real), len(mhex) // 2)
    elif (wt == "1") != real_ok:
      prob = "model WT=%s but real encode/decode %s (%s)" % (wt, "succeeds" if real_ok else "fails", enc_err or dec_err)
    elif (ok == "1") != real_ok:
      prob = "model decode∘encode=id is %s but real is %s (%s)" % (ok, real_ok, enc_err or dec_err)
    if prob:
      disagreements.append({"kind": "codec", "case": idx, "type": c["tyname"], "what": prob,
                            "repr": repr(c["obj"])[:400], "label": c.get("label"), "legit": c["legit"]})
    else:
      n_agree += 1
    if real is not None:
      nbytes += len(real)
      if c["legit"] and count_structs(c["obj"], R.msgspec) >= 3:
        distinct.add(real)
  # ---- files
  small_asts = [(a[0].replace(":", "_"), a[1]) for a in asts if a[0].startswith(("emitted", "generated-unit"))][:4]
  fmsg = file_oracle(R, small_asts) if small_asts else None
  if fmsg:
    disagreements.append({"kind": "file-law", "what": fmsg})
  trace("file laws done")
  # ---- K2
  k2 = correspond_eqhash(res, rng, tier, R, drv, gen, disagreements)
  n_undo = correspond_undo(res, rng, tier, R, drv, disagreements)
  trace("K2 done")
  res.cov["evaluations"] = len(meta) + k2["pairs"] + n_undo
  res.cov["distinct_nontrivial"] = len(distinct) + k2["distinct_classes"]
  res.cov["exhaustive"] = False
  res.cov["rule"] = (
      "K1: each case is a real pytd/SerializableAst object; real msgspec bytes (pickle_utils.Encoder) must equal "
      "the Lean driver's encodeNode bytes exactly, the model's WT and decode∘encode verdicts must equal the real "
      "encode+decode outcome, and for legit cases the real laws decode(encode x)==x / re-encode identical / "
      "deterministic must hold; ASTs additionally: DecodeAst(Serialize x).ast == CanonicalOrdering(x), deps, "
      "cls pointers cleared, Serialize(decoded.ast) byte-identical, canonical ordering idempotent. "
      "non-trivial = legit case with >= 3 struct nodes; distinct = distinct real byte strings. "
      "K2: all ordered pairs of a pool of real type nodes: real == vs model veq, model-equal-hash => real "
      "equal hash; distinct = number of distinct model hash classes in the pool.")
  res.cov["distribution"] = {
      "k1_cases": len(meta), "k1_agree": n_agree, "k1_real_bytes_total": nbytes,
      "k1_by_origin": {o: sum(1 for c in cases if c["origin"] == o) for o in sorted({c["origin"] for c in cases})},
      "k1_by_class_of_root": per_class, "asts": [a[0] for a in asts][:80], "ast_law_failures": law_fail,
      "largest_case_bytes": max((len(m[1]) for m in meta if m[1] is not None), default=0),
      "file_law_asts": len(small_asts), "k2": k2, "seconds_real": round(t_real, 1), "seconds_driver": round(t_drv, 1),
      "translator_notes": PREP["notes"],
  }
  res.add_samples([
      {"type": cases[i]["tyname"], "value": repr(cases[i]["obj"])[:300],
       "bytes_hex": (meta_i[1].hex()[:160] if meta_i[1] else None)}
      for i, meta_i in [(m[0], m) for m in meta[60:63]]] + [{"pool_pair_sample": k2.get("sample")}])
  return disagreements


# ----------------------------------------------------------------------------
# K2
# ----------------------------------------------------------------------------
def build_pool(rng, R, gen, n_base):
  p = R.pytd
  pool = []
  seen = set()

  def add(t):
    try:
      k = " ".join(to_tokens(t, [], R.msgspec))
    except Untokenizable:
      return
    if k not in seen:
      seen.add(k)
      pool.append(t)
  I, S, B = p.NamedType("int"), p.NamedType("str"), p.NamedType("bool")
  fixed = [I, S, p.ClassType("int"), p.LateType("int"), p.LateType("int", True), p.AnythingType(), p.NothingType(),
           p.UnionType((I, S)), p.UnionType((S, I)), p.UnionType((I, S, I)), p.UnionType((I,)),
           p.UnionType((p.UnionType((S, I)), B)), p.UnionType((B, S, I)), p.UnionType((I, p.UnionType((S, B)))),
           p.IntersectionType((I, S)), p.IntersectionType((S, I)),
           p.UnionType((p.ClassType("int"), S)), p.UnionType((S, p.ClassType("int"))),
           p.Literal(1), p.Literal(True), p.Literal("1"), p.Literal(0), p.Literal(False), p.Literal(""),
           p.Literal(2 ** 61 - 1), p.Literal(-1), p.Literal(-2),
           p.UnionType((p.Literal(1), p.Literal(True))), p.UnionType((p.Literal(True), p.Literal(0))),
           p.UnionType((p.Literal(1), S)), p.UnionType((S, p.Literal(True))),
           p.GenericType(p.NamedType("list"), (p.UnionType((I, S)),)),
           p.GenericType(p.NamedType("list"), (p.UnionType((S, I)),)),
           p.TupleType(p.NamedType("list"), (p.UnionType((S, I)),)),
           p.CallableType(p.NamedType("list"), (p.UnionType((S, I)),)),
           p.GenericType(p.ClassType("list"), (p.UnionType((S, I)),)),
           p.TypeParameter("T"), p.ParamSpec("T"), p.TypeParameter("T", scope="a"), p.TypeParameter("T", bound=I),
           p.TypeParameter("T", constraints=(p.UnionType((I, S)),)), p.TypeParameter("T", constraints=(p.UnionType((S, I)),)),
           p.ParamSpecArgs("P"), p.ParamSpecKwargs("P"),
           p.Annotated(I, ("a",)), p.Annotated(I, ()), p.Annotated(p.UnionType((S, I)), ("a",)),
           p.Annotated(p.UnionType((I, S)), ("a",)),
           p.Literal(p.Constant("E.A", p.NamedType("E"))), p.Literal(p.Constant("E.A", p.ClassType("E"))),
           p.Literal(I), p.Literal(p.UnionType((I, S))), p.Literal(p.UnionType((S, I)))]
  for t in fixed:
    add(t)
  base = [gen.ty(2) for _ in range(n_base)]
  for t in base:
    add(t)
    if len(pool) > 3 * n_base + len(fixed):
      break
  # variants: permuted / duplicated / re-nested unions, class swaps, wrappers
  for t in list(pool):
    if isinstance(t, (p.UnionType, p.IntersectionType)) and len(t.type_list) >= 2:
      tl = list(t.type_list)
      add(type(t)(tuple(reversed(tl))))
      add(type(t)(tuple(tl[1:] + tl[:1] + tl[:1])))
      add(type(t)((type(t)(tuple(tl[1:])), tl[0])))
      add((p.IntersectionType if isinstance(t, p.UnionType) else p.UnionType)(tuple(tl)))
      add(p.GenericType(p.NamedType("list"), (type(t)(tuple(reversed(tl))),)))
      add(p.GenericType(p.NamedType("list"), (t,)))
    elif isinstance(t, p.NamedType) and rng.random() < 0.5:
      add(p.ClassType(t.name))
      add(p.LateType(t.name))
    elif type(t) is p.GenericType and rng.random() < 0.5:
      add(p.TupleType(t.base_type, t.parameters))
      add(p.CallableType(t.base_type, t.parameters))
  return pool


def correspond_undo(res, rng, tier, R, drv, disagreements):
  """serialize_ast.UndoModuleAliasesVisitor (real, one fresh instance per unit) against the Lean model `undoAlias`:
  random alias tables and dotted names over a small component alphabet (so that prefixes collide), plus the shapes
  of the known finding.  Also checks on the real code what the theorems say: names of a unit without aliases are
  unchanged, and under the model's `noChain` a second visit changes nothing."""
  p, su = R.pytd, R.serialize_ast
  comps = ["a", "b", "foo", "bar", "gfx", "C", "\u00e9"]

  def dotted(lo, hi):
    return ".".join(rng.choice(comps) for _ in range(rng.randrange(lo, hi + 1)))
  cases = [([("foo", "foo.bar")], "foo.Thing"), ([("foo", "foo.bar")], "foo.bar.Thing"), ([], "a.b.C"),
           ([("shapes", "gfx.primitives"), ("gfx.colors", "gfx.colors"), ("gfx", "gfx")], "gfx.colors.Palette.Entry"),
           ([("a", "b"), ("a", "C")], "a.x"), ([("a.b", "x"), ("a", "y")], "a.b.c.d"), ([("a", "x")], "a")]
  for _ in range(600 if tier == "quick" else 6000):
    al = [(dotted(1, 2), dotted(1, 3)) for _ in range(rng.randrange(0, 4))]
    cases.append((al, dotted(1, 4)))
  hx = lambda t: t.encode("utf-8").hex()
  lines = ["undo %d %s %s" % (len(al), " ".join(hx(a) + " " + hx(m) for a, m in al), hx(n)) for al, n in cases]
  lines = [" ".join(l.split()) for l in lines]
  outs = drv.batch(lines)
  n_rewritten = n_chain = 0
  for (al, name), out in zip(cases, outs):
    def visit(nm):
      u = p.TypeDeclUnit(name="u", constants=(p.Constant("u.k", p.LateType(nm), None),), type_params=(), classes=(),
                         functions=(), aliases=tuple(p.Alias("u." + a, p.Module(a, m)) for a, m in al))
      return u.Visit(su.UndoModuleAliasesVisitor()).constants[0].type.name
    real = visit(name)
    try:
      mh, chain = out.split(" ")
      model = bytes.fromhex(mh).decode("utf-8")
    except Exception:  # pylint: disable=broad-except
      disagreements.append({"kind": "undo-aliases", "what": "driver answer unreadable", "line": out[:200]})
      continue
    n_rewritten += real != name
    if real != model:
      disagreements.append({"kind": "undo-aliases", "what": "UndoModuleAliasesVisitor differs from the model",
                            "aliases": al, "name": name, "real": real, "model": model})
      continue
    if not al and real != name:
      disagreements.append({"kind": "undo-aliases", "what": "a unit without aliases was rewritten", "name": name, "real": real})
    if chain == "1":
      n_chain += 1
      if visit(real) != real:
        disagreements.append({"kind": "undo-aliases", "what": "not idempotent although noChain holds", "aliases": al,
                              "name": name, "once": real, "twice": visit(real)})
  res.cov["undo_aliases"] = {"cases": len(cases), "rewritten": n_rewritten, "noChain_cases_checked_idempotent": n_chain}
  return len(cases)


def correspond_eqhash(res, rng, tier, R, drv, gen, disagreements):
  pool = build_pool(rng, R, gen, 110 if tier == "quick" else 260)
  cap = 380 if tier == "quick" else 900
  pool = pool[:cap]
  n = len(pool)
  lines = ["reset"] + ["pool " + " ".join(to_tokens(t, [], R.msgspec)) for t in pool] + ["eqmat", "hcls", "eqok"]
  trace("K2 pool built: %d" % n)
  out = drv.batch(lines)
  trace("K2 driver done")
  if len(out) != 3:
    disagreements.append({"kind": "driver", "what": "pool protocol", "out": [o[:100] for o in out][:5]})
    return {"pool": n, "pairs": 0, "distinct_classes": 0}
  rows = out[0].split(",")
  cls = [int(x) for x in out[1].split(" ")]
  eqok = out[2]
  hs = [hash(t) for t in pool]
  trace("K2 hashes done")
  n_eq = n_bad = accidental = 0
  acc_samples = []
  for i in range(n):
    if eqok[i] != "1":
      disagreements.append({"kind": "eqhash", "what": "model eqOK false for a type node", "a": repr(pool[i])[:300]})
    a = pool[i]
    row = rows[i]
    for j in range(n):
      b = pool[j]
      re = bool(a == b)
      me = row[j] == "1"
      if re:
        n_eq += 1
      bad = None
      if re != me:
        bad = "real == is %s, model veq is %s" % (re, me)
      elif cls[i] == cls[j] and hs[i] != hs[j]:
        bad = "model hashes equal (forced by ==/structure) but real hash() differs"
      elif re and (hs[i] != hs[j] or len({a, b}) != 1):
        bad = "real law broken: a == b but hash differs / set keeps both"
      elif cls[i] != cls[j] and hs[i] == hs[j]:
        accidental += 1
        if len(acc_samples) < 3:
          acc_samples.append([repr(a)[:120], repr(b)[:120]])
      if bad:
        n_bad += 1
        if n_bad <= 8:
          disagreements.append({"kind": "eqhash", "what": bad, "a": repr(a)[:300], "b": repr(b)[:300], "pair": [i, j]})
  # resolved nodes (ClassType.cls filled in, as after load_pytd resolution): the model compares ClassType by name only,
  # so == on resolved nodes must equal == on their pointer-free copies, and the hash law must hold for them too
  p = R.pytd
  mk = lambda nm: p.Class(name=nm, keywords=(), bases=(), methods=(), constants=(), classes=(), decorators=(),
                          slots=None, template=())
  k1, k2 = mk("builtins.str"), mk("other.str")
  def ct(nm, c=None):
    t = p.ClassType(nm)
    t.cls = c
    return t
  L = lambda t: p.GenericType(ct("builtins.list"), (t,))
  U = lambda t: p.UnionType((t, p.NamedType("int")))
  base = [("builtins.str", k1), ("typing.Text", k1), ("builtins.str", k2), ("builtins.str", None), ("typing.Text", None)]
  resolved = [(f(ct(nm, c)), f(ct(nm))) for nm, c in base for f in (lambda t: t, L, U)]
  for i, (a, a0) in enumerate(resolved):
    for j, (b, b0) in enumerate(resolved):
      re_, r0 = bool(a == b), bool(a0 == b0)
      bad = None
      if re_ != r0:
        bad = "== on resolved nodes (%s) differs from == on their pointer-free copies (%s)" % (re_, r0)
      elif re_ and (hash(a) != hash(b) or len({a, b}) != 1):
        bad = "real law broken on resolved nodes: a == b but hash differs / set keeps both"
      if bad:
        n_bad += 1
        if n_bad <= 8:
          disagreements.append({"kind": "eqhash", "what": bad, "a": repr(a)[:300], "b": repr(b)[:300],
                                "pair": ["resolved", i, j]})
  EQPOOL[:] = pool
  return {"pool": n, "pairs": n * n, "resolved_pairs": len(resolved) ** 2, "real_equal_pairs": n_eq, "off_diagonal_equal_pairs": n_eq - n,
          "distinct_classes": len(set(cls)), "accidental_hash_collisions": accidental,
          "accidental_samples (CPython int hash: hash(-1)==hash(-2), hash(2**61-1)==hash(0))": acc_samples,
          "mismatches": n_bad,
          "sample": [repr(pool[min(n - 1, 8)])[:160], repr(pool[min(n - 1, 9)])[:160]]}


EQPOOL = []


# ----------------------------------------------------------------------------
# W
# ----------------------------------------------------------------------------
def witnesses(res):
  R = Real.get()
  p = R.pytd
  known, fixed = common.known_findings("C12")
  n = 0
  for e in fixed:
    if e.get("id") == "c12-union-hash":
      n += 1
      I, S = p.NamedType("int"), p.NamedType("str")
      pairs = [(p.UnionType((I, S)), p.UnionType((S, I))),
               (p.GenericType(p.NamedType("list"), (p.UnionType((I, S)),)),
                p.GenericType(p.NamedType("list"), (p.UnionType((S, I)),))),
               (p.IntersectionType((I, S)), p.IntersectionType((S, I)))]
      for a, b in pairs:
        if not (a == b and hash(a) == hash(b) and len({a, b}) == 1):
          res.violation("fixed-c12-union-hash", {
              "property": "C12", "kind": "failing-input", "finding": e["id"],
              "input": {"a": repr(a), "b": repr(b), "a==b": bool(a == b), "hash(a)": hash(a), "hash(b)": hash(b),
                        "len({a,b})": len({a, b})},
              "what": "fixed defect is back: equal set-like types hash differently"})
          break
  for e in known:
    n += 1
    if e.get("id") == "c12-alias-prefix-of-own-module":
      u = p.TypeDeclUnit(name="w", constants=(p.Constant("w.k", p.LateType("foo.Thing"), None),), type_params=(),
                         classes=(), functions=(), aliases=(p.Alias("w.foo", p.Module("foo", "foo.bar")),))
      b = R.pickle_utils.Serialize(u)
      d = R.pickle_utils.DecodeAst(b)
      if R.pickle_utils.Serialize(d.ast) != b and late_names(R, d.ast) == ["foo.bar.Thing"]:
        res.known_lines.append(e["what"])
      continue
    res.known_lines.append(e.get("what", e.get("id", "?")))
  res.cov["witnesses_replayed"] = n


# ----------------------------------------------------------------------------
# S
# ----------------------------------------------------------------------------
def shrink_node(R, tyname, obj, fails, budget_s=20.0):
  """Greedy structural shrinking that keeps the value legit: drop tuple elements, replace a type node by
  one of its type-node children, shorten strings."""
  p = R.pytd
  t0 = time.time()

  def children_types(x):
    out = []
    if isinstance(x, R.msgspec.Struct):
      for f in x.__struct_fields__:
        v = getattr(x, f)
        if isinstance(v, p.Type):
          out.append(v)
        elif isinstance(v, tuple):
          out += [y for y in v if isinstance(y, p.Type)]
    return out

  def variants(x):
    """Smaller legit variants of x (one step)."""
    if not isinstance(x, R.msgspec.Struct) or isinstance(x, p.ClassType):
      return
    if isinstance(x, p.Type):
      for c in children_types(x):
        yield c
    for f in x.__struct_fields__:
      if f == "_name2item":
        continue
      v = getattr(x, f)
      if isinstance(v, tuple) and v:
        minlen = 1 if isinstance(x, (p.UnionType, p.IntersectionType, p.CallableType, p.Concatenate)) else 0
        if len(v) > minlen:
          for i in range(len(v)):
            try:
              yield x.Replace(**{f: v[:i] + v[i + 1:]})
            except Exception:  # pylint: disable=broad-except
              pass
        for i, y in enumerate(v):
          for y2 in variants(y):
            try:
              yield x.Replace(**{f: v[:i] + (y2,) + v[i + 1:]})
            except Exception:  # pylint: disable=broad-except
              pass
      elif isinstance(v, R.msgspec.Struct):
        for v2 in variants(v):
          try:
            yield x.Replace(**{f: v2})
          except Exception:  # pylint: disable=broad-except
            pass
      elif isinstance(v, str) and len(v) > 1 and f == "name":
        try:
          yield x.Replace(**{f: "x"})
        except Exception:  # pylint: disable=broad-except
          pass
  cur = obj
  progress = True
  while progress and time.time() - t0 < budget_s:
    progress = False
    for cand in variants(cur):
      if time.time() - t0 > budget_s:
        break
      ok_type = isinstance(cand, p.Type) if tyname == "TypeU" else type(cand).__name__ == tyname
      try:
        if ok_type and fails(cand):
          cur = cand
          progress = True
          break
      except Exception:  # pylint: disable=broad-except
        continue
  return cur


def shrink_ast(R, ast, fails, budget_s=25.0):
  p = R.pytd
  items = [(f, x) for f in ("constants", "type_params", "classes", "functions", "aliases") for x in getattr(ast, f)]

  def build(its):
    return p.TypeDeclUnit(ast.name, *[tuple(x for f2, x in its if f2 == f)
                                      for f in ("constants", "type_params", "classes", "functions", "aliases")])
  small = build(common.ddmin(items, lambda its: fails(build(its)), budget_s=budget_s))
  # then inside the remaining declarations
  return shrink_node(R, "TypeDeclUnit", small, fails, budget_s=15.0)


def search(res, rng, disagreements, pfail):
  R = Real.get()
  p = R.pytd
  found = []
  t0 = time.time()
  gen = Gen(rng, R)

  def add_node(tyname, obj, msg, origin):
    small = shrink_node(R, tyname, obj, lambda o: codec_oracle(R, tyname, o) is not None)
    found.append({"oracle": "decode(encode(x)) == x, byte-stable, on the real msgspec classes", "declared_type": tyname,
                  "input": repr(small), "what": codec_oracle(R, tyname, small) or msg, "origin": origin,
                  "unshrunk": repr(obj)[:300]})

  def add_ast(label, ast, msg, src):
    trace("shrinking ast " + label)
    try:
      small = shrink_ast(R, ast, lambda a: ast_oracle(R, a) is not None)
      trace("shrunk")
      text = R.pytd_utils.Print(small)
    except Exception as e:  # pylint: disable=broad-except
      small, text = ast, "<unprintable: %r>" % e
    found.append({"oracle": "DecodeAst(Serialize(x)).ast == CanonicalOrdering(x), byte-stable re-serialisation",
                  "ast": label, "what": ast_oracle(R, small) or msg, "shrunk_ast_pyi": text[:3000],
                  "shrunk_ast_repr": repr(small)[:3000], "program": src})

  trace("search start")
  # 1. eq/hash law on the pool of this run, then on a fresh larger pool
  pools = [list(EQPOOL), build_pool(rng, R, gen, 200)]
  for pool in pools:
    bad = eqhash_oracle(pool[:700])
    if bad:
      i, j = bad[0]
      a, b = pool[i], pool[j]

      def fails_pair(x, y):
        return x == y and (hash(x) != hash(y) or len({x, y}) != 1)
      a2 = shrink_node(R, "TypeU", a, lambda o: fails_pair(o, b), budget_s=8)
      b2 = shrink_node(R, "TypeU", b, lambda o: fails_pair(a2, o), budget_s=8)
      a3 = shrink_node(R, "TypeU", a2, lambda o: fails_pair(o, b2), budget_s=8)
      found.append({"oracle": "a == b implies hash(a) == hash(b) and len({a, b}) == 1 (real nodes)",
                    "a": repr(a3), "b": repr(b2), "a==b": bool(a3 == b2), "hash(a)": hash(a3), "hash(b)": hash(b2),
                    "len({a,b})": len({a3, b2}), "violating_pairs_in_pool": len(bad)})
      break
  trace("search: eq/hash pools done")
  for d in disagreements:
    if d.get("kind") == "real-crash" and not any("traceback" in f for f in found):
      found.append({"oracle": "pytype can load / emit / construct the AST that is to be serialised",
                    "input": d.get("input"), "what": d.get("what"), "traceback": d.get("traceback")})
  for d in disagreements:
    if d.get("kind") == "file-law":
      for label, ast, src in ASTS:
        if label.startswith(("emitted", "generated-unit")):
          msg = file_oracle(R, [(label.replace(":", "_"), ast)])
          if msg:
            found.append({"oracle": "Save/LoadAst/PrepareModuleBundle: byte-stable files that load back",
                          "ast": label, "program": src, "what": msg, "ast_repr": repr(ast)[:1500]})
            break
      break
  # 2. the inputs of the disagreements
  seen_cases = set()
  order = {"eqhash": 0, "codec": 1, "codec-law": 1, "ast-law": 2}
  for d in sorted(disagreements, key=lambda d: (order.get(d.get("kind"), 3),
                                                 CASES[d["case"]]["tyname"] == "SerializableAst"
                                                 if isinstance(d.get("case"), int) and d["case"] < len(CASES) else False)):
    if len(found) >= 3 or time.time() - t0 > 150:
      break
    if d.get("kind") in ("codec", "codec-law") and d.get("case") is not None and d["case"] < len(CASES):
      if d["case"] in seen_cases:
        continue
      seen_cases.add(d["case"])
      c = CASES[d["case"]]
      if not c["legit"]:
        continue
      if c["tyname"] == "SerializableAst":
        ast = next((a for a in ASTS if a[0] == c.get("label")), None)
        if ast is not None:
          msg = ast_oracle(R, ast[1])
          if msg:
            add_ast(ast[0], ast[1], msg, ast[2])
        continue
      msg = codec_oracle(R, c["tyname"], c["obj"])
      if msg:
        add_node(c["tyname"], c["obj"], msg, c["origin"])
    elif d.get("kind") == "ast-law":
      ast = next((a for a in ASTS if a[0] == d.get("case")), None)
      if ast is not None and ast[0] not in seen_cases:
        seen_cases.add(ast[0])
        msg = ast_oracle(R, ast[1])
        if msg:
          add_ast(ast[0], ast[1], msg, ast[2])
  trace("search: disagreement inputs done, found=%d" % len(found))
  # 3. neighbourhood: fresh legit nodes of every class, fresh generated units, every AST of the run
  if len(found) < 2:
    for c in gen.size_cases()[:40] + gen.decl_cases(400, 3):
      if len(found) >= 2 or time.time() - t0 > 200:
        break
      msg = codec_oracle(R, c["tyname"], c["obj"])
      if msg:
        add_node(c["tyname"], c["obj"], msg, "search")
  if len(found) < 2:
    extra = [("search-unit:%d" % i, gen.unit(2, size=3, name="s%d" % i), None) for i in range(40)]
    for label, ast, src in list(ASTS) + extra:
      if len(found) >= 2 or time.time() - t0 > 260:
        break
      if label in seen_cases:
        continue
      msg = ast_oracle(R, ast)
      if msg:
        add_ast(label, ast, msg, src)
  return found


def main():
  # One C12 check at a time: the regenerated schema and the driver built from it are shared files, and a
  # concurrent run against another tree (PYTYPE_REPO) would swap them under this one.
  import fcntl
  with open(os.path.join(common.BUILD, ".c12.run.lock"), "w") as lk:
    fcntl.flock(lk, fcntl.LOCK_EX)
    return _main()


def _main():
  return common.run_check(
      "C12", REQUIRED, correspond, witnesses, search,
      trusted=[
          "msgspec's C encoder/decoder is not verified: its wire format and struct encoding are modelled "
          "(lean/PytypeModel/Pytd/MsgPack.lean, Codec.lean) and compared byte-for-byte",
          "translate/pytd_schema.py (introspection of the msgspec classes -> Generated/PytdSchema.lean) and "
          "the value tokeniser harness/c12.py:to_tokens",
          "Python's hash(): parameters of eq_hash; assumed only: hash(frozenset) is a symmetric function of the "
          "hashes of its pairwise-unequal elements; hash(True)=hash(1), hash(False)=hash(0)",
          "SerializeAst's preparation (ClearClassPointers, CanonicalOrderingVisitor, CollectDependencies) is "
          "exercised on the real side only (laws in K); the Lean theorem about it is idempotence of the stable "
          "sort step",
      ],
      assumptions=[
          "fields typed Any (ClassType.cls) hold None and lookup caches are empty when encoding (what SerializeAst "
          "establishes; other values are reported as outside the model)",
          "ints within [-2^63, 2^64) (msgspec raises OverflowError outside; mp_roundtrip_not_full), lengths < 2^32",
          "the decoder model requires the tag first and sets sorted (narrower than msgspec; equal on encoder output)",
      ],
      extra_targets=["drv_c12"], prepare=prepare)


if __name__ == "__main__":
  sys.exit(main())
