"""C01 — inferred types admit every computed value (fragment F1, phase a).  DESIGN.md §5 C01."""
import ast
import json
import os
import warnings
import subprocess
import sys

from harness import c01x, common, vmpool

REQUIRED = ["flow_sound", "compat_table_sound", "prune_sound", "flow_sound_pytype_rules", "flow_sound_sem",
            "typeOf_admits", "sub_sound", "collapse_widens", "wider_is_sound",
            "merge_only_hides_older", "rebind_keeps_older", "older_visible_before_merge",
            "visible_iff_clear_path", "hidden_by_later_binding", "rebound_stays_visible", "rebind_op_makes_visible"]

# ----------------------------------------------------------------------------------------------
# program generator: python-side AST = nested tuples mirroring the Lean `Expr`/`Stmt`
# ----------------------------------------------------------------------------------------------
SCALARS = [("i", 0), ("i", 7), ("f", 0), ("f", 1), ("s", ""), ("s", "a"), ("y", 0), ("y", 1), ("b", 0), ("b", 1), ("n",)]
ISTYPES = ["int", "float", "str", "bytes", "bool", "list", "tuple", "set", "dict", "object"]
LLEN = 3  # len(_L)


class Gen:
  def __init__(self, rng, max_opaque=6):
    self.rng = rng
    self.nopaque = 0
    self.max_opaque = max_opaque
    self.thresholds = []
    self.counter = 0

  def scalar(self):
    return ("lit", self.rng.choice(SCALARS))

  def hashable(self, names, depth):
    r = self.rng.random()
    if depth <= 0 or r < 0.7:
      return self.scalar()
    return ("T", [self.hashable(names, depth - 1) for _ in range(self.rng.randrange(0, 3))])

  def distinct_hashables(self, names, n):
    """n hashable literal expressions that are pairwise unequal under Python's == (so that a dict/set display
    keeps every key: {0.0: x, False: y} has ONE entry at run time)."""
    out, seen = [], []
    for _ in range(n):
      e = self.hashable(names, 1)
      v = eval(expr_src(e, []))  # closed literal  # pylint: disable=eval-used
      if any(v == w for w in seen):
        continue
      seen.append(v)
      out.append(e)
    return out

  def opaque(self):
    if self.nopaque >= self.max_opaque:
      return self.scalar()
    k = self.nopaque
    self.nopaque += 1
    self.thresholds.append(self.rng.choice([1, 5]))
    return ("O", k)

  def expr(self, names, depth):
    r = self.rng.random()
    if depth <= 0 or r < 0.22:
      if names and self.rng.random() < 0.55:
        return ("v", self.rng.choice(sorted(names)))
      return self.scalar()
    if r < 0.30 and names:
      return ("v", self.rng.choice(sorted(names)))
    if r < 0.38:
      return ("L", [self.expr(names, depth - 1) for _ in range(self.rng.randrange(0, 4))])
    if r < 0.46:
      return ("T", [self.expr(names, depth - 1) for _ in range(self.rng.randrange(0, 4))])
    if r < 0.50:
      return ("S", self.distinct_hashables(names, self.rng.randrange(1, 3)) or [self.scalar()])
    if r < 0.56:
      ks = self.distinct_hashables(names, self.rng.randrange(0, 3))
      return ("D", ks, [self.expr(names, depth - 1) for _ in ks])
    if r < 0.64:
      return ("?", self.cond(names, depth - 1), self.expr(names, depth - 1), self.expr(names, depth - 1))
    if r < 0.71:
      return ("&", self.expr(names, depth - 1), self.expr(names, depth - 1))
    if r < 0.78:
      return ("|", self.expr(names, depth - 1), self.expr(names, depth - 1))
    if r < 0.83:
      return ("!", self.expr(names, depth - 1))
    if r < 0.88:
      return ("N" if self.rng.random() < 0.5 else "M", self.expr(names, depth - 1))
    if r < 0.94:
      return ("I", self.expr(names, depth - 1), self.rng.choice(ISTYPES))
    return self.opaque()

  def cond(self, names, depth):
    r = self.rng.random()
    if r < 0.35:
      return self.opaque()
    if r < 0.55 and names:
      x = self.rng.choice(sorted(names))
      return self.rng.choice([("N", ("v", x)), ("M", ("v", x)), ("I", ("v", x), self.rng.choice(ISTYPES)), ("v", x)])
    return self.expr(names, depth)

  def fresh(self, names):
    pool = ["a", "b", "c", "d", "e", "g", "h"]
    if names and self.rng.random() < 0.4:
      return self.rng.choice(sorted(names))
    return self.rng.choice(pool)

  def stmts(self, names, n, nest):
    """returns (stmts, definitely-assigned names after)"""
    out = []
    names = set(names)
    for _ in range(n):
      if nest > 0 and self.rng.random() < 0.35:
        c = self.cond(names, 2)
        thn, n1 = self.stmts(names, self.rng.randrange(1, 4), nest - 1)
        if self.rng.random() < 0.8:
          els, n2 = self.stmts(names, self.rng.randrange(1, 4), nest - 1)
        else:
          els, n2 = [], set(names)
        out.append(("if", c, thn, els))
        names = n1 & n2
      else:
        x = self.fresh(names)
        out.append(("=", x, self.expr(names, 3)))
        names.add(x)
    return out, names


def gen_program(rng):
  g = Gen(rng)
  body, _ = g.stmts(set(), rng.randrange(3, 12), rng.choice([1, 2, 2, 3]))
  return {"body": body, "thresholds": g.thresholds}


# --- rendering -------------------------------------------------------------------------------
def lit_src(l):
  k = l[0]
  if k == "i": return str(l[1])
  if k == "f": return "1.5" if l[1] else "0.0"
  if k == "s": return repr(l[1])
  if k == "y": return 'b"a"' if l[1] else 'b""'
  if k == "b": return "True" if l[1] else "False"
  return "None"


def expr_src(e, th):
  k = e[0]
  if k == "lit": return lit_src(e[1])
  if k == "v": return e[1]
  if k == "L": return "[" + ", ".join(expr_src(x, th) for x in e[1]) + "]"
  if k == "T":
    xs = [expr_src(x, th) for x in e[1]]
    return "(" + ", ".join(xs) + ("," if len(xs) == 1 else "") + ")"
  if k == "S": return "{" + ", ".join(expr_src(x, th) for x in e[1]) + "}"
  if k == "D": return "{" + ", ".join("%s: %s" % (expr_src(a, th), expr_src(b, th)) for a, b in zip(e[1], e[2])) + "}"
  if k == "?": return "(%s if %s else %s)" % (expr_src(e[2], th), expr_src(e[1], th), expr_src(e[3], th))
  if k == "&": return "(%s and %s)" % (expr_src(e[1], th), expr_src(e[2], th))
  if k == "|": return "(%s or %s)" % (expr_src(e[1], th), expr_src(e[2], th))
  if k == "!": return "(not %s)" % expr_src(e[1], th)
  if k == "N": return "(%s is None)" % expr_src(e[1], th)
  if k == "M": return "(%s is not None)" % expr_src(e[1], th)
  if k == "I": return "isinstance(%s, %s)" % (expr_src(e[1], th), e[2])
  if k == "O": return "(len(_L) > %d)" % th[e[1]]
  raise ValueError(e)


def stmts_src(ss, th, ind=""):
  out = []
  for s in ss:
    if s[0] == "=":
      out.append("%s%s = %s" % (ind, s[1], expr_src(s[2], th)))
    else:
      out.append("%sif %s:" % (ind, expr_src(s[1], th)))
      out += stmts_src(s[2], th, ind + "  ")
      if s[3]:
        out.append("%selse:" % ind)
        out += stmts_src(s[3], th, ind + "  ")
  return out


def program_src(p, th=None):
  th = p["thresholds"] if th is None else th
  return "\n".join(["_L = [0, 0, 0]"] + stmts_src(p["body"], th)) + "\n"


def lit_sx(l):
  k = l[0]
  if k == "n": return "n"
  if k == "s": return "(s %s)" % l[1] if l[1] else "(s)"
  return "(%s %d)" % (k, l[1])


def expr_sx(e):
  k = e[0]
  if k == "lit": return lit_sx(e[1])
  if k == "v": return "(v %s)" % e[1]
  if k in "LTS": return "(%s%s)" % (k, "".join(" " + expr_sx(x) for x in e[1]))
  if k == "D": return "(D%s)" % "".join(" %s %s" % (expr_sx(a), expr_sx(b)) for a, b in zip(e[1], e[2]))
  if k == "?": return "(? %s %s %s)" % (expr_sx(e[1]), expr_sx(e[2]), expr_sx(e[3]))
  if k in "&|": return "(%s %s %s)" % (k, expr_sx(e[1]), expr_sx(e[2]))
  if k in "!NM": return "(%s %s)" % (k, expr_sx(e[1]))
  if k == "I": return "(I %s %s)" % (expr_sx(e[1]), e[2])
  if k == "O": return "(O %d)" % e[1]
  raise ValueError(e)


def stmts_sx(ss):
  out = []
  for s in ss:
    if s[0] == "=":
      out.append("(= %s %s)" % (s[1], expr_sx(s[2])))
    else:
      out.append("(if %s (%s) (%s))" % (expr_sx(s[1]), " ".join(stmts_sx(s[2])), " ".join(stmts_sx(s[3]))))
  return out


def program_sx(p):
  return " ".join(["(= _L (L (i 0) (i 0) (i 0)))"] + stmts_sx(p["body"]))


# --- reading pytype's answer --------------------------------------------------------------------
class Unsupported(Exception):
  pass


def ann_to_sx(node):
  if isinstance(node, ast.Constant) and node.value is None: return "none"
  if isinstance(node, ast.Name):
    m = {"int": "int", "float": "float", "str": "str", "bytes": "bytes", "bool": "bool", "None": "none",
         "Any": "any", "nothing": "nothing", "NoneType": "none", "object": "any"}
    if node.id in m: return m[node.id]
    if node.id in ("list", "set", "dict", "tuple"):   # unparameterised
      return {"list": "(list any)", "set": "(set any)", "dict": "(dict any any)", "tuple": "any"}[node.id]
    raise Unsupported(node.id)
  if isinstance(node, ast.Subscript):
    base = node.value.id if isinstance(node.value, ast.Name) else None
    sl = node.slice
    elts = list(sl.elts) if isinstance(sl, ast.Tuple) else [sl]
    if base == "Optional": return "(union %s none)" % ann_to_sx(sl)
    if base == "Union": return "(union %s)" % " ".join(ann_to_sx(x) for x in elts)
    if base == "list": return "(list %s)" % ann_to_sx(sl)
    if base == "set": return "(set %s)" % ann_to_sx(sl)
    if base == "dict": return "(dict %s %s)" % (ann_to_sx(elts[0]), ann_to_sx(elts[1]))
    if base == "tuple":
      if isinstance(sl, ast.Tuple) and not sl.elts: return "(tuple)"
      if len(elts) == 2 and isinstance(elts[1], ast.Constant) and elts[1].value is Ellipsis:
        raise Unsupported("variadic tuple")
      return "(tuple%s)" % "".join(" " + ann_to_sx(x) for x in elts)
    raise Unsupported(ast.dump(node))
  raise Unsupported(ast.dump(node))


def read_pyi(pyi):
  """name -> type sexp (or 'any' + flag when the annotation is outside the model's type grammar)"""
  out, unsupported = {}, 0
  for st in ast.parse(pyi).body:
    if isinstance(st, ast.AnnAssign) and isinstance(st.target, ast.Name):
      try:
        out[st.target.id] = ann_to_sx(st.annotation)
      except Unsupported:
        out[st.target.id] = "any"
        unsupported += 1
  return out, unsupported


# --- the property's own oracle: CPython + independent membership ------------------------------
def admits_py(t, v):
  """t: parsed sexp (nested lists/strs) ; v: python value"""
  if t == "any": return True
  if t == "nothing": return False
  if t == "int": return isinstance(v, int)
  if t == "float": return isinstance(v, (int, float))
  if t == "bool": return isinstance(v, bool)
  if t == "str": return isinstance(v, str)
  if t == "bytes": return isinstance(v, bytes)
  if t == "none": return v is None
  h = t[0]
  if h == "union": return any(admits_py(x, v) for x in t[1:])
  if h == "list": return isinstance(v, list) and all(admits_py(t[1], x) for x in v)
  if h == "set": return isinstance(v, set) and all(admits_py(t[1], x) for x in v)
  if h == "dict": return isinstance(v, dict) and all(admits_py(t[1], k) and admits_py(t[2], x) for k, x in v.items())
  if h == "tuple": return isinstance(v, tuple) and len(v) == len(t) - 1 and all(admits_py(a, x) for a, x in zip(t[1:], v))
  raise ValueError(t)


def parse_sx(s):
  toks = s.replace("(", " ( ").replace(")", " ) ").split()
  def rd(i):
    if toks[i] == "(":
      out = []
      i += 1
      while toks[i] != ")":
        x, i = rd(i)
        out.append(x)
      return out, i + 1
    return toks[i], i + 1
  return rd(0)[0]


def oracle_failures(p, types, th):
  """runs the program under CPython with the given thresholds; returns names whose value is not admitted"""
  src = program_src(p, th)
  ns = {}
  try:
    warnings.simplefilter("ignore")
    exec(compile(src, "<c01>", "exec"), ns)  # pylint: disable=exec-used
  except Exception:  # the property only speaks about programs that run to completion
    return None
  bad = []
  for name, t in types.items():
    if name in ns and not admits_py(parse_sx(t), ns[name]):
      bad.append((name, t, repr(ns[name])))
  return bad


def all_thresholds(p, limit=64):
  n = len(p["thresholds"])
  import itertools
  combos = itertools.product([1, 5], repeat=n)
  return [list(c) for _, c in zip(range(limit), combos)]


# --- program pools ------------------------------------------------------------------------------------
# Both random streams draw from fixed pools (batch b is a function of b alone; VERIF_SEED selects the batches).
# Reason: on the unchanged tree random F1 programs hit a genuine unsoundness of pytype about once per ~1 500
# programs (DESIGN.md §9.7) — a check that alarms on the unchanged tree under some seed is a broken check.  The
# whole pool was swept (`python -m harness.c01 sweep-pool`); every failing pool program is listed in
# known_findings.json under its own source text and skipped by K (and only it), W replays it.
POOL_N = 50
POOL_F1, POOL_X = 160, 120


def pool_f1(b):
  import random as _r
  rng = _r.Random(0xC01000 + b)
  return [gen_program(rng) for _ in range(POOL_F1)]


def pool_x(b):
  import random as _r
  rng = _r.Random(0xC01F00 + b)
  return [c01x.XGen(rng).gen() for _ in range(POOL_X)]


def known_pool_sources():
  known, _ = common.known_findings("C01")
  return {e["witness"]["pool_source"] for e in known if "pool_source" in e.get("witness", {})}


# --- stages -----------------------------------------------------------------------------------------
ACC_SETUP = ["node", "connect_new 0", "connect_new 1", "var", "bind 0 int [] 0", "var", "bind 1 str [] 1"]
ACC_HISTORIES = [
    # (name, ops, answers the theorems of Props/C01Accumulate.lean state)
    ("older_visible_before_merge", ACC_SETUP + ["query visible 0 2", "query filter 0 2 1"], ["1", "[0]"]),
    ("merge_only_hides_older", ACC_SETUP + ["paste_var 0 1 1 []", "query visible 0 2", "query filter 0 2 1",
                                            "query visible 0 1"], ["0", "[2]", "0"]),
    ("rebind_keeps_older", ACC_SETUP + ["assign_var 0 1", "paste_var 0 2 1 []", "paste_var 0 1 1 []", "query visible 0 2",
                                        "query filter 0 2 1", "query visible 0 1"], ["1", "[0,3]", "1"]),
]


def k_accumulate(res):
  """The typegraph mechanism behind the add-only container operations (Props/C01Accumulate.lean): the two versions of
  merging a new element type into a type-parameter Variable at a later node, replayed op by op on the real
  cfg.Program and on the compiled model of it (drv_c08); both must give the answers the theorems state."""
  from harness import tg  # pylint: disable=g-import-not-at-top
  cfg = common.load_pytype()
  drv8 = common.ensure_driver("drv_c08")
  dis = []
  for name, h, want in ACC_HISTORIES:
    ops = [tg.parse_op(t) for t in h]
    real = tg.Real(cfg).run(ops)
    model = drv8.batch(tg.driver_lines(ops, None))
    if real != want or model != want:
      dis.append({"kind": "accumulate-mechanism", "theorem": name, "ops": h, "theorem_states": want,
                  "real_cfg_Program": real, "model": model})
  res.cov["accumulate_mechanism"] = {"histories": len(ACC_HISTORIES), "agree": len(ACC_HISTORIES) - len(dis)}
  return dis


def correspond(res, rng, tier):
  drv = common.ensure_driver("drv_c01")
  nb = 1 if tier == "quick" else 25
  skip = known_pool_sources()
  fb = sorted(rng.sample(range(POOL_N), nb))
  xb = sorted(rng.sample(range(POOL_N), nb))
  progs = [p for b in fb for p in pool_f1(b)]
  n_listed = sum(1 for p in progs if program_src(p) in skip)
  progs = [p for p in progs if program_src(p) not in skip]
  n = len(progs)
  results = vmpool.analyze_many([program_src(p) for p in progs])
  lines, meta = [], []
  stats = {"programs": n, "pytype_exception": 0, "pytype_errors": 0, "unsupported_annotations": 0, "names": 0,
           "rel": {"eq": 0, "wider": 0, "narrower": 0, "incomparable": 0}, "opaque_conds": 0, "statements": 0}
  disagreements = []
  for p, r in zip(progs, results):
    stats["opaque_conds"] += len(p["thresholds"])
    stats["statements"] += program_src(p).count("\n")
    if "exception" in r:
      stats["pytype_exception"] += 1
      disagreements.append({"kind": "pytype-raised", "src": program_src(p), "exception": r["exception"]})
      continue
    if r["errors"]:
      stats["pytype_errors"] += 1   # e.g. a deliberately unusual but legal construct; types are still compared
    types, uns = read_pyi(r["pyi"])
    stats["unsupported_annotations"] += uns
    q = " ".join("%s %s" % (k, v) for k, v in sorted(types.items()))
    lines.append(program_sx(p) + " ;; " + q)
    meta.append((p, types, r))
  outs = drv.batch(lines)
  nontrivial = set()
  for (p, types, r), o in zip(meta, outs):
    if o == "bad-op" or not o.startswith("paths="):
      disagreements.append({"kind": "driver-rejected", "src": program_src(p), "out": o})
      continue
    head, _, rest = o.partition(" ")
    if int(head.split("=")[1].split("/")[0]) > 1:
      nontrivial.add(program_src(p))
    for item in rest.split(" | "):
      name, semsub, rel, ms, mt = item.split(":")
      stats["names"] += 1
      stats["rel"][rel] += 1
      if semsub != "1":
        # The model's bound treats every occurrence of a condition as independent, so it is not always tight.  A
        # narrower reported type is a disagreement only when the property really fails: some truth assignment of
        # the opaque conditions makes CPython compute a value the reported type excludes.
        witness = None
        for th in all_thresholds(p):
          bad = oracle_failures(p, types, th)
          if bad:
            witness = (th, bad)
            break
        if witness is None:
          stats["narrower_than_model_bound_but_sound_on_every_run"] = \
              stats.get("narrower_than_model_bound_but_sound_on_every_run", 0) + 1
          continue
        disagreements.append({"kind": "pytype-narrower-than-sound-lower-bound", "src": program_src(p), "name": name,
                              "pytype": types[name], "model_sem": ms, "model_rules": mt, "prog": p,
                              "failing_run": program_src(p, witness[0]), "not_admitted": witness[1]})
  # ---- stream 2 (exploration beyond the theorem's fragment; the property's own oracle, applied directly) ----
  fam = (c01x.truthiness_family() + c01x.narrowing_family() + c01x.call_family()
         + c01x.store_family() + c01x.display_family() + c01x.super_family() + c01x.compare_family())   # deterministic families, always in full
  xpool = [x for b in xb for x in pool_x(b)]
  n_listed += sum(1 for x in xpool if x in skip)
  xsrcs = fam + [x for x in xpool if x not in skip]
  n2 = len(xsrcs) - len(fam)
  xres = vmpool.analyze_many(xsrcs)
  xs = {"programs": len(xsrcs), "family_modules": len(fam), "ran_to_completion": 0, "values_checked": 0, "annotations_outside_oracle": 0,
        "unparsable_stub(C05)": 0, "pytype_exception(C15)": 0, "oracle_failures": 0}
  for src, r in zip(xsrcs, xres):
    if "exception" in r:
      xs["pytype_exception(C15)"] += 1
      continue
    try:
      c = c01x.check_program(src, r["pyi"])
    except SyntaxError:
      xs["unparsable_stub(C05)"] += 1
      continue
    if c is None:
      continue
    xs["ran_to_completion"] += 1
    xs["values_checked"] += c[1]
    xs["annotations_outside_oracle"] += c[2]
    if c[0]:
      xs["oracle_failures"] += 1
      disagreements.append({"kind": "runtime-value-not-admitted(extended stream)", "xsrc": src, "not_admitted": c[0]})
    if c[1] > 3:
      nontrivial.add(src)
  stats["extended_stream"] = xs
  stats["pool"] = {"size": POOL_N, "f1_batches": fb, "x_batches": xb, "listed_known_programs_skipped": n_listed}
  res.cov["evaluations"] = n + len(xsrcs)
  res.cov["distinct_nontrivial"] = len(nontrivial)
  res.cov["rule"] = ("seeded random F1 programs (assignments, nested if/else, displays, conditional/boolean expressions, "
                     "is None / isinstance tests, opaque conditions) analysed by the real io.generate_pyi; for every "
                     "module-level name the reported type must satisfy sub(inferName decSem, reported) in the Lean driver "
                     "(proved-sound sub); relation to the rules model (decTable) is recorded; non-trivial = more than one "
                     "analysed path; distinct = distinct sources. Stream 2 (exploration, outside the theorem): programs with "
                     "functions, lambdas, classes/multiple inheritance/methods/instance attributes, truthiness dunders, "
                     "container mutation, comprehensions, subscripts, builtin calls, try/except are run under CPython and every "
                     "module-level value and instance attribute must be admitted by the real stub; it always contains two "
                     "deterministic families in full: truth value through every placement of __len__/__bool__ in "
                     "single/multiple/deep inheritance used in every condition position, and isinstance narrowing of every "
                     "scalar/container kind against every builtin class plus unions of tuples of all length pairs; repeated calls of "
                     "one function with ==-equal constants of different types; containers stored into on one path only "
                     "and read back with a constant key")
  res.cov["distribution"] = stats
  res.add_samples([program_src(progs[0]), {"pyi": results[0].get("pyi", "")[:400]}])
  disagreements += k_accumulate(res)
  return disagreements


def search(res, rng, disagreements, pfail):
  """S: CPython is the oracle.  Around the disagreeing programs (all outcomes of their opaque conditions) and a fresh
  random batch, find a program whose run-time value is not admitted by the type the real pytype infers."""
  found = []
  # extended-stream failures are already failing inputs: re-confirm and shrink by line removal
  for d in disagreements:
    if "xsrc" in d and len(found) < 2:
      def xfails(lines):
        src = "\n".join(lines) + "\n"
        try:
          compile(src, "<x>", "exec")
        except SyntaxError:
          return False
        r = vmpool.analyze_many([src])[0]
        if "exception" in r:
          return False
        try:
          c = c01x.check_program(src, r["pyi"])
        except SyntaxError:
          return False
        return bool(c and c[0])
      lines = d["xsrc"].rstrip("\n").split("\n")
      if xfails(lines):
        small = common.ddmin(lines, xfails, budget_s=90.0)
        src = "\n".join(small) + "\n"
        r = vmpool.analyze_many([src])[0]
        found.append({"source": src, "pytype_stub": r.get("pyi", ""),
                      "not_admitted": c01x.check_program(src, r.get("pyi", ""))[0]})
  if found:
    return found
  cands = [d["prog"] for d in disagreements if "prog" in d]
  cands += [gen_program(rng) for _ in range(250)]
  # targeted micro-programs for every shape class (catches a wrong compatible_with row directly)
  for lit in SCALARS:
    for wrap in (lambda e: e, lambda e: ("L", [e]), lambda e: ("T", [e])):
      cands.append({"body": [("if", wrap(("lit", lit)), [("=", "a", ("lit", ("i", 7)))], [("=", "a", ("lit", ("s", "a")))]),
                             ("=", "b", ("|", wrap(("lit", lit)), ("lit", ("y", 1)))),
                             ("=", "c", ("&", wrap(("lit", lit)), ("lit", ("y", 1))))], "thresholds": []})
  for e in (("L", []), ("T", []), ("D", [], []), ("S", [("lit", ("i", 0))]), ("D", [("lit", ("i", 0))], [("lit", ("n",))])):
    cands.append({"body": [("if", e, [("=", "a", ("lit", ("i", 7)))], [("=", "a", ("lit", ("s", "a")))])], "thresholds": []})
  results = vmpool.analyze_many([program_src(p) for p in cands])
  for p, r in zip(cands, results):
    if "exception" in r:
      continue
    types, _ = read_pyi(r["pyi"])
    for th in all_thresholds(p):
      # note: thresholds do not change what pytype infers (the comparison stays undecidable), only the real run
      bad = oracle_failures(p, types, th)
      if bad:
        def fails(body, th=th):
          q = {"body": body, "thresholds": p["thresholds"]}
          rr = vmpool.analyze_many([program_src(q, th)])[0]
          if "exception" in rr:
            return False
          tt, _ = read_pyi(rr["pyi"])
          return bool(oracle_failures(q, tt, th))
        small = common.ddmin(p["body"], fails, budget_s=40.0)
        q = {"body": small, "thresholds": p["thresholds"]}
        rr = vmpool.analyze_many([program_src(q, th)])[0]
        tt, _ = read_pyi(rr.get("pyi", ""))
        found.append({"source": program_src(q, th), "pytype_stub": rr.get("pyi", ""),
                      "not_admitted": oracle_failures(q, tt, th)})
        break
    if len(found) >= 2:
      break
  return found


def witnesses(res):
  """W: known findings are replayed with the property's own oracle (still failing -> KNOWN-FINDING line);
  fixed ones must pass (a fixed entry suppresses nothing)."""
  known, fixed = common.known_findings("C01")
  entries = [(e, True) for e in known] + [(e, False) for e in fixed]
  srcs = [e["witness"]["source"] for e, _ in entries]
  if not srcs:
    return
  results = vmpool.analyze_many(srcs)
  replayed = []
  for (e, is_known), src, r in zip(entries, srcs, results):
    fails = None
    if "exception" not in r:
      try:
        c = c01x.check_program(src, r["pyi"])
        fails = bool(c and c[0])
      except SyntaxError:
        fails = None
    replayed.append({"id": e["id"], "kind": "known" if is_known else "fixed", "still_fails": fails})
    if is_known and fails:
      res.known_lines.append("%s: %s" % (e["id"], e["what"]))
    if not is_known and fails:
      res.violation("fixed-witness-%s" % e["id"], {"property": "C01", "kind": "fixed-defect-returned", "entry": e,
                                                   "source": src, "pytype_stub": r.get("pyi")})
  res.cov["witnesses_replayed"] = replayed


def sweep_pool(argv):
  """python -m harness.c01 sweep-pool [lo hi]: every pool batch through K's two criteria on the current tree; prints
  one JSON line per failing pool program (pool_source + a concrete failing run) for known_findings.json."""
  import random as _r
  lo, hi = [int(x) for x in (argv + ["0", str(POOL_N)])[:2]]
  drv = common.ensure_driver("drv_c01")
  out = []
  for b in range(lo, hi):
    progs = pool_f1(b)
    results = vmpool.analyze_many([program_src(p) for p in progs])
    lines, meta = [], []
    for p, r in zip(progs, results):
      if "exception" in r:
        out.append({"batch": b, "kind": "f1", "pool_source": program_src(p), "what": "pytype raised " + r["exception"][:200]})
        continue
      types, _ = read_pyi(r["pyi"])
      q = " ".join("%s %s" % (k, v) for k, v in sorted(types.items()))
      lines.append(program_sx(p) + " ;; " + q)
      meta.append((p, types, r))
    for (p, types, r), o in zip(meta, drv.batch(lines)):
      if not o.startswith("paths="):
        continue
      narrow = [it.split(":")[0] for it in o.partition(" ")[2].split(" | ") if it.split(":")[1] != "1"]
      if narrow:
        rec = {"batch": b, "kind": "f1", "pool_source": program_src(p), "names": narrow}
        for th in all_thresholds(p):
          bad = oracle_failures(p, types, th)
          if bad:
            rec["source"] = program_src(p, th)
            rec["not_admitted"] = bad
            break
        out.append(rec)
    xsrcs = pool_x(b)
    for src, r in zip(xsrcs, vmpool.analyze_many(xsrcs)):
      if "exception" in r:
        continue
      try:
        c = c01x.check_program(src, r["pyi"])
      except SyntaxError:
        continue
      if c and c[0]:
        out.append({"batch": b, "kind": "x", "pool_source": src, "source": src, "not_admitted": c[0]})
    print("batch", b, "failing so far", len(out), flush=True)
  with open(os.path.join(common.BUILD, "c01-sweep-%d-%d.json" % (lo, hi)), "w") as fh:
    json.dump(out, fh, indent=1)
  for rec in out:
    print(json.dumps({k: rec[k] for k in ("batch", "kind", "names", "not_admitted") if k in rec})[:300])
  return 0


def prepare():
  subprocess.check_call([common.PY, "translate/compat_table.py"], cwd=common.VERIF)


def main():
  return common.run_check(
      "C01", REQUIRED, correspond, witnesses, search, prepare=prepare,
      trusted=["the model covers fragment F1 phase a (module-level assignments, if/else, displays, boolean/conditional "
               "expressions, is None/isinstance tests, undecidable conditions); functions, classes, comprehensions, "
               "subscripts, builtin calls, try/except are NOT modelled",
               "the typegraph/solver that implements path exploration in pytype is tied to the model only by K (reported "
               "type ⊒ model type, by the proved-sound `sub`)",
               "Generated/CompatTable.lean is regenerated from the real compare.compatible_with by translate/compat_table.py",
               "CPython semantics of the fragment = the Lean `evalC`/`execC` (hand-written)"],
      assumptions=["conditions of the form len(_L) > k are undecidable for pytype (both branches kept)",
                   "generated dict/set displays have pairwise unequal keys (the model keeps every display entry; "
                   "CPython and pytype's constant dicts collapse equal keys such as 0.0 and False)"])


if __name__ == "__main__":
  if len(sys.argv) > 1 and sys.argv[1] == "sweep-pool":
    prepare()
    sys.exit(sweep_pool(sys.argv[2:]))
  sys.exit(main())
