"""C18 — flow conditions and block-state merging preserve meaning (DESIGN.md §5 C18).

P: lean/PytypeModel/Props/C18.lean.
K: the real pytype.rewrite.flow.{conditions,variables,state} objects against the compiled Lean model
   (drv_c18), both driven by the same protocol lines (see lean/Driver/C18.lean), outputs compared as
   canonical strings (frozenset children / dict entries / name sets sorted; binding order kept).
S: truth tables over the real Python objects (connective oracle, with_condition oracle, merge =
   union oracle) — only when P or K broke.
"""
import functools
import itertools
import multiprocessing
import random
import sys
import time

from harness import common

REQUIRED = [
    "eval_mkNot", "eval_mkAnd", "eval_mkOr", "beq_sound",
    "var_withCondition", "var_withCondition_true",
    "inv_init", "inv_storeLocal", "inv_withCondition", "inv_mergeInto", "inv_run",
    "state_withCondition", "store_vals", "merge_none", "merge_union", "merge_union_run",
    "merge_union_guard_needed",
]

NAMES = ["x", "y"]
VALUES = [1, 2]
ATOMS = 3
PROCS = 12

# ---------------------------------------------------------------------------------------------
# real side
# ---------------------------------------------------------------------------------------------
_mods = {}


def mods():
  if not _mods:
    common.load_pytype()
    import dataclasses
    from pytype.rewrite.flow import conditions, state, variables

    @dataclasses.dataclass(frozen=True)
    class Atom(conditions.Condition):
      i: int

      def __repr__(self):
        return "a%d" % self.i
    _mods.update(c=conditions, s=state, v=variables, Atom=Atom)
  return _mods


def canon_cond(c):
  m = mods()
  C = m["c"]
  if c is C.TRUE:
    return "T"
  if c is C.FALSE:
    return "F"
  if isinstance(c, m["Atom"]):
    return "a%d" % c.i
  if type(c) is C._Not:
    return "N(" + canon_cond(c.condition) + ")"
  if type(c) is C._And:
    return "A(" + ",".join(sorted({canon_cond(x) for x in c.conditions})) + ")"
  if type(c) is C._Or:
    return "O(" + ",".join(sorted({canon_cond(x) for x in c.conditions})) + ")"
  return "?" + type(c).__name__


def canon_var(v):
  return "%s:[%s]" % (v.name if v.name is not None else "-",
                      ",".join("%s?%s" % (b.value, canon_cond(b.condition)) for b in v.bindings))


def canon_locals(d):
  return "{" + ";".join(sorted("%s=%s" % (k, canon_var(v)) for k, v in d.items())) + "}"


def canon_state(s):
  return "%s|%s|[%s]" % (canon_locals(s._locals), canon_cond(s._condition),
                         ",".join(sorted(s._locals_with_block_condition)))


class BadOp(Exception):
  pass


def build_cond(toks, on_apply=None):
  """Builds a real condition through the public constructors from postfix tokens."""
  m = mods()
  C = m["c"]
  st = []
  for t in toks:
    if t == "T":
      st.append(C.TRUE)
    elif t == "F":
      st.append(C.FALSE)
    elif t == "N":
      if not st:
        raise BadOp()
      a = st.pop()
      r = C.Not(a)
      if on_apply:
        on_apply("N", [a], r)
      st.append(r)
    elif t[0] == "a" and t[1:].isdigit():
      st.append(m["Atom"](int(t[1:])))
    elif t[0] in "AO" and t[1:].isdigit():
      k = int(t[1:])
      if k > len(st):
        raise BadOp()
      args = st[len(st) - k:]
      del st[len(st) - k:]
      r = (C.And if t[0] == "A" else C.Or)(*args)
      if on_apply:
        on_apply(t[0], args, r)
      st.append(r)
    else:
      raise BadOp()
  if len(st) != 1:
    raise BadOp()
  return st[0]


def build_var(fields, on_apply=None):
  m = mods()
  if not fields:
    raise BadOp()
  nm = fields[0].split()
  if len(nm) != 1:
    raise BadOp()
  name = None if nm[0] == "-" else nm[0]
  bs = []
  for f in fields[1:]:
    w = f.split()
    if not w:
      raise BadOp()
    bs.append(m["v"].Binding(int(w[0]), build_cond(w[1:], on_apply)))
  return m["v"].Variable(bindings=tuple(bs), name=name)


class Real:
  """Interprets protocol lines on the real objects.  `hook(kind, info)` is called with the real
  objects before/after each operation (used by the oracles of S)."""

  def __init__(self, hook=None):
    self.R = []
    self.hook = hook
    self.quiet = False

  def _cs(self, s):
    return None if self.quiet else canon_state(s)

  def _h(self, kind, **info):
    if self.hook:
      self.hook(kind, info)

  def line(self, line):
    if line.startswith("! "):
      self.quiet = True
      try:
        self._line(line[2:])
      except (BadOp, IndexError, ValueError):
        pass
      finally:
        self.quiet = False
      return None
    try:
      return self._line(line)
    except BadOp:
      return "bad-op"
    except (IndexError, ValueError):
      return "bad-op"

  def _reg(self, tok):
    i = int(tok)
    if i < 0 or i >= len(self.R):
      raise BadOp()
    return i

  def _line(self, line):
    m = mods()
    S, V = m["s"], m["v"]
    fields = line.split(" | ")
    w = fields[0].split()
    rest = fields[1:]
    on_apply = (lambda op, args, r: self._h("conn", op=op, args=args, result=r)) if self.hook else None
    if not w:
      raise BadOp()
    op = w[0]
    if op == "reset" and len(w) == 1 and not rest:
      self.R = []
      return None
    if op == "cond" and not rest:
      return canon_cond(build_cond(w[1:], on_apply))
    if op == "vwc":
      c = build_cond(w[1:], on_apply)
      v = build_var(rest, on_apply)
      r = v.with_condition(c)
      self._h("vwc", var=v, cond=c, result=r)
      return canon_var(r)
    if op == "new":
      c = build_cond(w[1:], on_apply)
      d = {}
      for f in rest:
        p = f.split()
        if len(p) != 2:
          raise BadOp()
        d[p[0]] = V.Variable.from_value(int(p[1]))
      s = S.BlockState(dict(d), condition=c)
      self.R.append(s)
      self._h("new", state=s)
      return self._cs(s)
    if op == "sv" and len(w) == 4 and not rest:
      i = self._reg(w[1])
      var = V.Variable.from_value(int(w[3]))
      before = self._snap(self.R[i])
      self.R[i].store_local(w[2], var)
      self._h("store", before=before, name=w[2], var=var, state=self.R[i])
      return self._cs(self.R[i])
    if op == "sl" and len(w) == 5 and not rest:
      i, j = self._reg(w[1]), self._reg(w[3])
      try:
        var = self.R[j].load_local(w[4])
      except KeyError:
        return "keyerror"
      before = self._snap(self.R[i])
      self.R[i].store_local(w[2], var)
      self._h("store", before=before, name=w[2], var=var, state=self.R[i])
      return self._cs(self.R[i])
    if op == "sb" and len(w) == 3:
      i = self._reg(w[1])
      var = build_var(rest, on_apply)
      before = self._snap(self.R[i])
      self.R[i].store_local(w[2], var)
      self._h("store", before=before, name=w[2], var=var, state=self.R[i], handbuilt=True)
      return self._cs(self.R[i])
    if op == "wc" and len(w) >= 2 and not rest:
      i = self._reg(w[1])
      c = build_cond(w[2:], on_apply)
      r = self.R[i].with_condition(c)
      self.R.append(r)
      self._h("wc", src=self.R[i], cond=c, result=r)
      return self._cs(r)
    if op == "mg" and len(w) == 3 and not rest:
      i, j = self._reg(w[1]), self._reg(w[2])
      r = self.R[i].merge_into(self.R[j])
      self.R.append(r)
      self._h("mg", a=self.R[i], b=self.R[j], result=r)
      return self._cs(r)
    if op == "mn" and len(w) == 2 and not rest:
      i = self._reg(w[1])
      r = self.R[i].merge_into(None)
      self.R.append(r)
      self._h("mn", a=self.R[i], result=r)
      return self._cs(r)
    if op == "ld" and len(w) == 3 and not rest:
      i = self._reg(w[1])
      try:
        return canon_var(self.R[i].load_local(w[2]))
      except KeyError:
        return "keyerror"
    if op == "gl" and len(w) == 2 and not rest:
      i = self._reg(w[1])
      return canon_locals(self.R[i].get_locals())
    if op == "dump" and len(w) == 1 and not rest:
      return " ;; ".join(canon_state(s) for s in self.R)
    if op == "pop" and len(w) == 1 and not rest:
      if self.R:
        self.R.pop()
      return None
    raise BadOp()

  @staticmethod
  def _snap(s):
    """Semantic snapshot of a state (it is about to be mutated in place)."""
    return (dict(s._locals), s._condition, set(s._locals_with_block_condition))


def real_run(lines, hook=None):
  r = Real(hook)
  out = []
  for l in lines:
    try:
      o = r.line(l)
    except Exception as e:  # a crash of the real code is an observable outcome
      o = "exc:" + type(e).__name__
    if o is not None:
      out.append(o)
  return out


# ---------------------------------------------------------------------------------------------
# generators
# ---------------------------------------------------------------------------------------------
def atoms0(n=ATOMS):
  return ["T", "F"] + ["a%d" % i for i in range(n)]


def depth1_exprs(n=ATOMS):
  """All constructor applications over depth-0 terms (ordered arguments)."""
  d0 = atoms0(n)
  out = list(d0)
  out += ["%s N" % t for t in d0]
  for k in "AO":
    out += ["%s %s %s2" % (t, u, k) for t in d0 for u in d0]
  return out


def distinct_by_result(exprs):
  """One representative expression per distinct canonical result (first wins)."""
  seen = {}
  for e in exprs:
    c = canon_cond(build_cond(e.split()))
    if c not in seen:
      seen[c] = e
  return list(seen.values())


def level_exprs(reps, ternary_over=None):
  out = []
  out += ["%s N" % t for t in reps]
  for k in "AO":
    out += ["%s %s %s2" % (t, u, k) for t in reps for u in reps]
  if ternary_over:
    for k in "AO":
      out += ["%s %s %s %s3" % (t, u, v, k) for t in ternary_over for u in ternary_over for v in ternary_over]
  return out


def step_ops(r, conds):
  """All ops of the exhaustive space applicable with r registers; (line, pushes)."""
  ops = []
  for i in range(r):
    for x in NAMES:
      for v in VALUES:
        ops.append(("sv %d %s %d" % (i, x, v), 0))
    for c in conds:
      ops.append(("wc %d %s" % (i, c), 1))
    for j in range(r):
      ops.append(("mg %d %d" % (i, j), 1))
    ops.append(("mn %d" % i, 1))
  return ops


def _rec_exhaustive(prefix, r, left, conds):
  yield prefix
  if left == 0:
    return
  for line, push in step_ops(r, conds):
    yield from _rec_exhaustive(prefix + [line], r + push, left - 1, conds)


def gen_exhaustive(maxlen, conds):
  """All op sequences of length <= maxlen starting from one empty state."""
  yield from _rec_exhaustive(["new T"], 1, maxlen, conds)


@functools.lru_cache(maxsize=None)
def count_exact(n, r, conds_n):
  """Number of sequences of exactly n further ops given r registers."""
  if n == 0:
    return 1
  stay = 4 * r
  push = conds_n * r + r * r + r
  return stay * count_exact(n - 1, r, conds_n) + push * count_exact(n - 1, r + 1, conds_n)


_OPS_CACHE = {}


def sample_exact(rng, n, conds):
  """Uniform random sequence of exactly n ops from the exhaustive space."""
  seq, r = ["new T"], 1
  for k in range(n, 0, -1):
    key = (k, r, len(conds))
    if key not in _OPS_CACHE:
      ops = step_ops(r, conds)
      cum = list(itertools.accumulate(count_exact(k - 1, r + p, len(conds)) for _, p in ops))
      _OPS_CACHE[key] = (ops, cum)
    ops, cum = _OPS_CACHE[key]
    line, p = rng.choices(ops, cum_weights=cum)[0]
    seq.append(line)
    r += p
  return seq


def rand_cond(rng, depth, natoms=ATOMS):
  if depth == 0 or rng.random() < 0.25:
    return rng.choice(atoms0(natoms) + ["a%d" % rng.randrange(natoms)] * 3)
  k = rng.random()
  if k < 0.25:
    return rand_cond(rng, depth - 1, natoms) + " N"
  n = rng.choice([2, 2, 2, 3, 1, 0])
  return " ".join([rand_cond(rng, depth - 1, natoms) for _ in range(n)] + ["%s%d" % (rng.choice("AO"), n)]).strip()


def gen_random(rng, length, hand=False):
  """Random history: all op kinds, names x y z, values 1..3, conditions to depth 2."""
  names = ["x", "y", "z"]
  seq = []
  r = 0
  for _ in range(length):
    k = rng.random()
    if r == 0 or k < 0.06:
      pairs = [(n, rng.randint(1, 3)) for n in names if rng.random() < 0.4]
      if rng.random() < 0.2 and pairs:
        pairs.append(pairs[0])
      seq.append(" | ".join(["new " + (rand_cond(rng, 1) if rng.random() < 0.5 else "T")] +
                            ["%s %d" % p for p in pairs]))
      r += 1
    elif k < 0.36:
      seq.append("sv %d %s %d" % (rng.randrange(r), rng.choice(names), rng.randint(1, 3)))
    elif k < 0.44:
      seq.append("sl %d %s %d %s" % (rng.randrange(r), rng.choice(names), rng.randrange(r), rng.choice(names)))
    elif k < 0.62:
      seq.append("wc %d %s" % (rng.randrange(r), rand_cond(rng, rng.choice([0, 1, 1, 2]))))
      r += 1
    elif k < 0.86:
      # bias towards merging recent states (siblings of one parent)
      i = rng.randrange(r) if rng.random() < 0.4 else max(0, r - 1 - rng.randrange(3))
      j = rng.randrange(r) if rng.random() < 0.4 else max(0, r - 1 - rng.randrange(3))
      seq.append("mg %d %d" % (i, j))
      r += 1
    elif k < 0.89:
      seq.append("mn %d" % rng.randrange(r))
      r += 1
    elif k < 0.93:
      seq.append("ld %d %s" % (rng.randrange(r), rng.choice(names)))
    elif k < 0.95:
      seq.append("gl %d" % rng.randrange(r))
    elif hand:
      nb = rng.randint(0, 3)
      vals = rng.sample([1, 2, 3], nb)
      seq.append(" | ".join(["sb %d %s" % (rng.randrange(r), rng.choice(names)), rng.choice(["-", "x", "q"])] +
                            ["%d %s" % (v, rand_cond(rng, 1)) for v in vals]))
    else:
      seq.append("sv %d %s %d" % (rng.randrange(r), rng.choice(names), rng.randint(1, 3)))
  return seq


def gen_vwc(rng):
  nb = rng.randint(0, 3)
  return " | ".join(["vwc " + rand_cond(rng, rng.choice([0, 1, 2])), rng.choice(["-", "x"])] +
                    ["%d %s" % (rng.randint(1, 3), rand_cond(rng, rng.choice([0, 1, 2]))) for _ in range(nb)])


# the point where the distinct-values guard of merge_union is needed (Props/C18.lean
# merge_union_guard_needed): a hand-built variable with a repeated value stored in `self`.
GUARD_SEQ = ["new T", "sb 0 x | - | 1 a0 | 1 a1", "new T", "sv 1 x 2", "mg 0 1"]


# ---------------------------------------------------------------------------------------------
# K
# ---------------------------------------------------------------------------------------------
_DRV = None


def compare_batch(cases):
  """cases: list of line lists (each implicitly preceded by `reset`).  Returns (disagreements,
  finals) where finals are the last real output of each case."""
  lines = []
  for c in cases:
    lines.append("reset")
    lines += c
  model = _DRV.batch(lines)
  pos = 0
  dis = []
  finals = []
  for c in cases:
    real = real_run(c)
    k = len(real)
    mod = model[pos:pos + k]
    pos += k
    finals.append(real[-1] if real else "")
    if real != mod:
      idx = next((n for n, (a, b) in enumerate(zip(real, mod)) if a != b), min(len(real), len(mod)))
      dis.append({"lines": c, "first_diff_output": idx,
                  "real": real[idx:idx + 2], "model": mod[idx:idx + 2]})
  if pos != len(model):
    dis.append({"lines": ["<batch>"], "real": ["%d outputs" % pos], "model": ["%d outputs" % len(model)]})
  return dis, finals


def _worker(chunk):
  dis, finals = compare_batch(chunk)
  nontriv = {f for f in finals if _nontrivial(f)}
  return dis[:20], len(chunk), nontriv


def _nontrivial(dump):
  """A final dump in which some state has a local and either a non-constant block condition or a
  binding that carries a non-constant condition."""
  for st in dump.split(" ;; "):
    parts = st.rsplit("|", 2)
    if len(parts) != 3 or parts[0] == "{}":
      continue
    if parts[1] not in ("T", "F") or any(m in parts[0] for m in ("?a", "?N(", "?A(", "?O(")):
      return True
  return False


def chunks(it, n):
  buf = []
  for x in it:
    buf.append(x)
    if len(buf) >= n:
      yield buf
      buf = []
  if buf:
    yield buf


def run_parallel(case_iter, chunk=2000, procs=1):
  """Compares the cases chunk by chunk; in-process unless procs > 1 (the work is cheap: about 10 us per
  operation on either side, so only the thorough tier forks)."""
  dis, total, nontriv = [], 0, set()
  if procs <= 1:
    for d, n, nt in map(_worker, chunks(case_iter, chunk)):
      dis += d
      total += n
      nontriv |= nt
    return dis, total, nontriv
  with multiprocessing.get_context("fork").Pool(procs) as pool:
    for d, n, nt in pool.imap_unordered(_worker, chunks(case_iter, chunk)):
      dis += d
      total += n
      nontriv |= nt
  return dis, total, nontriv


_EX = {}


def parents(maxlen, conds):
  """Every sequence of length < maxlen (with its register count): the parents of the enumeration."""
  out = []

  def rec(prefix, r, k):
    out.append((prefix, r))
    if k + 1 < maxlen:
      for line, push in step_ops(r, conds):
        rec(prefix + [line], r + push, k + 1)
  rec(["new T"], 1, 0)
  return out


def family_script(prefix, r, conds, with_self):
  """Protocol lines printing one register dump per child sequence `prefix + [op]` (and for `prefix`
  itself if with_self).  Children ending in an op that only appends a register share one run of the prefix
  (dump, then `pop`); children ending in the in-place store_local get a fresh run each.  Returns
  (lines, labels) with labels[k] = the stand-alone sequence whose final dump is output k."""
  pre = ["reset"] + ["! " + l for l in prefix]
  lines, labels = list(pre), []
  if with_self:
    lines.append("dump")
    labels.append(prefix)
  ops = step_ops(r, conds)
  for line, push in ops:
    if push:
      lines += ["! " + line, "dump", "pop"]
      labels.append(prefix + [line])
  for line, push in ops:
    if not push:
      lines += pre + ["! " + line, "dump"]
      labels.append(prefix + [line])
  return lines, labels


def _worker_family(task):
  plist, with_self_root = task
  conds = _EX["conds"]
  lines, labels = [], []
  for prefix, r in plist:
    l, lab = family_script(prefix, r, conds, with_self_root and len(prefix) == 1)
    lines += l
    labels += lab
  model = _DRV.batch(lines)
  real = real_run(lines)
  dis = []
  nontriv = set()
  if len(real) != len(labels) or len(model) != len(labels):
    dis.append({"lines": ["<family batch>"], "real": ["%d outputs" % len(real)],
                "model": ["%d outputs, %d expected" % (len(model), len(labels))]})
  for lab, a, b in zip(labels, real, model):
    if a != b:
      if len(dis) < 20:
        dis.append({"lines": lab + ["dump"], "first_diff_output": len(lab), "real": [a], "model": [b]})
    if _nontrivial(a):
      nontriv.add(a)
  return dis, len(labels), nontriv


def run_exhaustive(maxlen, conds, procs):
  """All sequences of length <= maxlen from one empty state, grouped by parent (see family_script)."""
  _EX["conds"] = conds
  ps = parents(maxlen, conds)
  tasks = [(ch, True) for ch in chunks(ps, 100)]
  dis, total, nontriv = [], 0, set()
  if procs <= 1:
    results = map(_worker_family, tasks)
    for d, n, nt in results:
      dis += d
      total += n
      nontriv |= nt
    return dis, total, nontriv
  with multiprocessing.get_context("fork").Pool(procs) as pool:
    for d, n, nt in pool.imap_unordered(_worker_family, tasks):
      dis += d
      total += n
      nontriv |= nt
  return dis, total, nontriv


def with_dump(seq):
  return seq + ["dump"]


def quiet_dump(seq):
  """Only the final register dump is printed (every prefix is itself a case of the enumeration)."""
  return ["! " + l for l in seq] + ["dump"]


def correspond(res, rng, tier):
  global _DRV
  mods()
  _DRV = common.Driver("drv_c18")  # built (up to date) by stage P via extra_targets
  t0 = time.time()
  disagreements = []
  dist = {}

  # 1) condition terms, exhaustive through the public constructors
  d1 = depth1_exprs()
  r1 = distinct_by_result(d1)
  l2 = level_exprs(r1, ternary_over=r1)
  r2 = distinct_by_result(r1 + l2)
  l3 = level_exprs(r2)
  if tier != "thorough":
    l3 = rng.sample(l3, max(1, len(l3) // 10))
  extra = ["A0", "O0", "a0 A1", "a0 O1", "T A1", "F O1", "a0 a0 A2", "a0 a0 O2", "a0 a1 a0 N A3", "a0 a1 a0 N O3",
           "a0 N a1 a0 A3", "a0 a1 A2 a1 a0 A2 O2", "a0 a1 A2 a1 a0 A2 N O2", "a0 a1 O2 a1 a0 O2 N A2",
           "a0 a1 a2 a0 a1 A5", "F a0 N a0 A3", "a0 N a0 F A3", "T a0 N a0 O3", "a0 N a0 T O3"]
  rc = [rand_cond(rng, 4) for _ in range(3000 if tier == "quick" else 30000)]
  cond_cases = [["cond " + e] for e in d1 + l2 + l3 + extra + rc]
  d, n, _ = run_parallel(iter(cond_cases), chunk=20000, procs=PROCS if tier == "thorough" else 1)
  disagreements += d
  dist["cond_terms"] = {"depth1_exprs": len(d1), "depth1_distinct": len(r1), "depth2_exprs": len(l2),
                        "depth<=2_distinct": len(r2), "depth3_exprs": len(l3),
                        "depth3_exhaustive": tier == "thorough", "random_depth4": len(rc)}
  n_cond = n

  # 2) Variable.with_condition directly
  vw = [[gen_vwc(rng)] for _ in range(2000 if tier == "quick" else 20000)]
  d, n_vw, _ = run_parallel(iter(vw), chunk=5000)
  disagreements += d

  # 3) state histories: exhaustive over the property's own space
  maxlen = 4 if tier == "thorough" else 3
  n_ex_expected = sum(count_exact(k, 1, len(r1)) for k in range(maxlen + 1))
  d, n_ex, nt_ex = run_exhaustive(maxlen, r1, PROCS if tier == "thorough" else 1)
  disagreements += d
  dist["exhaustive"] = {"max_len": maxlen, "sequences": n_ex, "expected": n_ex_expected,
                        "conditions": len(r1), "names": NAMES, "values": VALUES}
  n_s4 = 0
  nt_s4 = set()
  if tier != "thorough":
    s4 = [quiet_dump(sample_exact(rng, 4, r1)) for _ in range(40000)]
    d, n_s4, nt_s4 = run_parallel(iter(s4), chunk=5000)
    disagreements += d
    dist["sampled_len4"] = n_s4

  # 4) random histories up to length 30 (all op kinds incl. load/store of loaded variables, get_locals,
  #    constructor with locals and condition; a tenth with hand-built variables of distinct values)
  nrand = 1500 if tier == "quick" else 12000
  rnd = []
  lens = []
  for k in range(nrand):
    L = rng.randint(5, 30)
    lens.append(L)
    rnd.append(with_dump(gen_random(rng, L, hand=(k % 10 == 0))))
  d, n_rnd, nt_rnd = run_parallel(iter(rnd), chunk=500, procs=PROCS if tier == "thorough" else 1)
  disagreements += d
  dist["random"] = {"sequences": n_rnd, "len_min": min(lens), "len_max": max(lens),
                    "mean_len": round(sum(lens) / len(lens), 1)}

  # 5) the guard point of merge_union (hand-built variable with a repeated value): model == code there,
  #    and the union oracle does fail there on the real code (the guard is exact, not just convenient).
  d, _, _ = _worker([with_dump(GUARD_SEQ)])
  disagreements += d
  fails = oracle_failures(GUARD_SEQ, allow_dup=True)
  dist["guard_point"] = {"sequence": GUARD_SEQ, "real_state": real_run(GUARD_SEQ)[-1],
                         "union_oracle_fails_on_real_code": bool(fails)}
  if not fails:
    disagreements.append({"lines": GUARD_SEQ, "real": ["union holds although self has a repeated value"],
                          "model": ["Lean: merge_union_guard_needed says a value is lost"]})

  res.cov["evaluations"] = n_cond + n_vw + n_ex + n_s4 + n_rnd + 1
  res.cov["distinct_nontrivial"] = len(nt_ex | nt_s4 | nt_rnd)
  res.cov["exhaustive"] = False
  res.cov["rule"] = (
      "protocol lines interpreted by the real conditions/variables/state objects and by the Lean driver, every "
      "output line compared as canonical text (set/dict order removed, binding order kept), all registers dumped "
      "at the end of every history (catches aliasing between states). Conditions: every application of Not/And/Or "
      "(ordered args, arity 2 and 3) over the distinct depth<=1 results, arity 2 over the distinct depth<=2 results "
      "(%s), random depth-4 terms with arities 0-3. Histories: all op sequences of length <=%d from one empty "
      "state over store_local(2 names x 2 values)/with_condition(%d depth-1 conditions)/merge_into(any pair)/"
      "merge_into(None)%s, plus %d random histories of length 5-30 over all operations. evaluations = cases; "
      "distinct_nontrivial = distinct final register dumps in which some state with a local has a non-constant block condition or a binding with a non-constant condition"
      % ("all" if tier == "thorough" else "seeded 10%", maxlen, len(r1),
         "" if tier == "thorough" else " and %d uniformly sampled length-4 sequences" % n_s4, n_rnd))
  dist["wall_s"] = round(time.time() - t0, 1)
  res.cov["distribution"] = dist
  disagreements.sort(key=lambda d: (len(d.get("lines", [])), sum(len(l) for l in d.get("lines", []))))
  res.add_samples([{"cond": "a0 N a1 T O2 A2", "canon": real_run(["cond a0 N a1 T O2 A2"])[0]},
                   {"history": rnd[0][:8], "final": real_run(rnd[0])[-1][:300]},
                   {"guard_point": GUARD_SEQ, "real": real_run(GUARD_SEQ)[-1]}])
  return disagreements


# ---------------------------------------------------------------------------------------------
# S: truth tables on the real objects
# ---------------------------------------------------------------------------------------------
def atoms_of(c, acc):
  m = mods()
  C = m["c"]
  if isinstance(c, m["Atom"]):
    acc.add(c.i)
  elif isinstance(c, C._Not):
    atoms_of(c.condition, acc)
  elif isinstance(c, C._Composite):
    for x in c.conditions:
      atoms_of(x, acc)
  return acc


def ev(c, rho):
  """Truth value of a real condition object; written against the classes' documented meaning."""
  m = mods()
  C = m["c"]
  if isinstance(c, C._True):
    return True
  if isinstance(c, C._False):
    return False
  if isinstance(c, m["Atom"]):
    return rho.get(c.i, False)
  if isinstance(c, C._Not):
    return not ev(c.condition, rho)
  if isinstance(c, C._And):
    return all(ev(x, rho) for x in c.conditions)
  if isinstance(c, C._Or):
    return any(ev(x, rho) for x in c.conditions)
  raise TypeError("not a condition: %r" % (c,))


def valuations(atoms):
  atoms = sorted(atoms)
  for bits in itertools.product([False, True], repeat=len(atoms)):
    yield dict(zip(atoms, bits))


def snap(s):
  return (dict(s._locals), s._condition, set(s._locals_with_block_condition))


def snap_atoms(sn, acc):
  for v in sn[0].values():
    for b in v.bindings:
      atoms_of(b.condition, acc)
  atoms_of(sn[1], acc)
  return acc


def vals(sn, x, rho):
  """Values local x can take in the state under rho: bindings whose own condition holds, and, for
  locals with the block condition, the block's condition too."""
  locals_, cond, lwbc = sn
  if x not in locals_:
    return []
  blk = ev(cond, rho) if x in lwbc else True
  return [b.value for b in locals_[x].bindings if ev(b.condition, rho) and blk]


def show_rho(rho):
  return {"a%d" % k: v for k, v in rho.items()}


def oracle_failures(lines, allow_dup=False):
  """Replays a case on the real code with the property's oracles attached; returns failures."""
  fails = []
  state = {"dup": False, "n": 0}

  def hook(kind, info):
    state["n"] += 1
    if kind == "conn":
      at = set()
      for a in info["args"] + [info["result"]]:
        atoms_of(a, at)
      for rho in valuations(at | set(range(ATOMS))):
        argv = [ev(a, rho) for a in info["args"]]
        want = (not argv[0]) if info["op"] == "N" else (all(argv) if info["op"] == "A" else any(argv))
        if ev(info["result"], rho) != want:
          fails.append({"oracle": "connective", "op": {"N": "Not", "A": "And", "O": "Or"}[info["op"]],
                        "args": [canon_cond(a) for a in info["args"]], "result": canon_cond(info["result"]),
                        "valuation": show_rho(rho), "expected_truth": want})
          return
    elif kind == "vwc":
      v, c, r = info["var"], info["cond"], info["result"]
      if [b.value for b in r.bindings] != [b.value for b in v.bindings] or r.name != v.name:
        fails.append({"oracle": "Variable.with_condition keeps values/order/name", "var": canon_var(v),
                      "cond": canon_cond(c), "result": canon_var(r)})
        return
      at = atoms_of(c, set())
      for b in list(v.bindings) + list(r.bindings):
        atoms_of(b.condition, at)
      for rho in valuations(at | set(range(ATOMS))):
        for b0, b1 in zip(v.bindings, r.bindings):
          if ev(b1.condition, rho) != (ev(b0.condition, rho) and ev(c, rho)):
            fails.append({"oracle": "Variable.with_condition: new = old and c", "var": canon_var(v),
                          "cond": canon_cond(c), "result": canon_var(r), "valuation": show_rho(rho)})
            return
    elif kind == "store":
      if info.get("handbuilt"):
        vs = [b.value for b in info["var"].bindings]
        if len(set(vs)) != len(vs):
          state["dup"] = True
      before, after = info["before"], snap(info["state"])
      at = snap_atoms(before, snap_atoms(after, set()))
      for b in info["var"].bindings:
        atoms_of(b.condition, at)
      for rho in valuations(at | set(range(ATOMS))):
        for x in set(before[0]) | set(after[0]) | {info["name"]}:
          if x == info["name"]:
            want = [b.value for b in info["var"].bindings if ev(b.condition, rho) and ev(before[1], rho)]
          else:
            want = vals(before, x, rho)
          if vals(after, x, rho) != want:
            fails.append({"oracle": "store_local: stored variable under the block condition, others unchanged",
                          "name": x, "valuation": show_rho(rho), "got": vals(after, x, rho), "expected": want})
            return
    elif kind == "wc":
      if state["dup"] and not allow_dup:
        return
      s, c, r = snap(info["src"]), info["cond"], snap(info["result"])
      at = atoms_of(c, snap_atoms(s, snap_atoms(r, set())))
      for rho in valuations(at | set(range(ATOMS))):
        for x in set(s[0]) | set(r[0]):
          want = vals(s, x, rho) if ev(c, rho) else []
          if vals(r, x, rho) != want:
            fails.append({"oracle": "with_condition restricts every local by exactly c", "state": canon_state(info["src"]),
                          "cond": canon_cond(c), "result": canon_state(info["result"]), "name": x,
                          "valuation": show_rho(rho), "got": vals(r, x, rho), "expected": want})
            return
    elif kind in ("mg", "mn"):
      if state["dup"] and not allow_dup:
        return
      a, r = snap(info["a"]), snap(info["result"])
      b = snap(info["b"]) if kind == "mg" else ({}, mods()["c"].FALSE, set())
      at = snap_atoms(a, snap_atoms(b, snap_atoms(r, set())))
      for rho in valuations(at | set(range(ATOMS))):
        for x in set(a[0]) | set(b[0]) | set(r[0]):
          want = set(vals(a, x, rho)) | set(vals(b, x, rho))
          got = vals(r, x, rho)
          if set(got) != want:
            fails.append({"oracle": "merge = union of values under every valuation",
                          "self": canon_state(info["a"]), "other": canon_state(info["b"]) if kind == "mg" else None,
                          "merged": canon_state(info["result"]), "name": x, "valuation": show_rho(rho),
                          "got": sorted(got), "expected": sorted(want)})
            return
  r = Real(hook)
  for l in lines:
    l = unquiet(l)
    before = [snap(s) for s in r.R]
    w = l.split()
    try:
      r.line(l)
    except Exception as e:  # pylint: disable=broad-except
      fails.append({"oracle": "no exception", "line": l, "exception": repr(e)})
      break
    tgt = int(w[1]) if len(w) > 1 and w[0] in ("sv", "sl", "sb") and w[1].isdigit() else None
    if w and w[0] == "reset":
      continue
    for i, sb in enumerate(before):
      if i == tgt:
        continue
      sa = snap(r.R[i]) if i < len(r.R) else ({}, mods()["c"].FALSE, set())
      at = snap_atoms(sb, snap_atoms(sa, set())) | set(range(ATOMS))
      bad = next(((x, rho) for rho in valuations(at) for x in set(sb[0]) | set(sa[0])
                  if vals(sb, x, rho) != vals(sa, x, rho)), None)
      if bad:
        fails.append({"oracle": "an operation leaves the meaning of every other state untouched", "line": l,
                      "register": i, "name": bad[0], "valuation": show_rho(bad[1]),
                      "before": vals(sb, bad[0], bad[1]), "after": vals(sa, bad[0], bad[1])})
        break
  return fails


def unquiet(l):
  return l[2:] if l.startswith("! ") else l


def pushes(line):
  return line.split()[0] in ("new", "wc", "mg", "mn")


_REG_POS = {"sv": (1,), "sl": (1, 3), "sb": (1,), "wc": (1,), "mg": (1, 2), "mn": (1,), "ld": (1,), "gl": (1,)}


def drop_unused_registers(lines, bad):
  """Removes register-creating ops whose register is never used afterwards (renumbering the rest)."""
  cur = list(lines)
  i = len(cur) - 2
  while i >= 0:
    if i < len(cur) - 1 and pushes(cur[i]):
      k = sum(1 for l in cur[:i] if pushes(l))
      trial, ok = cur[:i], True
      for l in cur[i + 1:]:
        fields = l.split(" | ")
        w = fields[0].split()
        for pos in _REG_POS.get(w[0], ()):
          if pos < len(w) and w[pos].isdigit():
            r = int(w[pos])
            if r == k:
              ok = False
            elif r > k:
              w[pos] = str(r - 1)
        trial.append(" | ".join([" ".join(w)] + fields[1:]))
      if ok and bad(trial):
        cur = trial
    i -= 1
  return cur


def shrink(lines):
  """Smaller failing case: truncate after the first failure, drop non-pushing ops, neutralise
  pushing ops, simplify conditions."""
  def bad(ls):
    try:
      if any(o == "bad-op" for o in real_run(ls)):
        return False
      return bool(oracle_failures(ls))
    except Exception:
      return False
  cur = list(lines)
  for k in range(1, len(cur) + 1):
    if bad(cur[:k]):
      cur = cur[:k]
      break
  cur = common.ddmin(cur, bad, budget_s=15.0, keep=pushes)
  cur = drop_unused_registers(cur, bad)
  t0 = time.time()
  changed = True
  while changed and time.time() - t0 < 15:
    changed = False
    for i, l in enumerate(cur):
      w = l.split(" | ")[0].split()
      cands = []
      if w[0] in ("wc", "mg"):
        cands.append("mn " + w[1])
      if w[0] == "mn":
        cands.append("new T")
      if w[0] == "wc" and len(w) > 3:
        toks = w[2:]
        cands += ["wc %s %s" % (w[1], t) for t in toks if t[0] == "a"]
        cands += ["wc %s %s N" % (w[1], t) for t in toks if t[0] == "a"]
      if w[0] == "new" and l != "new T":
        cands.append("new T")
      if w[0] == "cond" and len(w) > 3:
        # try sub-expressions: every proper prefix that parses
        for k in range(2, len(w)):
          cands.append("cond " + " ".join(w[1:k]))
      for c in cands:
        if c == l:
          continue
        trial = cur[:i] + [c] + cur[i + 1:]
        if bad(trial):
          cur = trial
          changed = True
          break
  return drop_unused_registers(cur, bad)


def search(res, rng, disagreements, pfail):
  mods()
  found = []
  seen = set()
  t0 = time.time()

  def consider(lines):
    lines = [unquiet(l) for l in lines if l != "dump"]
    fs = oracle_failures(lines)
    if not fs:
      return False
    small = shrink(lines)
    fs2 = oracle_failures(small) or fs
    key = (fs2[0].get("oracle"), tuple(small))
    if key not in seen:
      seen.add(key)
      found.append({"lines": small, "failure": fs2[0], "real_outputs": real_run(small)[-3:]})
    return True

  def cands():
    for d in sorted(disagreements, key=lambda d: len(d.get("lines", []))):
      if d.get("lines") and d["lines"] != ["<batch>"]:
        yield d["lines"]
    # neighbourhood: the small exhaustive spaces and fresh random cases
    d1 = depth1_exprs()
    for e in d1:
      yield ["cond " + e]
    r1 = distinct_by_result(d1)
    for e in level_exprs(r1, ternary_over=r1[:8]):
      yield ["cond " + e]
    for s in gen_exhaustive(2, r1):
      yield s
    for _ in range(300):
      yield [gen_vwc(rng)]
    for _ in range(4000):
      yield sample_exact(rng, rng.choice([3, 4]), r1)
    for _ in range(1500):
      yield gen_random(rng, rng.randint(5, 30))
  for c in cands():
    if time.time() - t0 > 150 or len(found) >= 3:
      break
    try:
      consider(c)
    except Exception as e:
      found.append({"lines": c, "exception": repr(e)})
      break
  res.cov["search_wall_s"] = round(time.time() - t0, 1)
  return found


def witnesses(res):
  """No known findings for C18; the guard point is replayed in K (stage 5) and recorded there."""
  known, fixed = common.known_findings("C18")
  res.cov["witnesses_replayed"] = len(known) + len(fixed)


def main():
  return common.run_check(
      "C18", REQUIRED, correspond, witnesses, search, extra_targets=["drv_c18"],
      trusted=[
          "hand-written Lean model of conditions.py, Binding/Variable.from_value/with_condition/with_name and all "
          "of BlockState; tied to /repo only by the correspondence runs",
          "atomic conditions are opaque frozen-dataclass instances compared by field equality; TRUE/FALSE are the "
          "module singletons (the code tests them with `is`)",
          "Python dict = insertion-ordered association list with unique keys; set/frozenset = list read up to "
          "membership; dataclass == as modelled by Cond.beq / Var.beq",
          "truth-table evaluator `ev` of the harness (S stage) for the real condition classes",
      ],
      assumptions=[
          "every BlockState is constructed from a dict no one else mutates and with locals_with_block_condition=None "
          "(frame_base.py: BlockState(locals_=dict(initial_locals))); the 3-argument constructor is internal",
          "variables stored by callers have pairwise distinct values (true of Variable.from_value and of every "
          "variable loaded from a state); merge_union_guard_needed shows the loss without it",
          "values are hashable with == / hash consistent (modelled as Nat)",
      ])


if __name__ == "__main__":
  sys.exit(main())
