"""C04 replay-matrix child: analyses a sequence of programs in ONE process.

Run by harness/c04.py as `PYTHONHASHSEED=<n> /venv/bin/python -m harness.c04_child job.json out.json`.
The job lists items {id, src, loader: "new"|"shared", record: bool}; items are analysed in order with
`io.generate_pyi` exactly as `io.process_one_file` does it (explicit loader, then `write_pickle`'s
PrepareForExport + Serialize, plus the gzip variant of `pickle_utils.Save`).  `shared` items use one
loader object for the whole process (reused loader); non-recorded items are the "unrelated earlier
analyses".  The wall clock seen by `Save` is shifted by `clock_offset` seconds (a different one per
configuration) so that a time-dependent output cannot hide behind two runs in the same second.
Builds nothing: uses the ext already built by the parent (harness.common).
"""
import base64
import io as _io
import json
import sys
import time


def analyse(mods, item, shared_loader, clock_offset):
  io, config, load_pytd, serialize_ast, pickle_utils, pytd_utils = mods
  import os
  # C04_LIB_DIR holds lib.pyi, a third module the family programs import (names of other modules become LateTypes /
  # late_dependencies in the pickled stub)
  opts = config.Options.create("prog.py", python_version=(3, 12), module_name="prog",
                               pythonpath=os.environ.get("C04_LIB_DIR", ""))
  if item.get("loader") == "shared":
    loader = shared_loader[0]
    if loader is None:
      loader = shared_loader[0] = load_pytd.create_loader(opts)
  else:
    loader = load_pytd.create_loader(opts)
  rec = {"id": item["id"]}
  try:
    ret, pyi = io.generate_pyi(item["src"], opts, loader)
  except Exception as e:  # pylint: disable=broad-except
    rec["outcome"] = "EXC %s: %s" % (type(e).__name__, str(e)[:300])
    return rec
  rec["outcome"] = "ok"
  rec["pyi"] = pyi
  try:
    # the pipeline model says: emitted ast = canon(optimised ast); hence it is a fixpoint of canon (canon_idem)
    canon = pytd_utils.CanonicalOrdering(ret.ast)
    r_ast = repr(ret.ast)
    rec["canonical"] = (pytd_utils.Print(canon) == pytd_utils.Print(ret.ast)
                        and (repr(canon) == r_ast or "_name2item={'" in r_ast))   # lookup caches are not content
  except Exception as e:  # pylint: disable=broad-except
    rec["canonical"] = "EXC %s" % type(e).__name__
  errs = []
  for e in ret.context.errorlog.unique_sorted_errors():
    errs.append([e.name, e.line, e.message, e.filename or "", e._col, e.methodname or ""])  # pylint: disable=protected-access
  rec["errors"] = errs
  try:
    ast = serialize_ast.PrepareForExport(opts.module_name, ret.ast, loader)
    raw = pickle_utils.Serialize(ast, src_path=opts.input, metadata=opts.pickle_metadata)
    rec["pickle"] = base64.b64encode(raw).decode()
    holder = {}

    class _F(_io.BytesIO):

      def close(self):
        holder["v"] = self.getvalue()
        super().close()
    real_time = time.time
    time.time = lambda: real_time() + clock_offset
    try:
      pickle_utils.SerializeAndSave(ast, "prog.pickled", compress=True, open_function=lambda fn, mode: _F(),
                                    src_path=opts.input, metadata=opts.pickle_metadata)
    finally:
      time.time = real_time
    rec["pickle_gz"] = base64.b64encode(holder["v"]).decode()
  except Exception as e:  # pylint: disable=broad-except
    rec["pickle"] = "EXC %s: %s" % (type(e).__name__, str(e)[:300])
    rec["pickle_gz"] = rec["pickle"]
  return rec


def main():
  job = json.load(open(sys.argv[1]))
  from harness import common
  common.load_pytype()
  from pytype import config
  from pytype import io
  from pytype import load_pytd
  from pytype.imports import pickle_utils
  from pytype.pytd import pytd_utils
  from pytype.pytd import serialize_ast
  mods = (io, config, load_pytd, serialize_ast, pickle_utils, pytd_utils)
  shared = [None]
  out = []
  for item in job["items"]:
    rec = analyse(mods, item, shared, job.get("clock_offset", 0))
    if item.get("record", True):
      out.append(rec)
  with open(sys.argv[2], "w") as fh:
    json.dump({"hashseed": job.get("hashseed"), "history": job.get("history"), "results": out}, fh)
  return 0


if __name__ == "__main__":
  sys.exit(main())
