"""C17 — boolean-equation terms are built and simplified to logically equivalent terms (DESIGN.md §5 C17).

K: the real `pytype.pytd.booleq` against the compiled Lean model (`drv_c17`):
  * build: every recipe (tree of calls of the public constructors Eq/And/Or over TRUE/FALSE/names) is
    evaluated in both systems, results compared as canonical strings (children sorted);
  * simplify: every distinct built term is simplified against restriction tables in both systems.  The
    model is handed the real term with the children of each `_And`/`_Or` in the *iteration order of the
    Python set* (the only thing the lazy generator in `_And.simplify` observes), results compared as
    canonical strings, `KeyError` as `!`;
  * forced-order family: `_And`/`_Or` objects over *lists* in every permutation, to pin the lazy
    short-circuit/KeyError behaviour independently of the process' string-hash seed.
  * purity: the model's terms are values, so K also checks that And/Or leave their operand objects and
    simplify leaves its receiver unchanged (canonical text before/after).
S: brute-force truth tables on the real Python objects (no Lean involved) + the normal-form promises of
   the constructors' docstrings + operands keep their truth table after being used; shrinks the recipe.
"""
import itertools
import multiprocessing
import os
import sys
import time

from harness import common

REQUIRED = [
    "eval_mkAnd", "eval_mkOr", "eval_mkEq", "eval_build", "beq_sound",
    "normal_and_shape", "normal_or_shape", "mkEq_normal", "mkAnd_normal", "mkOr_normal", "build_normal",
    "simplify_normal", "simplify_sound", "simplify_sound_unkeyed_var_not_full",
    "simplify_and_eq_mkAnd", "simplify_or_eq_mkOr", "simplify_mkEq_prunes",
    "simplify_eq_error_iff", "simplify_and_error_iff", "simplify_or_error_iff",
    "simplify_error_imp_unkeyed", "simplify_ok_of_keyed",
    "simplify_error_iff_unkeyed_not_full", "simplify_error_iff_unkeyed_partial",
]

# name universes: (variables, values).  U2/U3 follow the module's convention (variables start with '~',
# so they sort above values); UR has the opposite order (values sort above variables).
U2 = (("~x", "~y"), ("1", "2"))
U3 = (("~x", "~y", "~z"), ("1", "2", "3"))
UR = (("a", "b"), ("c", "d"))

_B = None


def booleq():
  global _B
  if _B is None:
    common.load_pytype()
    from pytype.pytd import booleq as b  # pylint: disable=g-import-not-at-top
    _B = b
  return _B


# ----------------------------------------------------------------------------
# recipes: ("T",) ("F",) ("E", l, r) ("A", (r1, ...)) ("O", (r1, ...))
# ----------------------------------------------------------------------------
def rtoks(r):
  k = r[0]
  if k in "TF":
    return [k]
  if k == "E":
    return ["E", r[1], r[2]]
  out = [k, str(len(r[1]))]
  for c in r[1]:
    out += rtoks(c)
  return out


def rshow(r):
  k = r[0]
  if k == "T":
    return "TRUE"
  if k == "F":
    return "FALSE"
  if k == "E":
    return "Eq(%r, %r)" % (r[1], r[2])
  return "%s([%s])" % ("And" if k == "A" else "Or", ", ".join(rshow(c) for c in r[1]))


def rsize(r):
  return 1 if r[0] in "TFE" else 1 + sum(rsize(c) for c in r[1])


def py_build(r):
  B = booleq()
  k = r[0]
  if k == "T":
    return B.TRUE
  if k == "F":
    return B.FALSE
  if k == "E":
    return B.Eq(r[1], r[2])
  return (B.And if k == "A" else B.Or)([py_build(c) for c in r[1]])


def build_checked(r):
  """Canonical text of the built term.  In the model terms are values; the real constructors must
  therefore leave their operand objects untouched: a changed operand is appended to the answer (and so
  shows up as a disagreement)."""
  if r[0] not in "AO":
    return canon(py_build(r))
  B = booleq()
  kids = [py_build(c) for c in r[1]]
  before = [canon(k) for k in kids]
  t = (B.And if r[0] == "A" else B.Or)(kids)
  ans = canon(t)
  after = [canon(k) for k in kids]
  if before != after:
    i = [a != b for a, b in zip(before, after)].index(True)
    ans += " OPERAND-MUTATED #%d %s -> %s" % (i, before[i], after[i])
  return ans


def canon(t):
  B = booleq()
  if t is B.TRUE:
    return "T"
  if t is B.FALSE:
    return "F"
  if isinstance(t, B._Eq):
    return "(%s=%s)" % (t.left, t.right)
  if isinstance(t, (B._And, B._Or)):
    return ("A[" if isinstance(t, B._And) else "O[") + ",".join(sorted(canon(e) for e in t.exprs)) + "]"
  return "?%r" % (t,)


def raw_toks(t):
  """The real term with children in the iteration order of its Python container."""
  B = booleq()
  if t is B.TRUE:
    return ["T"]
  if t is B.FALSE:
    return ["F"]
  if isinstance(t, B._Eq):
    return ["E", t.left, t.right]
  kids = list(t.exprs)
  out = ["A" if isinstance(t, B._And) else "O", str(len(kids))]
  for e in kids:
    out += raw_toks(e)
  return out


def tab_toks(tab):
  out = []
  for k, vs in tab:
    out += [k, str(len(vs))] + list(vs)
  return out


def tab_dict(tab):
  return {k: set(vs) for k, vs in tab}


def py_simplify_field(t, ct, tab):
  try:
    r = t.simplify(tab_dict(tab))
  except KeyError:
    return "!"
  c = canon(r)
  return "=" if c == ct else c


# ----------------------------------------------------------------------------
# spaces
# ----------------------------------------------------------------------------
def atoms(univ, valval=False):
  vs, cs = univ
  out = [("T",), ("F",)]
  out += [("E", x, c) for x in vs for c in cs]
  out += [("E", x, y) for x, y in itertools.combinations(vs, 2)]
  if valval:
    out += [("E", c, d) for c, d in itertools.combinations(cs, 2)]
  return out


def eq_recipes(univ):
  names = list(univ[0]) + list(univ[1])
  return [("E", l, r) for l in names for r in names]


def all_tables(univ, with_missing=True):
  """Every table: each variable is absent or maps to a subset of the values."""
  vs, cs = univ
  subsets = [tuple(c for i, c in enumerate(cs) if m >> i & 1) for m in range(1 << len(cs))]
  opts = ([None] if with_missing else []) + subsets
  out = []
  for choice in itertools.product(opts, repeat=len(vs)):
    out.append(tuple((x, s) for x, s in zip(vs, choice) if s is not None))
  return out


def odd_tables(univ):
  """values as keys / variables as values: legal dicts the code must treat uniformly"""
  vs, cs = univ
  return [((cs[0], (cs[1],)),), ((vs[0], (vs[1], cs[0])), (vs[1], (cs[0],))), ((cs[0], ()), (vs[0], (cs[0],)))]


class Space:
  """Level-wise closure of a pool of recipes under binary And/Or, de-duplicated by the canonical text
  of the *real* result (so deeper levels combine one representative per distinct real term)."""

  def __init__(self, pool):
    self.reps = {}       # canon -> recipe (first seen)
    self.levels = []
    new = []
    for r in pool:
      c = canon(py_build(r))
      if c not in self.reps:
        self.reps[c] = r
        new.append(r)
    self.levels.append(new)

  def pair_recipes(self):
    pool = list(self.reps.values())
    for i, a in enumerate(pool):
      for b in pool[i:]:
        yield ("A", (a, b))
        yield ("O", (a, b))

  def close(self, recipes):
    new = []
    for r in recipes:
      c = canon(py_build(r))
      if c not in self.reps:
        self.reps[c] = r
        new.append(r)
    self.levels.append(new)
    return new


# ----------------------------------------------------------------------------
# a unit of K work: (build recipes, simplify recipes, tables) -> disagreements, stats
# ----------------------------------------------------------------------------
def run_unit(unit):
  """unit = dict(build=[recipes], simp=[recipes or ('RAW', tokens-producing spec)], tables=[tables])."""
  booleq()
  drv = common.Driver("drv_c17")
  lines = []
  expect = []   # (kind, payload, python answer)
  for r in unit.get("build", ()):
    try:
      ans = build_checked(r)
    except Exception as e:  # pylint: disable=broad-except
      ans = "EXC:" + type(e).__name__
    lines.append("B " + " ".join(rtoks(r)))
    expect.append(("build", r, ans))
  tabs = unit.get("tables", ())
  simp = unit.get("simp", ())
  if simp:
    lines.append("TAB " + " ; ".join(" ".join(tab_toks(t)) for t in tabs))
  for r in simp:
    t = forced_build(r[1]) if r[0] == "RAW" else py_build(r)
    ct = canon(t)
    toks = raw_toks(t)
    fields = []
    for tab in tabs:
      try:
        fields.append(py_simplify_field(t, ct, tab))
      except Exception as e:  # pylint: disable=broad-except
        fields.append("EXC:" + type(e).__name__)
    try:
      if canon(t) != ct or raw_toks(t) != toks:
        fields = ["RECEIVER-MUTATED " + canon(t)] + fields[1:]
    except Exception as e:  # pylint: disable=broad-except
      fields = ["EXC:" + type(e).__name__] + fields[1:]
    lines.append("S " + " ".join(toks))
    expect.append(("simp", (r, toks), fields))
  out = drv.batch(lines) if lines else []
  dis = []
  stats = {"build": 0, "build_nontrivial": 0, "simp": 0, "simp_changed": 0, "simp_error": 0, "simp_false": 0,
           "simp_same": 0}
  if len(out) != len(expect):
    return [{"kind": "driver-output-length", "expected": len(expect), "got": len(out)}], stats
  for (kind, payload, ans), got in zip(expect, out):
    if kind == "build":
      stats["build"] += 1
      if ans[:1] in "AO":
        stats["build_nontrivial"] += 1
      if ans != got:
        dis.append({"kind": "build", "recipe": payload, "show": rshow(payload), "real": ans, "model": got})
    else:
      r, toks = payload
      gf = got.split(";") if tabs else []
      if len(gf) != len(ans):
        dis.append({"kind": "simplify-arity", "term": toks, "model": got})
        continue
      for tab, a, g in zip(tabs, ans, gf):
        stats["simp"] += 1
        if a == "=":
          stats["simp_same"] += 1
        elif a == "!":
          stats["simp_error"] += 1
        elif a == "F":
          stats["simp_false"] += 1
        else:
          stats["simp_changed"] += 1
        if a != g and len(dis) < 40:
          dis.append({"kind": "simplify", "recipe": r, "show": rshow(r) if r[0] != "RAW" else str(r[1]),
                      "term_in_iteration_order": " ".join(toks), "table": {k: list(vs) for k, vs in tab},
                      "real": a, "model": g})
  return dis, stats


def forced_build(spec):
  """('A'|'O', [children specs]) with children given as a *list* (forces iteration order);
  leaves are recipes built through the public constructors."""
  B = booleq()
  if spec[0] in ("A!", "O!"):
    cls = B._And if spec[0] == "A!" else B._Or
    return cls([forced_build(c) for c in spec[1]])
  return py_build(spec)


def forced_show(spec):
  if spec[0] in ("A!", "O!"):
    return "%s[%s]" % ("_And" if spec[0] == "A!" else "_Or", ", ".join(forced_show(c) for c in spec[1]))
  return rshow(spec)


def chunks(xs, n):
  for i in range(0, len(xs), n):
    yield xs[i:i + n]


def correspond(res, rng, tier):
  B = booleq()
  common.ensure_driver("drv_c17")
  t0 = time.time()
  thorough = tier == "thorough"
  units = []
  dist = {}

  def lists_of(pool, arities):
    return [(k, tuple(c)) for k in "AO" for n in arities for c in itertools.product(pool, repeat=n)]

  def extra_terms(sp, recipes):
    """distinct real terms produced by `recipes` that are not representatives of the space"""
    seen, out = set(), []
    for r in recipes:
      c = canon(py_build(r))
      if c not in sp.reps and c not in seen:
        seen.add(c)
        out.append(r)
    return out

  # ---- universe U2 (2 variables x 2 values): all tables (each variable absent / any subset) + odd ones.
  # The level-wise closure is over *binary* And/Or (depth 1 in both operand orders, incl. And([a, a]));
  # lists of 0, 1 and 3 atoms are built and simplified too but do not feed the next level.
  tabs2 = all_tables(U2) + odd_tables(U2)
  sp2 = Space(atoms(U2))
  lvl0 = list(sp2.levels[0])
  b0 = eq_recipes(U2) + [("T",), ("F",)]
  d1 = lists_of(lvl0, (2,))
  new1 = sp2.close(d1)
  d1x = lists_of(lvl0, (0, 1, 3))
  d2 = list(sp2.pair_recipes())
  new2 = sp2.close(d2)
  # wider depth-2 recipes (arity 3, mixed kinds), seeded
  pool2 = list(sp2.reps.values())
  d2w = [(rng.choice("AO"), tuple(rng.choice(pool2) for _ in range(3))) for _ in range(400 if not thorough else 4000)]
  d3 = list(sp2.pair_recipes())
  n_d3 = len(d3)
  # caps keep a mutated tree (whose space of distinct terms may explode) within budget
  n_run = min(n_d3, 1000000) if thorough else min(max(1, n_d3 // 10), 60000)
  if n_run < n_d3:
    d3 = rng.sample(d3, n_run)
  new3 = sp2.close(d3)
  x2 = extra_terms(sp2, d1x + d2w)
  dist["U2"] = {"atoms": len(lvl0), "depth1_recipes": len(d1) + len(d1x), "depth2_recipes": len(d2) + len(d2w),
                "depth3_recipes_total": n_d3, "depth3_recipes_run": len(d3),
                "distinct_terms_by_level": [len(l) for l in sp2.levels], "extra_distinct_terms": len(x2),
                "tables": len(tabs2)}
  build2 = b0 + d1 + d1x + d2 + d2w + d3
  simp2 = lvl0 + new1 + new2 + new3 + x2
  for c in chunks(build2, 4000):
    units.append({"build": c})
  for c in chunks(simp2, 1000):
    units.append({"simp": c, "tables": tabs2})

  # ---- universe U3 (3 variables x 3 values): depth <= 2 exhaustive; tables: all 729 (+odd) on depth <= 1,
  #      seeded sample per chunk (quick) / all (thorough) on depth 2; seeded random depth-3 recipes
  tabs3 = all_tables(U3) + odd_tables(U3)
  sp3 = Space(atoms(U3))
  l30 = list(sp3.levels[0])
  d31 = lists_of(l30, (2,))
  n31 = sp3.close(d31)
  d31x = lists_of(l30, (0, 1))
  d32 = list(sp3.pair_recipes())
  if len(d32) > 60000:
    d32 = rng.sample(d32, 60000)
  n32 = sp3.close(d32)
  pool3 = list(sp3.reps.values())
  n_r3 = 3000 if not thorough else 20000
  d33 = []
  for _ in range(n_r3):
    ar = rng.choice([2, 2, 3])
    d33.append((rng.choice("AO"), tuple(rng.choice(pool3) for _ in range(ar))))
  n33 = sp3.close(d33)
  build3 = eq_recipes(U3) + d31 + d31x + d32 + d33
  for c in chunks(build3, 4000):
    units.append({"build": c})
  for c in chunks(l30 + n31, 20):
    units.append({"simp": c, "tables": tabs3})
  per_chunk = 200 if thorough else 16
  for c in chunks(n32, 250):
    units.append({"simp": c, "tables": rng.sample(tabs3, per_chunk)})
  for c in chunks(n33, 250):
    units.append({"simp": c, "tables": rng.sample(tabs3, 16 if not thorough else 60)})
  dist["U3"] = {"atoms": len(l30), "depth1_recipes": len(d31) + len(d31x), "depth2_recipes": len(d32),
                "depth3_random_recipes": len(d33), "distinct_terms_by_level": [len(l) for l in sp3.levels],
                "tables": len(tabs3), "tables_per_depth2_term": per_chunk}

  # ---- universe UR (values sort above variables; also value==value equalities): depth <= 2, all tables
  tabsr = all_tables(UR) + odd_tables(UR)
  spr = Space(atoms(UR, valval=True))
  lr0 = list(spr.levels[0])
  dr1 = lists_of(lr0, (2,))
  nr1 = spr.close(dr1)
  dr1x = lists_of(lr0, (0, 1))
  dr2 = list(spr.pair_recipes())
  if len(dr2) > 20000:
    dr2 = rng.sample(dr2, 20000)
  nr2 = spr.close(dr2)
  units.append({"build": eq_recipes(UR) + dr1 + dr1x + dr2})
  for c in chunks(lr0 + nr1 + nr2, 500):
    units.append({"simp": c, "tables": tabsr})
  dist["UR"] = {"atoms": len(lr0), "recipes": len(dr1) + len(dr1x) + len(dr2),
                "distinct_terms_by_level": [len(l) for l in spr.levels], "tables": len(tabsr)}

  # ---- forced iteration order: _And/_Or over lists, all permutations, incl. value==value equalities
  leaves = atoms(U2, valval=True)
  inner = [("A!", [("E", "~x", "1"), ("E", "2", "1")]), ("O!", [("E", "~x", "1"), ("E", "2", "1")]),
           ("A!", [("E", "~y", "2"), ("E", "~x", "~y")]), ("O!", [("E", "~y", "1"), ("E", "~x", "2")])]
  forced = []
  for k in ("A!", "O!"):
    for n in (2, 3):
      for c in itertools.permutations(leaves + inner, n):
        forced.append(("RAW", (k, list(c))))
  if not thorough:
    forced = forced[:600] + rng.sample(forced[600:], 1400)
  for c in chunks(forced, 500):
    units.append({"simp": c, "tables": tabs2})
  dist["forced_order_terms"] = len(forced)

  gen_s = time.time() - t0
  dist["prove_stage_s"] = round(t0 - res.t0, 1)
  # ---- run
  nproc = min(16, os.cpu_count() or 1, max(1, len(units)))
  ctx = multiprocessing.get_context("fork")
  with ctx.Pool(nproc) as pool:
    results = pool.map(run_unit, units, chunksize=1)
  disagreements = []
  tot = {}
  for dis, st in results:
    disagreements += dis
    for k, v in st.items():
      tot[k] = tot.get(k, 0) + v
  distinct_terms = len(sp2.reps) + len(sp3.reps) + len(spr.reps)
  res.cov["evaluations"] = tot.get("build", 0) + tot.get("simp", 0)
  # distinct & non-trivial, measured: distinct real terms that are connectives (each was built AND
  # simplified) + (term, table) pairs whose simplification changed the term or raised
  nontrivial_terms = sum(1 for sp in (sp2, sp3, spr) for c in sp.reps if c[:1] in "AO")
  res.cov["distinct_nontrivial"] = nontrivial_terms + tot.get("simp_changed", 0) + tot.get("simp_false", 0) + tot.get("simp_error", 0)
  res.cov["exhaustive"] = bool(thorough and n_run == n_d3)
  res.cov["rule"] = (
      "recipes = trees of public-constructor calls (Eq/And/Or over TRUE/FALSE and names), enumerated level-wise: "
      "all ordered pairs of atoms, then all unordered pairs of the distinct real terms of the previous levels, under And "
      "and Or (plus all lists of 0, 1, 3 atoms and seeded arity-3 recipes outside the closure); U2 depth 3 is %s; every recipe is built in both systems and the "
      "canonical texts compared; every distinct real term is simplified against the tables (all 5^2(+3) tables for "
      "U2/UR incl. missing keys; U3: all 9^3(+3) on depth<=1, %s on depth 2) with the model given the children in the "
      "real set-iteration order; plus forced-order _And/_Or-over-list terms in all permutations. distinct_nontrivial = "
      "distinct real terms that are connectives + distinct (term, table) pairs whose result differs from the input "
      "(changed, FALSE or KeyError)" % (
          "exhaustive" if thorough else "a seeded 10% sample", "200 seeded tables per 250-term chunk" if thorough else "16 seeded tables per 250-term chunk"))
  dist["totals"] = tot
  dist["distinct_real_terms"] = distinct_terms
  dist["units"] = len(units)
  dist["k_run_s"] = round(time.time() - t0 - gen_s, 1)
  dist["generation_s"] = round(gen_s, 1)
  dist["python_hash_randomised"] = os.environ.get("PYTHONHASHSEED", "random")
  res.cov["distribution"] = dist
  ex = d2[len(d2) // 3]
  ex3 = d3[len(d3) // 2]
  t3 = py_build(ex3)
  res.add_samples([
      {"recipe": rshow(ex), "built": canon(py_build(ex))},
      {"recipe": rshow(ex3), "built": canon(t3), "table": {"~x": ["1"], "~y": ["1", "2"]},
       "simplified": py_simplify_field(t3, canon(t3), (("~x", ("1",)), ("~y", ("1", "2"))))},
      {"forced_order": forced_show(forced[-1][1])},
  ])
  return disagreements


# ----------------------------------------------------------------------------
# S: the property's own oracle on the real objects
# ----------------------------------------------------------------------------
def names_of(r, acc=None):
  acc = set() if acc is None else acc
  if r[0] == "E":
    acc.update(r[1:3])
  elif r[0] in "AO":
    for c in r[1]:
      names_of(c, acc)
  return acc


def r_eval(r, val):
  k = r[0]
  if k == "T":
    return True
  if k == "F":
    return False
  if k == "E":
    return val(r[1]) == val(r[2])
  if k == "A":
    return all(r_eval(c, val) for c in r[1])
  return any(r_eval(c, val) for c in r[1])


def t_eval(t, val):
  B = booleq()
  if t is B.TRUE:
    return True
  if t is B.FALSE:
    return False
  if isinstance(t, B._Eq):
    return val(t.left) == val(t.right)
  if isinstance(t, B._And):
    return all(t_eval(e, val) for e in t.exprs)
  if isinstance(t, B._Or):
    return any(t_eval(e, val) for e in t.exprs)
  raise TypeError("not a boolean term: %r" % (t,))


def normal_defect(t):
  """None, or a description of how the real term breaks the constructors' promises."""
  B = booleq()
  if t is B.TRUE or t is B.FALSE:
    return None
  if isinstance(t, B._Eq):
    return None if t.left > t.right else "_Eq(%r, %r): left is not the larger string" % (t.left, t.right)
  if isinstance(t, (B._And, B._Or)):
    kids = list(t.exprs)
    if len(kids) < 2:
      return "%s with %d child(ren) was not collapsed" % (type(t).__name__, len(kids))
    for e in kids:
      if e is B.TRUE or e is B.FALSE:
        return "%s has a %s child (not absorbed)" % (type(t).__name__, e)
      if type(e) is type(t):
        return "%s has a nested %s child (not flattened)" % (type(t).__name__, type(e).__name__)
      d = normal_defect(e)
      if d:
        return d
    cs = [canon(e) for e in kids]
    if len(set(cs)) != len(cs):
      return "%s has duplicate children" % type(t).__name__
    return None
  return "not a boolean term: %r" % (t,)


def assignments(vs, cs):
  for pick in itertools.product(cs, repeat=len(vs)):
    yield dict(zip(vs, pick))


def truth_table(t, vs, cs):
  return [t_eval(t, lambda s, rho=rho: rho.get(s, s)) for rho in assignments(vs, cs)]


def oracle_build(r, univ):
  """Failure description or None: built term vs the plain connectives under every assignment; normal form."""
  vs, cs = univ
  try:
    if r[0] in "AO":
      B = booleq()
      kids = [py_build(c) for c in r[1]]
      tt_before = [truth_table(k, vs, cs) for k in kids]
      shown = [canon(k) for k in kids]
      t = (B.And if r[0] == "A" else B.Or)(kids)
      tt_after = [truth_table(k, vs, cs) for k in kids]
      if tt_before != tt_after:
        i = [a != b for a, b in zip(tt_before, tt_after)].index(True)
        return {"what": "an operand changed its meaning after being passed to the constructor",
                "operand_index": i, "operand_before": shown[i], "operand_after": canon(kids[i]),
                "truth_table_before": tt_before[i], "truth_table_after": tt_after[i],
                "assignments_order": [list(vs), list(cs)]}
    else:
      t = py_build(r)
  except Exception as e:  # pylint: disable=broad-except
    return {"what": "constructor raised", "exception": repr(e)}
  d = normal_defect(t)
  if d:
    return {"what": "normal form: " + d, "built": canon(t)}
  for rho in assignments(vs, cs):
    val = lambda s, rho=rho: rho.get(s, s)
    try:
      got = t_eval(t, val)
    except Exception as e:  # pylint: disable=broad-except
      return {"what": "built object is not a term", "exception": repr(e)}
    want = r_eval(r, val)
    if got != want:
      return {"what": "built term is not equivalent to the connectives", "built": canon(t), "assignment": rho,
              "connectives_value": want, "built_value": got}
  return None


def oracle_simplify(r, univ, tables):
  """Failure description or None: for tables keying every variable, simplify must return a term with the
  same value under every assignment drawn from the table (and, the term having a variable in every
  equality, must not raise)."""
  vs, cs = univ
  t = py_build(r)
  for tab in tables:
    td = tab_dict(tab)
    if any(x not in td for x in vs) or any(k not in vs for k in td):
      continue
    try:
      s = t.simplify({k: set(v) for k, v in td.items()})
    except Exception as e:  # pylint: disable=broad-except
      if all_eqs_have_var(t, vs):
        return {"what": "simplify raised on a table that keys every variable", "term": canon(t),
                "table": {k: sorted(v) for k, v in td.items()}, "exception": repr(e)}
      continue
    d = normal_defect(s)
    if d and not normal_defect(t):
      return {"what": "simplify result normal form: " + d, "term": canon(t),
              "table": {k: sorted(v) for k, v in td.items()}, "simplified": canon(s)}
    for pick in itertools.product(*[sorted(td[x]) for x in vs]):
      rho = dict(zip(vs, pick))
      val = lambda n, rho=rho: rho.get(n, n)
      try:
        a, b = t_eval(t, val), t_eval(s, val)
      except Exception as e:  # pylint: disable=broad-except
        return {"what": "simplify returned a non-term", "term": canon(t), "exception": repr(e)}
      if a != b:
        return {"what": "simplify changed the truth value on a table-consistent assignment", "term": canon(t),
                "table": {k: sorted(v) for k, v in td.items()}, "assignment": rho, "simplified": canon(s),
                "term_value": a, "simplified_value": b}
  return None


def all_eqs_have_var(t, vs):
  B = booleq()
  if isinstance(t, B._Eq):
    return t.left in vs or t.right in vs
  if isinstance(t, (B._And, B._Or)):
    return all(all_eqs_have_var(e, vs) for e in t.exprs)
  return True


def shrink_recipe(r, fails, budget_s=20.0):
  """Greedy tree shrink: replace by a sub-recipe / drop children (ddmin on child lists) while `fails`."""
  t0 = time.time()

  def ok(x):
    try:
      return bool(fails(x))
    except Exception:  # pylint: disable=broad-except
      return False
  cur = r
  progress = True
  while progress and time.time() - t0 < budget_s:
    progress = False
    if cur[0] in "AO":
      for c in cur[1]:
        if ok(c):
          cur, progress = c, True
          break
      if progress:
        continue
      kids = common.ddmin(list(cur[1]), lambda ks: ok((cur[0], tuple(ks))), budget_s=5.0)
      if len(kids) < len(cur[1]):
        cur, progress = (cur[0], tuple(kids)), True
        continue
      for i, c in enumerate(cur[1]):
        if c[0] in "AO":
          for g in list(c[1]) + [("T",), ("F",)]:
            cand = (cur[0], tuple(cur[1][:i]) + (g,) + tuple(cur[1][i + 1:]))
            if ok(cand):
              cur, progress = cand, True
              break
        if progress:
          break
  return cur


def univ_of(r):
  ns = names_of(r)
  for u in (U2, U3, UR):
    if ns <= set(u[0]) | set(u[1]):
      return u
  return U3


def search(res, rng, disagreements, pfail):
  booleq()
  found = []
  seen_what = set()
  t0 = time.time()

  def report(r, univ, tables):
    fb = lambda x: oracle_build(x, univ) is not None
    fs = lambda x: oracle_build(x, univ) is None and oracle_simplify(x, univ, tables) is not None
    if fb(r):
      small = shrink_recipe(r, fb)
      f = oracle_build(small, univ)
      kind = "build"
    elif fs(r):
      small = shrink_recipe(r, fs)
      f = oracle_simplify(small, univ, tables)
      kind = "simplify"
    else:
      return False
    key = (kind, f["what"][:40])
    if key in seen_what:
      return True
    seen_what.add(key)
    found.append(dict(f, stage=kind, recipe=rshow(small), recipe_tokens=" ".join(rtoks(small)),
                      oracle="brute-force truth table over all assignments on the real booleq objects"))
    return True

  cands = []
  for d in disagreements:
    r = d.get("recipe")
    if r and r[0] != "RAW":
      cands.append(to_tuple(r))
  cands.sort(key=rsize)
  for r in cands[:200]:
    u = univ_of(r)
    report(r, u, all_tables(u, with_missing=False))
    if len(found) >= 2 or time.time() - t0 > 40:
      break
  if len(found) < 2:
    # neighbourhood: the whole small space, smallest first
    for univ in (U2, UR, U3):
      tabs = all_tables(univ, with_missing=False)
      a = atoms(univ)
      small = eq_recipes(univ) + [(k, tuple(c)) for k in "AO" for n in range(0, 3) for c in itertools.product(a, repeat=n)]
      for r in small:
        report(r, univ, tabs)
        if len(found) >= 2 or time.time() - t0 > 80:
          break
      if len(found) >= 2 or time.time() - t0 > 80:
        break
      if univ is U2:
        sp = Space(a)
        sp.close(small)
        for r in sp.pair_recipes():
          report(r, univ, tabs)
          if len(found) >= 2 or time.time() - t0 > 80:
            break
  return found


def to_tuple(r):
  if r[0] in "AO":
    return (r[0], tuple(to_tuple(c) for c in r[1]))
  return tuple(r)


def main():
  return common.run_check(
      "C17", REQUIRED, correspond, None, search,
      trusted=["hand-written Lean model of booleq.py (TRUE/FALSE/_Eq/_And/_Or, simplify_exprs, Eq/And/Or, simplify); "
               "a Python set of sub-terms is a list in iteration order, set membership is Term.beq (__eq__/__hash__ "
               "assumed consistent, Python's set implementation trusted)",
               "canonical-text functions on both sides (children sorted; ASCII names so code-point order agrees)",
               "Solver.solve / extract_pivots (consumers of the terms) are not modelled"],
      assumptions=["names are plain strings compared by code point; tables are dicts name -> set of names",
                   "simplify_sound needs every variable to be a key of the table (necessity proved: "
                   "simplify_sound_unkeyed_var_not_full)"])


if __name__ == "__main__":
  sys.exit(main())
