"""Process pool running the real pytype VM (io.generate_pyi) on many sources."""
import multiprocessing as mp
import os
import traceback

_STATE = {}


def _init():
  import warnings
  warnings.simplefilter("ignore")
  from harness import common
  common.load_pytype()
  from pytype import config, io
  _STATE["io"] = io
  _STATE["opts"] = config.Options.create(python_version=(3, 12))


def _run(src):
  io = _STATE["io"]
  try:
    ret, pyi = io.generate_pyi(src, _STATE["opts"])
    errs = [(e.name, e.line) for e in ret.context.errorlog.unique_sorted_errors()]
    return {"pyi": pyi, "errors": errs}
  except Exception as e:  # pylint: disable=broad-except
    return {"exception": repr(e), "trace": traceback.format_exc()[-1500:]}


def analyze_many(sources, nproc=None):
  from harness import common
  common.ensure_ext()  # build once in the parent
  nproc = nproc or min(14, max(1, os.cpu_count() - 2))
  if len(sources) < 4:
    nproc = 1
  ctx = mp.get_context("fork")
  with ctx.Pool(nproc, initializer=_init) as pool:
    return pool.map(_run, sources, chunksize=max(1, len(sources) // (nproc * 4)))
