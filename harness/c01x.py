"""C01 extended stream (exploration, NOT covered by the Lean theorem): loop-free programs with functions, lambdas,
classes (single/multiple inheritance), methods, instance attributes, comprehensions over literals, subscripts,
builtin calls and try/except.  The property's own oracle is applied directly: run under CPython, and every
module-level name, every instance attribute of those values and every module-level call result must be admitted by
the stub the real pytype infers.
"""
import ast
import warnings

SCALAR_SRC = ["0", "7", "0.0", "1.5", "''", "'a'", "b''", "b'a'", "True", "False", "None"]


class XGen:
  def __init__(self, rng):
    self.rng = rng
    self.funcs = []      # (name, nparams)
    self.classes = []    # (name, init_params, methods[(name, nparams)], attrs)
    self.lines = []

  def lit(self):
    return self.rng.choice(SCALAR_SRC)

  def expr(self, names, depth=2):
    r = self.rng.random()
    if depth <= 0 or r < 0.3:
      if names and self.rng.random() < 0.6:
        return self.rng.choice(names)
      return self.lit()
    if r < 0.40:
      return "[%s]" % ", ".join(self.expr(names, depth - 1) for _ in range(self.rng.randrange(0, 3)))
    if r < 0.50:
      xs = [self.expr(names, depth - 1) for _ in range(self.rng.randrange(0, 3))]
      return "(%s%s)" % (", ".join(xs), "," if len(xs) == 1 else "")
    if r < 0.56:
      return "{%s: %s}" % (self.rng.choice(["'k'", "1", "None"]), self.expr(names, depth - 1))
    if r < 0.64:
      return "(%s if len(_L) > %d else %s)" % (self.expr(names, depth - 1), self.rng.choice([1, 5]), self.expr(names, depth - 1))
    if r < 0.70:
      return "(%s %s %s)" % (self.expr(names, depth - 1), self.rng.choice(["and", "or"]), self.expr(names, depth - 1))
    if r < 0.76:
      lits = [self.lit() for _ in range(self.rng.randrange(1, 4))]
      return "[%s for _x in [%s]]" % (self.rng.choice(["_x", "(_x, 1)", "[_x]", "str(_x)"]), ", ".join(lits))
    if r < 0.82:
      xs = [self.lit() for _ in range(self.rng.randrange(1, 4))]
      k = self.rng.randrange(len(xs))
      return self.rng.choice(["[%s][%d]", "(%s,)[%d]"]) % (", ".join(xs), k)
    if r < 0.88:
      return self.rng.choice(["len([1, 2])", "str(%s)" % self.lit(), "abs(-3)", "int('4')", "repr(%s)" % self.lit(),
                              "bool(%s)" % self.lit(), "list((1, 'a'))", "tuple([1, 2])", "max(1, 2)", "sorted([2, 1])",
                              "'a'.upper()", "'a b'.split()", "[1, 2].copy()", "{'k': 1}.get('k')", "{'k': 1}.keys()"])
    if r < 0.94 and self.funcs:
      f, n = self.rng.choice(self.funcs)
      return "%s(%s)" % (f, ", ".join(self.expr(names, depth - 1) for _ in range(n)))
    return "(lambda _z: %s)(%s)" % (self.rng.choice(["_z", "[_z]", "(_z, 1)", "None"]), self.expr(names, depth - 1))

  def body(self, names, ind, n, nest, ret=False):
    out = []
    names = list(names)
    for _ in range(n):
      if nest > 0 and self.rng.random() < 0.3:
        out.append("%sif %s:" % (ind, self.rng.choice(["len(_L) > %d" % self.rng.choice([1, 5])] +
                                                        (["%s is None" % self.rng.choice(names),
                                                          "isinstance(%s, %s)" % (self.rng.choice(names), self.rng.choice(["int", "str", "list"])),
                                                          self.rng.choice(names)] if names else []))))
        b1, n1 = self.body(names, ind + "  ", self.rng.randrange(1, 3), nest - 1, ret)
        out += b1
        out.append("%selse:" % ind)
        b2, n2 = self.body(names, ind + "  ", self.rng.randrange(1, 3), nest - 1, ret)
        out += b2
        names = [x for x in n1 if x in n2]
      else:
        x = self.rng.choice(["a", "b", "c", "d", "e"]) if not ret else self.rng.choice(["u", "w"])
        out.append("%s%s = %s" % (ind, x, self.expr(names, 2)))
        if x not in names:
          names.append(x)
    return out, names

  def gen(self):
    rng = self.rng
    L = ["_L = [0, 0, 0]"]
    for i in range(rng.randrange(0, 3)):
      n = rng.randrange(0, 3)
      ps = ["p%d" % j for j in range(n)]
      L.append("def f%d(%s):" % (i, ", ".join(ps)))
      b, names = self.body(ps, "  ", rng.randrange(0, 3), 1, ret=True)
      L += b
      L.append("  if len(_L) > %d:" % rng.choice([1, 5]))
      L.append("    return %s" % self.expr(names, 2))
      L.append("  return %s" % self.expr(names, 2))
      self.funcs.append(("f%d" % i, n))
    for i in range(rng.randrange(0, 3)):
      bases = []
      if self.classes and rng.random() < 0.6:
        bases = [c[0] for c in rng.sample(self.classes, min(len(self.classes), rng.choice([1, 1, 2])))]
      name = "K%d" % i
      L.append("class %s%s:" % (name, "(%s)" % ", ".join(bases) if bases else ""))
      L.append("  attr%d = %s" % (rng.randrange(2), self.expr([], 1)))
      nin = rng.randrange(0, 2)
      ips = ["q%d" % j for j in range(nin)]
      L.append("  def __init__(self%s):" % "".join(", " + p for p in ips))
      for k in range(rng.randrange(1, 3)):
        L.append("    self.x%d = %s" % (k, self.expr(ips, 2)))
      meths = []
      if rng.random() < 0.45:
        dn = rng.choice(["__len__", "__bool__"])
        L.append("  def %s(self):" % dn)
        L.append("    return %s" % (rng.choice(["0", "2"]) if dn == "__len__" else rng.choice(["False", "True"])))
      for k in range(rng.randrange(0, 2)):
        L.append("  def m%d(self, r):" % k)
        L.append("    if len(_L) > %d:" % rng.choice([1, 5]))
        L.append("      return %s" % self.expr(["r", "self.x0"], 2))
        L.append("    return %s" % self.expr(["r", "self.x0"], 2))
        meths.append(("m%d" % k, 1))
      self.classes.append((name, nin, meths))
    b, names = self.body([], "", rng.randrange(2, 7), 2)
    L += b
    for j, (cname, nin, meths) in enumerate(self.classes):
      L.append("o%d = %s(%s)" % (j, cname, ", ".join(self.expr(names, 1) for _ in range(nin))))
      L.append("oa%d = o%d.x0" % (j, j))
      L.append("ob%d = o%d.attr%d if hasattr(o%d, 'attr%d') else None" % (j, j, 0, j, 0))
      for m, _ in meths:
        L.append("or%d%s = o%d.%s(%s)" % (j, m, j, m, self.expr(names, 1)))
    for j, (cname, nin, meths) in enumerate(self.classes):
      if rng.random() < 0.7:
        L.append("oc%d = (%s if o%d else %s)" % (j, self.lit(), j, self.lit()))
        L.append("od%d = (o%d or %s)" % (j, j, self.lit()))
        L.append("if o%d:" % j)
        L.append("  oe%d = %s" % (j, self.lit()))
        L.append("else:")
        L.append("  oe%d = %s" % (j, self.lit()))
    for j in range(rng.randrange(0, 3)):
      kind = rng.choice(["dict", "list", "set"])
      if kind == "dict":
        L.append("md%d = {}" % j)
        for _ in range(rng.randrange(0, 3)):
          L.append(rng.choice(["md%d[%s] = %s" % (j, rng.choice(["'k'", "1", "None"]), self.expr(names, 1)),
                               "md%d.update({%s: %s})" % (j, rng.choice(["'k'", "404", "1.5"]), self.lit())]))
        # dict.setdefault on a key that is already present is a recorded known finding (c01-setdefault-existing-key):
        # the generator only calls it on fresh keys
        if rng.random() < 0.3:
          L.append("md%d.setdefault(%s, %s)" % (j, rng.choice(["'fresh'", "77"]), self.lit()))
        L.append("mq%d = ('ne' if md%d else None)" % (j, j))
        L.append("mg%d = md%d.get(%s)" % (j, j, rng.choice(["'k'", "1", "404"])))
        L.append("mv%d = list(md%d.values())" % (j, j))
      elif kind == "list":
        L.append("ml%d = []" % j)
        for _ in range(rng.randrange(0, 3)):
          L.append(rng.choice(["ml%d.append(%s)" % (j, self.expr(names, 1)), "ml%d.extend([%s])" % (j, self.lit()),
                               "ml%d.insert(0, %s)" % (j, self.lit()), "ml%d += [%s]" % (j, self.lit())]))
        L.append("mq%d = ('ne' if ml%d else None)" % (j, j))
        L.append("mf%d = (ml%d[0] if ml%d else None)" % (j, j, j))
      else:
        L.append("ms%d = set()" % j)
        for _ in range(rng.randrange(0, 3)):
          L.append(rng.choice(["ms%d.add(%s)" % (j, self.lit()), "ms%d.update({%s})" % (j, self.lit()), "ms%d |= {%s}" % (j, self.lit())]))
        L.append("mq%d = ('ne' if ms%d else None)" % (j, j))
    if rng.random() < 0.6:
      L.append("try:")
      L.append("  t1 = int(%s)" % rng.choice(["'x'", "'5'", "None"]))
      L.append("except %s:" % rng.choice(["ValueError", "Exception", "(ValueError, TypeError)"]))
      L.append("  t1 = %s" % self.lit())
    return "\n".join(L) + "\n"


# --- deterministic template families (run in full on every tier) ------------------------------------------------
_DUNDERS = [None, ("__len__", "0"), ("__len__", "2"), ("__bool__", "False"), ("__bool__", "True")]


def truthiness_family():
  """Where does a class get its truth value from?  Every placement of a __len__/__bool__ definition (falsy or
  truthy) on two bases x every inheritance shape (single, both orders of multiple inheritance, one level deeper)
  x the value used as a condition in every syntactic position.  10 hierarchies per module."""
  units = []
  k = 0
  for da in _DUNDERS:
    for db in _DUNDERS:
      for shape in ("A", "AB", "BA", "deepAB", "deepBA"):
        if shape == "A" and db is not None:
          continue
        k += 1
        A, B, C, D = "TA%d" % k, "TB%d" % k, "TC%d" % k, "TD%d" % k
        L = []
        for name, d in ((A, da), (B, db)):
          L.append("class %s:" % name)
          L.append("  tag = %r" % name)
          if d:
            L.append("  def %s(self): return %s" % d)
        bases = {"A": A, "AB": "%s, %s" % (A, B), "BA": "%s, %s" % (B, A), "deepAB": "%s, %s" % (A, B),
                 "deepBA": "%s, %s" % (B, A)}[shape]
        L.append("class %s(%s): pass" % (C, bases))
        cls = C
        if shape.startswith("deep"):
          L.append("class %s(%s): pass" % (D, C))
          cls = D
        o = "to%d" % k
        L += ["%s = %s()" % (o, cls),
              "ta%d = (1 if %s else 'a')" % (k, o),
              "tb%d = (%s or 'x')" % (k, o),
              "tc%d = (%s and 1.5)" % (k, o),
              "if %s:" % o, "  td%d = 1" % k, "else:", "  td%d = None" % k,
              "te%d = (not %s)" % (k, o),
              "tf%d = [y for y in [%s] if y]" % (k, o),
              "tg%d = (b'' if not %s else ())" % (k, o)]
        units.append(L)
  mods = []
  for i in range(0, len(units), 10):
    mods.append("\n".join(["_L = [0, 0, 0]"] + [l for u in units[i:i + 10] for l in u]) + "\n")
  return mods


def narrowing_family():
  """isinstance / `is None` narrowing of every scalar kind against every builtin class (incl. the PEP-484
  promotion pairs int/float/complex, bool/int, bytearray-free bytes), and tuple unions of every pair of lengths
  0..2 assigned in the two orders."""
  vals = ["0", "7", "True", "1.5", "''", "b'a'", "None", "[]", "()", "(1,)", "{}", "{1}", "2j"]
  clss = ["int", "float", "complex", "bool", "str", "bytes", "list", "tuple", "dict", "set", "object", "(str, float)",
          "(int, bytes)"]
  mods = []
  L = ["_L = [0, 0, 0]"]
  k = 0
  for v in vals:
    for c in clss:
      k += 1
      L += ["def nf%d(v):" % k, "  if isinstance(v, %s):" % c, "    return [v]", "  return v",
            "nr%d = nf%d(%s)" % (k, k, v),
            "ns%d = (%s if isinstance(%s, %s) else 'no')" % (k, v, v, c)]
      if k % 40 == 0:
        mods.append("\n".join(L) + "\n")
        L = ["_L = [0, 0, 0]"]
  if len(L) > 1:
    mods.append("\n".join(L) + "\n")
  tups = ["()", "(1,)", "('a',)", "(1, 'a')", "(None, 2.5)", "(1, 2, 3)"]
  L = ["_L = [0, 0, 0]"]
  k = 0
  for t1 in tups:
    for t2 in tups:
      if t1 == t2:
        continue
      k += 1
      L += ["tu%d = %s" % (k, t1), "if len(_L) > 1:", "  tu%d = %s" % (k, t2),
            "def tv%d(c):" % k, "  if c:", "    return %s" % t1, "  return %s" % t2,
            "tw%d = tv%d(len(_L) > 5)" % (k, k), "tx%d = [%s, %s][1]" % (k, t1, t2)]
  mods.append("\n".join(L) + "\n")
  return mods


def call_family():
  """One function or lambda called several times with arguments that are ==-equal (or hash alike) across types, in
  both orders — True/1, False/0, 'a'/b'a', ()/[] — and with the same value twice; results used directly, wrapped and
  through an operator; plus operators on a value that may be either constant."""
  pairs = [("True", "1"), ("False", "0"), ("'a'", "b'a'"), ("1", "True"), ("0", "False"), ("b'a'", "'a'"), ("()", "[]"),
           ("1", "1"), ("0.0", "0"), ("None", "False")]
  mods = []
  L = ["_L = [0, 0, 0]"]
  for k, (a, b) in enumerate(pairs):
    L += ["def cf%d(v):" % k, "  return v",
          "cg%d = lambda v: [v]" % k,
          "def ch%d(v, w=0):" % k, "  return (v, w)",
          "ca%d = cf%d(%s)" % (k, k, a), "cb%d = cf%d(%s)" % (k, k, b), "cc%d = cf%d(%s)" % (k, k, a),
          "cd%d = cg%d(%s)" % (k, k, a), "ce%d = cg%d(%s)" % (k, k, b),
          "ci%d = ch%d(%s)" % (k, k, a), "cj%d = ch%d(%s, %s)" % (k, k, b, a), "ck%d = ch%d(%s, w=%s)" % (k, k, a, b),
          "cm%d = (%s if len(_L) > 5 else %s)" % (k, a, b),
          "cn%d = [cm%d, cm%d]" % (k, k, k),
          "co%d = (cm%d, 1)" % (k, k)]
    if a in ("True", "False", "1", "0") and b in ("True", "False", "1", "0"):
      L += ["cp%d = cm%d & True" % (k, k), "cq%d = cm%d + 1" % (k, k), "cr%d = -cm%d" % (k, k)]
  mods.append("\n".join(L) + "\n")
  return mods


def store_family():
  """A container is stored into on one control-flow path only (an `if` without `else`, taken or not taken at run
  time, or a helper that stores conditionally) and then read back with a constant subscript / key / attribute."""
  mods = []
  L = ["_L = [0, 0, 0]"]
  k = 0
  for cond in ("len(_L) > 5", "len(_L) > 1"):
    for init, store, read in (("{'a': 1, 'b': None}", "%s['a'] = 'x'", "%s['a']"),
                              ("{'a': 1}", "%s['n'] = 'x'", "%s.get('n')"),
                              ("{'a': 1}", "%s.update({'a': 2.5})", "%s['a']"),
                              ("[1, 2]", "%s[0] = 'x'", "%s[0]"),
                              ("[1]", "%s.append('x')", "%s[-1]"),
                              ("{1}", "%s.add('x')", "sorted(%s, key=str)[0]")):
      k += 1
      d = "sd%d" % k
      L += ["%s = %s" % (d, init), "if %s:" % cond, "  " + store % d, "sr%d = %s" % (k, read % d),
            "ss%d = list(%s.values()) if isinstance(%s, dict) else list(%s)" % (k, d, d, d)]
      # the same through a helper that stores conditionally
      h = "sh%d" % k
      L += ["%s = %s" % (h, init), "def sf%d(c):" % k, "  if c:", "    " + store % h, "  return 0",
            "sf%d(%s)" % (k, cond), "st%d = %s" % (k, read % h)]
    # instance attribute stored on one path
    k += 1
    L += ["class SK%d:" % k, "  def __init__(self):", "    self.v = 1", "so%d = SK%d()" % (k, k), "if %s:" % cond,
          "  so%d.v = 'x'" % k, "sv%d = so%d.v" % (k, k)]
  mods.append("\n".join(L) + "\n")
  return mods


def display_family():
  """Container displays with unpacking: every arrangement of 0-2 unpacked operands (of different element types, built
  from call results so that nothing is constant-folded) and 0-2 plain items, for dict / list / tuple / set displays, and
  the call spellings dict(d, k=v) / [*a] + [x], and update() on a non-empty dict.  (Found the defect repaired by 23d3aba: a
  str-keyed item after a `**` operand and a `*` operand after a plain list element lost what the display already held.)"""
  L = ["def g(): return 3", "def h(): return 's'", "d1 = {1: g()}", "d2 = {'k': 1.5}", "l1 = [g()]", "l2 = [h(), None]",
       "t1 = (g(), h())", "s1 = {g()}"]
  k = 0
  dict_items = ["**d1", "**d2", "'a': g()", "b'b': None", "h(): l1"]
  seq_items = ["*l1", "*l2", "*t1", "g()", "h()", "None"]
  for i, a in enumerate(dict_items):
    for b in dict_items[:i] + dict_items[i + 1:]:
      for c in [None] + [x for x in dict_items if x not in (a, b)][:2]:
        parts = [a, b] + ([c] if c else [])
        k += 1
        L.append("dd%d = {%s}" % (k, ", ".join(parts)))
  for i, a in enumerate(seq_items):
    for b in seq_items[:i] + seq_items[i + 1:]:
      k += 1
      L.append("dl%d = [%s, %s]" % (k, a, b))
      L.append("dt%d = (%s, %s)" % (k, a, b))
      L.append("ds%d = {%s, %s}" % (k, a.replace("*l2", "*t1"), b.replace("*l2", "*t1")))
  L += ["dc1 = dict(d1, a=g())", "dc2 = dict(d2, **{'z': h()})", "dc3 = [*l1] + [h()]", "dc4 = {**d1}", "dc5 = {**d1, **d2}",
        "dc6 = [*l1, *l2][0]", "dc7 = {**d2}['k']", "dc8 = (*t1, *l2)[1]",
        "du1 = {1: g()}", "du1.update({'a': g()})", "du2 = {1: g()}", "du2.update(a=h())", "du3 = {1: g()}", "du3.update(d2)",
        "du4 = {'k': g()}", "du4.update({2.5: None}, z=h())", "du5 = {**d1}", "du5.update(d2)", "du5.update(d1)",
        "du6 = [g()]", "du6.extend(l2)", "du7 = [g(), *l2]", "du7 += [1.5]"]
  return ["\n".join(L) + "\n"]


def super_family():
  """Cooperative super() under multiple inheritance: the value a method chain returns / an __init__ chain stores is the
  one CPython's MRO of the *instance's* class yields (diamond, mix-in before a plain class, three bases, two-argument
  super, a sibling that does not call on), read through every class of the hierarchy."""
  L = ["class A:", "  def m(self):", "    return 1", "  def __init__(self):", "    self.a = 1",
       "class B(A):", "  def m(self):", "    return super().m()", "  def __init__(self):", "    super().__init__()",
       "    self.b = 's'",
       "class C(A):", "  def m(self):", "    return 's'", "  def __init__(self):", "    super().__init__()",
       "    self.c = 2.5",
       "class D(B, C):", "  pass",
       "class E(C, B):", "  def m(self):", "    return (super().m(), super(C, self).m(), super(B, self).m())",
       "class Mix:", "  def m(self):", "    return [super().m()]", "  def who(self):", "    return super().who() + (None,)",
       "class P:", "  def m(self):", "    return b'p'", "  def who(self):", "    return (1,)",
       "class Q(P):", "  def who(self):", "    return ('q',) + super().who()",
       "class MP(Mix, P):", "  pass", "class MQ(Mix, Q):", "  pass",
       "class T(B, Mix, C):", "  def m(self):", "    return {'t': super().m()}",
       "r1 = D().m()", "r2 = B().m()", "r3 = C().m()", "r4 = E().m()", "r5 = MP().m()", "r6 = MQ().m()", "r7 = MP().who()",
       "r8 = MQ().who()", "r9 = T().m()", "d = D()", "r10 = (d.a, d.b, d.c)", "e = E()", "r11 = (e.a, e.b, e.c)",
       "r12 = B().b", "r13 = [x.m() for x in (D(), B())]", "r14 = super(B, D()).m()", "r15 = super(D, D()).m()"]
  return ["\n".join(L) + "\n"]


def compare_family():
  """Branch pruning on comparisons whose operands are only partly known (compare.py `_compare_as_constant_tuples`,
  `compatible_with`; vm_utils.jump_if): tuples mixing constants with values the analyser cannot know, every comparison
  operator, constant prefixes that are equal / differ / where one is a strict prefix of the other, different lengths;
  plus the same for scalars, strings, `in` and `is`.  Each statement stores a marker in one branch and a value of
  another type in the other; the stub must admit what CPython computes."""
  import itertools
  import random as _random
  pre = ["X2 = int('2')", "X3 = int('3')", "S = str('b')", "N = None if X2 else 0"]
  elems = ["1", "2", "3", "X2", "X3"]
  ops = ["<", "<=", ">", ">=", "==", "!="]
  hand = [("(3, X2, 1)", "(3, 2, X3)"), ("(3, 2, X3)", "(3, X2, 1)"), ("(3, X2)", "(3, X2)"), ("(1, X2)", "(3, X3)"),
          ("(3,)", "(3, X2)"), ("(3, X2)", "(3,)"), ("(3, X3, 1)", "(3, 2)"), ("(X2, 1)", "(3, 2)"), ("(2, X2, 5)", "(2, X3, 1)"),
          ("(3, 1, X2)", "(3, 1, X3)"), ("()", "(X2,)"), ("(X3, X2)", "(3, 2)"), ("(3, (1, X2))", "(3, (1, 2))"),
          ("('a', S)", "('a', 'b')"), ("('a', S, 1)", "('a', 'a', X2)"), ("(None, X2)", "(None, 2)")]
  stmts = [(l, op, r) for l, r in hand for op in (ops if "None" not in l and "'a'" not in l else ["==", "!="])]
  rnd = _random.Random(20260924)
  tuples = ["(%s,)" % ", ".join(t) for n in (1, 2, 3) for t in itertools.product(elems, repeat=n)]
  for _ in range(150):
    stmts.append((rnd.choice(tuples), rnd.choice(ops), rnd.choice(tuples)))
  scal = [("X2", "2"), ("X2", "3"), ("3", "X3"), ("X2", "X3"), ("S", "'b'"), ("S", "'a'"), ("X2", "2.0"), ("N", "None")]
  for l, r in scal:
    for op in (["==", "!="] if "N" in (l, r) or "None" in (l, r) else ops):
      stmts.append((l, op, r))
  for l, r in [("X2", "(1, 2)"), ("X3", "(1, 2)"), ("2", "(1, X2)"), ("3", "(X3, 1)"), ("S", "('a', 'b')"),
               ("'b'", "(S, 'a')"), ("(3, X2)", "((3, 2), (1, 1))"), ("X2", "[1, X2]"), ("'k'", "{'k': X2}"), ("S", "{'b': 1}")]:
    stmts.append((l, "in", r))
    stmts.append((l, "not in", r))
  for l, r in [("N", "None"), ("X2", "None"), ("(3, X2)", "(3, X2)")]:
    stmts.append((l, "is", r))
    stmts.append((l, "is not", r))
  out = []
  for i in range(0, len(stmts), 40):
    L = list(pre)
    for j, (l, op, r) in enumerate(stmts[i:i + 40]):
      n = i + j
      L += ["l%d = %s" % (n, l), "r%d = %s" % (n, r),
            "if l%d %s r%d:" % (n, op, n), "  a%d = 1" % n, "else:", "  a%d = 's'" % n,
            "b%d = [0] if l%d %s r%d else {'k': None}" % (n, n, op, n),
            "if not (%s %s %s):" % (l, op, r), "  c%d = (1, 2)" % n, "else:", "  c%d = b''" % n]
    out.append("\n".join(L) + "\n")
  return out


# --- oracle ---------------------------------------------------------------------------------------------------
class Skip(Exception):
  pass


def admits_ann(node, v, ns, classes):
  """membership of the run-time value v in the stub annotation `node` (ast); unknown forms admit (counted)."""
  if isinstance(node, ast.Constant) and node.value is None:
    return v is None
  if isinstance(node, ast.Name):
    n = node.id
    if n in ("Any", "object"): return True
    if n == "nothing": return False
    if n == "int": return isinstance(v, int)
    if n == "float": return isinstance(v, (int, float))
    if n == "complex": return isinstance(v, (int, float, complex))
    if n == "bool": return isinstance(v, bool)
    if n == "function": return callable(v)
    if n == "str": return isinstance(v, str)
    if n == "bytes": return isinstance(v, bytes)
    if n in ("list", "set", "dict", "tuple", "frozenset"): return isinstance(v, ns.get(n, __builtins__[n] if isinstance(__builtins__, dict) else getattr(__builtins__, n)))
    if n in classes: return isinstance(v, ns[n])
    raise Skip(n)
  if isinstance(node, ast.Subscript) and isinstance(node.value, ast.Name):
    base = node.value.id
    sl = node.slice
    elts = list(sl.elts) if isinstance(sl, ast.Tuple) else [sl]
    if base == "Optional": return v is None or admits_ann(sl, v, ns, classes)
    if base == "Union": return any(admits_ann(x, v, ns, classes) for x in elts)
    if base == "list": return isinstance(v, list) and all(admits_ann(sl, x, ns, classes) for x in v)
    if base == "set": return isinstance(v, set) and all(admits_ann(sl, x, ns, classes) for x in v)
    if base == "dict":
      return isinstance(v, dict) and all(admits_ann(elts[0], k, ns, classes) and admits_ann(elts[1], x, ns, classes) for k, x in v.items())
    if base == "tuple":
      if not isinstance(v, tuple): return False
      if isinstance(sl, ast.Tuple) and not sl.elts: return len(v) == 0
      if len(elts) == 2 and isinstance(elts[1], ast.Constant) and elts[1].value is Ellipsis:
        return all(admits_ann(elts[0], x, ns, classes) for x in v)
      return len(v) == len(elts) and all(admits_ann(a, x, ns, classes) for a, x in zip(elts, v))
    raise Skip(base)
  raise Skip(ast.dump(node)[:40])


def check_program(src, pyi):
  """returns (failures, n_checked, n_skipped) or None if the program does not run to completion"""
  ns = {}
  try:
    warnings.simplefilter("ignore")
    exec(compile(src, "<c01x>", "exec"), ns)  # pylint: disable=exec-used
  except Exception:
    return None
  tree = ast.parse(pyi)
  classes = {st.name for st in tree.body if isinstance(st, ast.ClassDef)}
  fails, checked, skipped = [], 0, 0
  cls_attrs = {}
  for st in tree.body:
    if isinstance(st, ast.ClassDef):
      cls_attrs[st.name] = {s.target.id: s.annotation for s in st.body
                            if isinstance(s, ast.AnnAssign) and isinstance(s.target, ast.Name)}
  def attr_ann(cname, attr):
    # walk the run-time MRO (stub classes list their own attributes)
    for k in ns[cname].__mro__:
      if k.__name__ in cls_attrs and attr in cls_attrs[k.__name__]:
        return cls_attrs[k.__name__][attr]
    return None
  for st in tree.body:
    if isinstance(st, ast.AnnAssign) and isinstance(st.target, ast.Name) and st.target.id in ns:
      name = st.target.id
      try:
        checked += 1
        if not admits_ann(st.annotation, ns[name], ns, classes):
          fails.append((name, ast.unparse(st.annotation), repr(ns[name])[:80]))
      except Skip:
        skipped += 1
  # instance attributes of module-level values
  for name, v in list(ns.items()):
    if type(v).__name__ in classes and not name.startswith("__"):
      for attr, av in vars(v).items():
        ann = attr_ann(type(v).__name__, attr)
        if ann is None:
          continue
        try:
          checked += 1
          if not admits_ann(ann, av, ns, classes):
            fails.append(("%s.%s" % (name, attr), ast.unparse(ann), repr(av)[:80]))
        except Skip:
          skipped += 1
  return fails, checked, skipped
