"""C20 — merging a stub into source changes annotations only (DESIGN.md §5 C20).

P : lean/PytypeModel/Props/C20.lean (model of merge_pyi.py's two pre-filters + libcst's applier).
K : generated programs x {stub inferred by pytype (io.generate_pyi), independently generated stubs}:
    real merge_pyi.merge_sources output parsed with `ast`; (a) everything it did (insertions per
    slot, added imports / declarations / TypeVars / classes, changed bases, MergeError) must equal what
    the Lean driver predicts; (b) the property's oracle on the real output must hold wherever the
    guards of the `_partial` theorems (evaluated by the driver) hold.
W : the repaired witness (9f850ba) must pass; the recorded known findings are replayed.
S : the oracle alone on the real code (no model): still compiles, ast after erasure equals the
    original's, existing annotations kept, inserted = stub's for the qualified name, no bare
    Any/Never; failing pairs are shrunk.
"""
import ast
import multiprocessing
import os
import random
import sys
import time

from harness import common
from harness import c20_gen as G

REQUIRED = ["body_erases", "merge_erases_partial", "merge_erases_not_full", "existing_kept",
            "inserted_from_stub_partial", "inserted_from_stub_not_full", "no_bare_any_partial",
            "no_bare_any_not_full", "merge_fails_iff", "merge_error_witness", "fixed_witness_model",
            "entry_text_is_merge", "entry_frame", "entry_backup_original", "main_nondestructive"]

# hand-written pairs run first (probes made while modelling; the known-finding witnesses are in W too)
HAND_CASES = [
    # @overload variants in the stub (libcst keys stub functions by name and arity: the last variant with the key wins)
    ("def f(x=None): return x\ndef g(a, b): return a\n",
     "from typing import Any, Never, overload\n@overload\ndef f() -> int: ...\n@overload\ndef f(x) -> Any: ...\n"
     "@overload\ndef g(a: int, b: int) -> Never: ...\n@overload\ndef g(a: str, b: str) -> str: ...\n"),
    ("class A:\n    def m(self, k, *a): return k\n    def n(self): return 1\n",
     "from typing import Any, overload\nclass A:\n    @overload\n    def m(self, k: str, *a) -> Any: ...\n"
     "    @overload\n    def m(self, k: int, *a) -> int: ...\n    @overload\n    def n(self) -> Any: ...\n"),
    ("def h(a): return a\n", "from typing import Any, overload\n@overload\ndef h(a: int) -> Any: ...\n"),
    ("def foo(): return 1\nx = foo()\ny = foo()\n",
     "from typing import Any, Never\nx: Any\ny: Never\ndef foo() -> int: ...\n"),
    ("import os\nx = []\ndef f(a, *args, b=1, **kw): return a\n",
     "from typing import Any, TypeVar\n_T0 = TypeVar('_T0')\nx: list[Any]\n"
     "def f(a: _T0, *args, b: int = ..., **kw) -> _T0: ...\n"),
    ("import typing\nx = []\n", "from typing import Any\nx: list[Any]\n"),
    ("from typing import List\nx = []\n", "from typing import Any\nx: list[Any]\n"),
    ("def f(a, *, b): return a\n", "from typing import Optional, Any\ndef f(a, *, b: Optional[Any]) -> None: ...\n"),
    ("class A:\n    def clone(self): return A()\ndef mk(): return A()\n",
     "class A:\n    def clone(self) -> A: ...\ndef mk() -> A: ...\n"),
    ("def f(y, x): return x\n", "def f(x: int, y: str) -> str: ...\n"),
    ("def f(x: int, y): return x\n", "def f(x: str, y: str) -> str: ...\n"),
    ("def f(x: int, y): return x\n", "def f(x: int, y: str) -> str: ...\n"),
    ("x: int = 1\nx = 2\n", "x: str\n"),
    ("x = 1\ny = 's'\nz = 1.5\n", "x: int\ny: str = ...\nz: float\n"),
    ("from typing import TypeVar\nT = TypeVar('T')\ndef f(x): return x\n",
     "from typing import TypeVar\nT = TypeVar('T')\nU = TypeVar('U')\ndef f(x: T) -> T: ...\n"),
    ("if True:\n    x = []\nelse:\n    y = []\n", "x: list[int]\ny: list[str]\n"),
    ("def f():\n    def g(a): return a\n    x = []\n    return g\n", "def f() -> int: ...\ndef g(a: int) -> int: ...\nx: list\n"),
    ("async def co(x): return 1\n", "from typing import Any, Coroutine\ndef co(x) -> Coroutine[Any, Any, int]: ...\n"),
    ("def f(a, b=1): return a\ndef f(a): return a\n", "def f(a: int, b: int = ...) -> int: ...\ndef f(a: str) -> str: ...\n"),
    ("class A:\n    class B:\n        def m(self, q): return q\n", "class A:\n    class B:\n        def m(self, q: int) -> int: ...\n"),
    ("a, *b = 1, 2, 3\n[c, d] = 1, 2\n", "a: list[int]\nb: list[int]\nc: list[str]\nd: dict[str, int]\n"),
    ("_ = x = []\n", "x: list[int]\n_: list[int]\n"),
]


# ----------------------------------------------------------------------------
# running the real code
# ----------------------------------------------------------------------------
def _init_worker():
  common.load_pytype()


def _infer(src):
  from pytype import config, io  # pylint: disable=g-import-not-at-top
  try:
    _, pyi = io.generate_pyi(src, config.Options.create(python_version=(3, 12)))
    return pyi
  except Exception as e:  # pylint: disable=broad-except
    return "ERR " + type(e).__name__ + ": " + str(e)[:200]


def infer_many(srcs):
  if not srcs:
    return []
  n = max(1, min(8, (os.cpu_count() or 2) // 2, len(srcs)))
  if n == 1:
    common.load_pytype()
    return [_infer(s) for s in srcs]
  with multiprocessing.Pool(n, initializer=_init_worker) as pool:
    return pool.map(_infer, srcs, chunksize=2)


def _merge_job(pair):
  return real_merge(pair[0], pair[1])


def merge_many(pairs):
  """real merge_sources on many pairs, in worker processes"""
  if len(pairs) < 24:
    common.load_pytype()
    return [real_merge(a, b) for a, b in pairs]
  n = max(1, min(8, (os.cpu_count() or 2) // 2))
  with multiprocessing.Pool(n, initializer=_init_worker) as pool:
    return pool.map(_merge_job, pairs, chunksize=8)


def real_merge(py, pyi):
  """-> (output text | None, error text | None)"""
  from pytype.tools.merge_pyi import merge_pyi  # pylint: disable=g-import-not-at-top
  try:
    return merge_pyi.merge_sources(py=py, pyi=pyi), None
  except merge_pyi.MergeError as e:
    return None, str(e)


def parses(src):
  try:
    ast.parse(src)
    return True
  except SyntaxError:
    return False


# ----------------------------------------------------------------------------
# model-independent characterisation of the known findings (used by S and W)
# ----------------------------------------------------------------------------
def _visited_scopes(tree):
  """yields (path, [statements]) for every statement list libcst's applier visits (not function bodies)"""
  def walk(body, path):
    yield path, body
    for s in body:
      if isinstance(s, ast.ClassDef):
        yield from walk(s.body, path + [s.name])
      else:
        bl = G.sub_blocks(s)
        if bl:
          for _, b in bl:
            yield from walk(b, path)
  yield from walk(tree.body, [])


def regions(py, pyi):
  """set of known-finding regions the pair (syntactically) belongs to — supersets of the model's guards"""
  out = set()
  if not parses(pyi):
    return {"unparsable-stub"}
  p, s = ast.parse(py), ast.parse(pyi)
  pclasses, sclasses = set(), {}
  for _, body in _visited_scopes(p):
    for st in body:
      if isinstance(st, ast.ClassDef):
        pclasses.add(st.name)
  for path, body in _visited_scopes(s):
    for st in body:
      if isinstance(st, ast.ClassDef):
        sclasses[st.name] = st
  if any(n not in pclasses for n in sclasses):
    out.add("class-injected")

  def generic(c):
    return any(isinstance(b, ast.Subscript) and isinstance(b.value, ast.Name) and b.value.id == "Generic"
               for b in c.bases)
  for st in p.body:
    if isinstance(st, ast.ClassDef) and st.name in sclasses and generic(sclasses[st.name]) and not generic(st):
      out.add("generic-base")
  for n in ast.walk(s):
    if isinstance(n, ast.Attribute) and not (isinstance(n.value, ast.Name) and n.value.id == "typing"):
      out.add("foreign-dotted")
    if isinstance(n, ast.Name) and n.id in sclasses:
      pass
  if G.stub_has_dotted_any(pyi):
    out.add("dotted-any")
  seen = {}
  for path, body in _visited_scopes(p):
    for st in body:
      if isinstance(st, ast.Assign):
        multi = len(st.targets) > 1 or isinstance(st.targets[0], (ast.Tuple, ast.List))
        if multi and path:
          out.add("class-scope-decl")
        if multi:
          for t in st.targets:
            for e in (t.elts if isinstance(t, (ast.Tuple, ast.List)) else [t]):
              e = e.value if isinstance(e, ast.Starred) else e
              fn = G.full_name(e)
              if fn and "." in fn:
                out.add("dotted-target")
        elif isinstance(st.targets[0], ast.Name):
          key = tuple(path + [st.targets[0].id])
          seen[key] = seen.get(key, 0) + 1
  if any(v > 1 for v in seen.values()):
    out.add("qualifier-leak")
  return out


TOLERATE = {  # oracle clause -> regions in which a violation is a recorded known finding
    "erase": {"class-injected", "generic-base", "foreign-dotted"},
    "from_stub": {"class-scope-decl", "qualifier-leak", "foreign-dotted"},
    "bare_any": {"dotted-any"},
    "merge_error": {"dotted-target", "unparsable-stub"},
}


def oracle_real(py, pyi):
  """the property's oracle on the real code; -> dict clause -> messages"""
  out, err = real_merge(py, pyi)
  if err is not None:
    return {"merge_error": [err[:200]]}
  return G.oracle(py, pyi, out)


def unexplained(py, pyi, viol, inferred=False):
  reg = regions(py, pyi)
  if inferred:
    reg = reg - {"dotted-any"}     # that region is about stubs pytype did not write
  return {c: m for c, m in viol.items() if not (TOLERATE.get(c, set()) & reg)}


# ----------------------------------------------------------------------------
# K
# ----------------------------------------------------------------------------
def compare(py, pyi, line, real=None, kind=None):
  """one pair: real vs model answer `line`.  -> (disagreement dict | None, info dict)"""
  info = {"regions": []}
  if kind == "inferred" and G.stub_has_dotted_any(pyi):
    # the `typing.Any` finding (c20-dotted-any) is about stubs written by someone else: the stub pytype itself infers
    # spells Any/Never with a from-import, never qualified — otherwise merge-pyi's Any/Never filter would not see them
    return {"py": py, "pyi": pyi, "what": "the stub pytype inferred spells Any/Never as a dotted name (the merge "
            "filter only recognises the bare names, so they would be inserted)"}, info
  out, err = real if real is not None else real_merge(py, pyi)
  if line.startswith("bad"):
    return {"py": py, "pyi": pyi, "what": "driver could not read the case: " + line}, info
  mod = G.parse_answer(line)
  if err is not None:
    info["regions"].append("merge_error")
    if "err" in mod:
      return None, info
    return {"py": py, "pyi": pyi, "what": "real merge_sources raised MergeError, model does not",
            "real": err[:300]}, info
  if "err" in mod:
    return {"py": py, "pyi": pyi, "what": "model predicts MergeError, real merge_sources succeeded",
            "real": out[:600]}, info
  try:
    real = G.real_view(py, out)
  except SyntaxError as e:
    return {"py": py, "pyi": pyi, "what": "output of merge_sources does not parse: %s" % e, "real": out[:600]}, info
  diff = [k for k in ("imports", "decls", "typevars", "classes", "body") if real[k] != mod[k]]
  fl = mod["flags"]
  info["changed"] = out != py
  info["insertions"] = max(0, len(real["body"].split()) - len(G.real_view(py, py)["body"].split()))
  if diff:
    return {"py": py, "pyi": pyi, "what": "real and model differ in: " + ",".join(diff),
            "real": {k: real[k] for k in diff}, "model": {k: mod[k] for k in diff}, "out": out[:1500]}, info
  # the theorems' guards as evaluated by the model decide where the oracle must hold
  viol = G.oracle(py, pyi, out)
  foreign = any(m != "typing" for m, _ in mod["imports"])
  tol = {"erase": bool(mod["classes"]) or fl["genericAdded"] or foreign,
         "from_stub": fl["leaked"] or fl["scopeTop"] or not fl["stubOK"],
         "bare_any": not fl["noDottedAny"]}
  for k, v in (("class-injected", bool(mod["classes"])), ("generic-base", fl["genericAdded"]),
               ("foreign-import", foreign), ("qualifier-leak", fl["leaked"]), ("class-scope-decl", fl["scopeTop"]),
               ("dotted-any", not fl["noDottedAny"])):
    if v:
      info["regions"].append(k)
  bad = {c: m for c, m in viol.items() if not tol.get(c, False)}
  info["violations_in_regions"] = sorted(set(viol) - set(bad))
  if bad:
    return {"py": py, "pyi": pyi, "what": "property violated on the real output inside the theorems' guards",
            "violations": bad, "out": out[:1500]}, info
  return None, info


def gen_pairs(rng, n_prog, n_indep):
  """-> (pairs [(kind, py, pyi)], stats)"""
  progs = [G.gen_program(rng) for _ in range(n_prog)]
  srcs = [p[0] for p in progs]
  inferred = infer_many(srcs)
  pairs = []
  stats = {"programs": n_prog, "pytype_crash": 0, "inferred_unparsable": 0}
  for (src, prog), pyi in zip(progs, inferred):
    if pyi.startswith("ERR "):
      stats["pytype_crash"] += 1
      continue
    pairs.append(("inferred", src, pyi))
  i = 0
  while sum(1 for p in pairs if p[0] == "generated") < n_indep:
    src, prog = progs[i % n_prog]
    pairs.append(("generated", src, G.gen_stub(rng, prog)))
    i += 1
  return pairs, stats


ENTRY_VARIANTS = [
    # (label, driver query without the trailing changed flag)
    ("merge_files PRINT", "entry files p -"),
    ("merge_files DIFF", "entry files d -"),
    ("merge_files OVERWRITE", "entry files o -"),
    ("merge_files OVERWRITE backup=orig", "entry files o orig"),
    ("merge_files OVERWRITE backup=''", "entry files o EMPTY"),
    ("merge_files PRINT backup=orig", "entry files p orig"),
    ("merge_files_src OVERWRITE backup=orig", "entry src o orig"),
    ("merge_files_src DIFF backup=orig", "entry src d orig"),
    ("merge-pyi file.py file.pyi", "entry main 0 0 -"),
    ("merge-pyi --diff", "entry main 1 0 -"),
    ("merge-pyi -i", "entry main 0 1 -"),
    ("merge-pyi -i -b orig", "entry main 0 1 orig"),
    ("merge-pyi -b orig", "entry main 0 0 orig"),
    ("merge-pyi --diff -b orig", "entry main 1 0 orig"),
    ("merge_tree", "entry files o -"),
    ("merge_tree backup=orig", "entry files o orig"),
]


def entry_expectations(drv):
  """{(label, changed)}: the Lean model's (Merge/Entry.lean) answer for every entry-point variant"""
  qs = [(lab, ch, "%s %d" % (q, ch)) for lab, q in ENTRY_VARIANTS for ch in (0, 1)]
  ans = drv.batch([q for _, _, q in qs])
  return {(lab, ch): a for (lab, ch, _), a in zip(qs, ans)}


def _entry_job(job):
  """One (program, stub, expected merge_sources output) through every file-based entry point of merge-pyi, in a
  scratch directory, against the Lean model's answer on the symbolic disk {PY: orig, PYI: stub}.  -> mismatch strings."""
  import contextlib  # pylint: disable=g-import-not-at-top
  import io as _io  # pylint: disable=g-import-not-at-top
  import shutil  # pylint: disable=g-import-not-at-top
  from pytype.tools.merge_pyi import main as mp_main  # pylint: disable=g-import-not-at-top
  from pytype.tools.merge_pyi import merge_pyi  # pylint: disable=g-import-not-at-top
  idx, py, pyi, want, model = job
  base = os.path.join(common.BUILD, "c20", "entry-%d-%d" % (os.getpid(), idx))
  shutil.rmtree(base, ignore_errors=True)
  os.makedirs(os.path.join(base, "stubs"))
  pp, sp = os.path.join(base, "mod.py"), os.path.join(base, "stubs", "mod.pyi")
  bad = []
  changed_want = int(want != py)
  text = {"orig": py, "merged": want, "stub": pyi}
  M = merge_pyi.Mode
  stubs = os.path.join(base, "stubs")
  calls = {
      "merge_files PRINT": lambda: merge_pyi.merge_files(py_path=pp, pyi_path=sp, mode=M.PRINT),
      "merge_files DIFF": lambda: merge_pyi.merge_files(py_path=pp, pyi_path=sp, mode=M.DIFF),
      "merge_files OVERWRITE": lambda: merge_pyi.merge_files(py_path=pp, pyi_path=sp, mode=M.OVERWRITE),
      "merge_files OVERWRITE backup=orig": lambda: merge_pyi.merge_files(py_path=pp, pyi_path=sp, mode=M.OVERWRITE, backup="orig"),
      "merge_files OVERWRITE backup=''": lambda: merge_pyi.merge_files(py_path=pp, pyi_path=sp, mode=M.OVERWRITE, backup=""),
      "merge_files PRINT backup=orig": lambda: merge_pyi.merge_files(py_path=pp, pyi_path=sp, mode=M.PRINT, backup="orig"),
      "merge_files_src OVERWRITE backup=orig": lambda: merge_pyi.merge_files_src(pp, pyi, M.OVERWRITE, "orig"),
      "merge_files_src DIFF backup=orig": lambda: merge_pyi.merge_files_src(pp, pyi, M.DIFF, "orig"),
      "merge-pyi file.py file.pyi": lambda: mp_main.main(["merge-pyi", pp, sp]),
      "merge-pyi --diff": lambda: mp_main.main(["merge-pyi", "--diff", pp, sp]),
      "merge-pyi -i": lambda: mp_main.main(["merge-pyi", "-i", pp, sp]),
      "merge-pyi -i -b orig": lambda: mp_main.main(["merge-pyi", "-i", "-b", "orig", pp, sp]),
      "merge-pyi -b orig": lambda: mp_main.main(["merge-pyi", "-b", "orig", pp, sp]),
      "merge-pyi --diff -b orig": lambda: mp_main.main(["merge-pyi", "--diff", "-b", "orig", pp, sp]),
      "merge_tree": lambda: merge_pyi.merge_tree(py_path=base, pyi_path=stubs),
      "merge_tree backup=orig": lambda: merge_pyi.merge_tree(py_path=base, pyi_path=stubs, backup="orig"),
  }
  for label, _ in ENTRY_VARIANTS:
    for f in os.listdir(base):
      if f != "stubs":
        os.unlink(os.path.join(base, f))
    with open(pp, "w") as f:
      f.write(py)
    with open(sp, "w") as f:
      f.write(pyi)
    buf, errbuf = _io.StringIO(), _io.StringIO()
    ret, raised = None, None
    try:
      with contextlib.redirect_stdout(buf), contextlib.redirect_stderr(errbuf):
        ret = calls[label]()
    except SystemExit as e:
      raised = "usage" if e.code == 2 else "SystemExit(%r)" % (e.code,)
    except BaseException as e:  # pylint: disable=broad-except
      raised = "%s: %s" % (type(e).__name__, str(e)[:200])
    files = {f: open(os.path.join(base, f)).read() for f in sorted(os.listdir(base)) if f != "stubs"}
    files["stubs/mod.pyi"] = open(sp).read()
    m = model[(label, changed_want)].split(" ")
    if m[0] == "err":
      if raised != m[1]:
        bad.append("%s: model says the call is refused (%s), real: %s" % (label, m[1], raised or "returned"))
      elif files != {"mod.py": py, "stubs/mod.pyi": pyi}:
        bad.append("%s: refused, but files changed: %r" % (label, sorted(files)))
      continue
    if raised is not None:
      bad.append("%s raised %s" % (label, raised))
      continue
    want_files = {}
    for ent in m[3].split(";"):
      k, v = ent.split("=")
      want_files[{"PY": "mod.py", "PYI": "stubs/mod.pyi"}.get(k, k.replace("PY.", "mod.py."))] = text[v]
    for k in sorted(set(files) | set(want_files)):
      if files.get(k) != want_files.get(k):
        bad.append("%s: file %s is %r, the model (with merge_sources' own output) gives %r" % (
            label, k, (files.get(k) if k in files else "<absent>")[:400],
            (want_files.get(k) if k in want_files else "<absent>")[:400]))
    out = buf.getvalue()
    if label.startswith("merge-pyi -i"):   # the command line reports what it did after an in-place merge
      out = ""
    if m[2].startswith("text:"):
      if out != text[m[2][5:]] + "\n":
        bad.append("%s printed %r, the model gives %r" % (label, out[:400], text[m[2][5:]][:400]))
    elif m[2] == "-" and out.strip() and not label.startswith("merge_tree"):
      bad.append("%s printed %r, the model prints nothing" % (label, out[:200]))
    elif m[2] == "diff" and not out.strip():
      bad.append("%s printed nothing, the model prints a diff" % label)
    if label.startswith("merge_files") and bool(ret) != (m[1] == "1"):
      bad.append("%s: returned changed=%r, model %s" % (label, ret, m[1]))
    if label.startswith("merge_tree") and (ret[1] or (ret[0] == [pp]) != (m[1] == "1")):
      bad.append("%s returned %r, model changed=%s" % (label, ret, m[1]))
  shutil.rmtree(base, ignore_errors=True)
  return bad


def stub_layouts(pyi):
  """other layouts of the same stub (same AST): from-imports wrapped in parentheses over several lines (black / isort
  style), one name per line, with a trailing comment, split into one import statement per name"""
  import re  # pylint: disable=g-import-not-at-top
  lines = pyi.split("\n")
  idx = [i for i, l in enumerate(lines) if re.match(r"^from [\w.]+ import [\w, ]+$", l)]
  if not idx:
    return []
  def rewrite(fn):
    out = list(lines)
    for i in idx:
      mod, names = re.match(r"^from ([\w.]+) import (.+)$", lines[i]).groups()
      out[i] = fn(mod, [n.strip() for n in names.split(",")])
    return "\n".join(out)
  return [
      rewrite(lambda m, ns: "from %s import (\n    %s,\n)" % (m, ",\n    ".join(ns))),
      rewrite(lambda m, ns: "from %s import (%s,\n    )  # wrapped" % (m, ",\n    ".join(ns)) if len(ns) > 1 else
              "from %s import (\n    %s\n)" % (m, ns[0])),
      rewrite(lambda m, ns: "\n".join("from %s import %s" % (m, n) for n in ns)),
      rewrite(lambda m, ns: "from %s import \\\n    %s" % (m, ", ".join(ns))),
  ]


def correspond_layout(res, modelled, reals, tier):
  """K3: merge_sources depends on the stub's syntax tree, not on how its text is laid out: every pair whose stub has a
  from-import is merged again with the import re-laid-out in four ways (same AST, checked) and must give the same
  output — in particular the Any/Never filter must see a typing import however it is wrapped."""
  jobs, owners = [], []
  limit = 120 if tier == "quick" else 1500
  for k, ((kind, py, pyi), (out, err)) in enumerate(zip(modelled, reals)):
    if len(owners) >= limit and kind not in ("hand", "witness"):
      continue
    for v in stub_layouts(pyi):
      try:
        same = ast.dump(ast.parse(v)) == ast.dump(ast.parse(pyi))
      except SyntaxError:
        same = False
      if same and v != pyi:
        jobs.append((py, v))
        owners.append(k)
  outs = merge_many(jobs)
  dis = []
  with_any = 0
  for (py, v), k, got in zip(jobs, owners, outs):
    with_any += ("Any" in v or "Never" in v)
    want = reals[k]
    if (got[0], got[1] is None) != (want[0], want[1] is None):
      dis.append({"py": py, "pyi": v, "kind": "layout", "what": "the same stub in another text layout is merged differently",
                  "original_layout": modelled[k][2], "out_original": (want[0] or want[1] or "")[:800],
                  "out_relayout": (got[0] or got[1] or "")[:800]})
  res.cov["stub_layouts"] = {"pairs": len(set(owners)), "relaid_out_stubs": len(jobs), "mentioning_Any_or_Never": with_any}
  return dis


def correspond_entry(res, modelled, reals, tier, drv):
  """K2: the file-based entry points (merge_files in its three modes with and without a backup extension,
  merge_files_src, merge_tree, the merge-pyi command line) against the Lean model Merge/Entry.lean instantiated with
  merge_sources' own output for the pair — the output the applier model and the oracle have just been compared with:
  same files with the same contents afterwards (program, backup, stub, nothing else), same stdout kind, same
  `changed`, same refusals."""
  model = entry_expectations(drv)
  jobs = []
  changed = with_existing = 0
  limit = 60 if tier == "quick" else 400
  for (kind, py, pyi), (out, err) in zip(modelled, reals):
    if err is not None or out is None:
      continue
    existing = ": " in py or "->" in py
    if kind in ("hand", "witness") or len(jobs) < limit or (existing and with_existing < limit):
      jobs.append((len(jobs), py, pyi, out, model))
      changed += out != py
      with_existing += bool(existing)
  n = max(1, min(8, (os.cpu_count() or 2) // 2))
  with multiprocessing.Pool(n, initializer=_init_worker) as pool:
    outs = pool.map(_entry_job, jobs, chunksize=4)
  dis = []
  for (_, py, pyi, want, _), bad in zip(jobs, outs):
    if bad:
      dis.append({"py": py, "pyi": pyi, "what": "file-based entry point differs from the entry-point model: " + bad[0],
                  "all": bad[:6], "kind": "entry"})
  res.cov["entry_points"] = {"pairs": len(jobs), "pairs_changed_by_the_merge": changed,
                             "pairs_unchanged_by_the_merge": len(jobs) - changed,
                             "pairs_with_existing_annotations": with_existing,
                             "variants": [v[0] for v in ENTRY_VARIANTS],
                             "entry_point_runs": len(ENTRY_VARIANTS) * len(jobs)}
  return dis


def correspond(res, rng, tier):
  common.load_pytype()
  drv = common.ensure_driver("drv_c20")
  t0 = time.time()
  n_prog, n_indep = (50, 250) if tier == "quick" else (300, 1700)
  pairs = [("hand", a, b) for a, b in HAND_CASES]
  for e in common.known_findings("C20")[0] + common.known_findings("C20")[1]:
    w = e["witness"]
    if "pyi" in w:
      pairs.append(("witness", w["py"], w["pyi"]))
  gp, stats = gen_pairs(rng, n_prog, n_indep)
  pairs += gp
  disagreements = []
  modelled = []
  for kind, py, pyi in pairs:
    if not parses(pyi):
      # pytype printed a stub that is not Python (known finding): outside the model's syntax;
      # the real code must refuse it with MergeError, nothing else
      stats["inferred_unparsable"] += 1
      out, err = real_merge(py, pyi)
      if err is None:
        disagreements.append({"py": py, "pyi": pyi, "what": "stub is not valid Python but merge_sources succeeded"})
      continue
    modelled.append((kind, py, pyi))
  lines = drv.batch([G.enc_case(py, pyi) for _, py, pyi in modelled])
  reals = merge_many([(py, pyi) for _, py, pyi in modelled])
  seen = set()
  nontrivial = set()
  hist = {}
  ins_total = 0
  for (kind, py, pyi), line, real in zip(modelled, lines, reals):
    d, info = compare(py, pyi, line, real, kind)
    key = (py, pyi)
    hist[kind] = hist.get(kind, 0) + 1
    for r in info["regions"]:
      hist["region:" + r] = hist.get("region:" + r, 0) + 1
    if not info["regions"]:
      hist["inside_all_guards"] = hist.get("inside_all_guards", 0) + 1
    ins_total += info.get("insertions", 0)
    if info.get("changed") and key not in seen:
      nontrivial.add(key)
    seen.add(key)
    if d:
      d["kind"] = kind
      disagreements.append(d)
  res.cov["evaluations"] = len(pairs)
  res.cov["distinct_nontrivial"] = len(nontrivial)
  res.cov["exhaustive"] = False
  res.cov["rule"] = (
      "pairs (program, stub): %d hand-written + recorded witnesses, %d generated programs each with the stub "
      "pytype infers (io.generate_pyi) and %d independently generated stubs for the same definitions; the real "
      "merge_sources output is parsed with ast and compared with the Lean driver's prediction (per-slot "
      "annotations of every function/variable in visiting order, added imports, declarations, TypeVars, classes, "
      "bases, MergeError) and the property's oracle is evaluated on it wherever the theorems' guards hold; "
      "non-trivial = the merge changed the program; distinct = distinct (program, stub) texts" % (
          len(HAND_CASES), n_prog, n_indep))
  disagreements += correspond_entry(res, modelled, reals, tier, drv)
  disagreements += correspond_layout(res, modelled, reals, tier)
  stats.update(hist)
  stats["annotation_tokens_inserted"] = ins_total
  stats["K_wall_s"] = round(time.time() - t0, 1)
  res.cov["distribution"] = stats
  ex = [p for p in modelled if p[0] == "inferred"][:1] + [p for p in modelled if p[0] == "generated"][:1]
  res.add_samples([{"kind": k, "py": py, "pyi": pyi} for k, py, pyi in ex])
  return disagreements


# ----------------------------------------------------------------------------
# W
# ----------------------------------------------------------------------------
def witnesses(res):
  common.load_pytype()
  known, fixed = common.known_findings("C20")
  replayed = []
  for e in fixed:
    w = e["witness"]
    viol = oracle_real(w["py"], w["pyi"])
    replayed.append({"id": e["id"], "fixed": True, "violations": viol})
    if viol:
      res.violation("fixed-" + e["id"], {"property": "C20", "kind": "fixed-witness-fails-again", "id": e["id"],
                                         "input": w, "violations": viol})
  for e in known:
    w = dict(e["witness"])
    if "pyi" not in w:
      w["pyi"] = _infer(w["py"])
    viol = oracle_real(w["py"], w["pyi"])
    replayed.append({"id": e["id"], "fixed": False, "violations": viol})
    if e.get("clause") in viol:
      res.known_lines.append("%s: %s" % (e["id"], e["what"]))
  res.cov["witnesses_replayed"] = replayed


# ----------------------------------------------------------------------------
# S
# ----------------------------------------------------------------------------
def _chunks(src):
  """top-level statements as source chunks (with their decorators / comments in between)"""
  tree = ast.parse(src)
  lines = src.split("\n")
  starts = []
  for s in tree.body:
    ln = min([s.lineno] + [d.lineno for d in getattr(s, "decorator_list", [])])
    starts.append(ln - 1)
  out = []
  for i, a in enumerate(starts):
    b = starts[i + 1] if i + 1 < len(starts) else len(lines)
    out.append("\n".join(lines[a:b]).rstrip("\n"))
  return out


def shrink(py, pyi, clause):
  def fails(pc, sc):
    p, s = "\n".join(pc) + "\n", "\n".join(sc) + "\n"
    if not parses(p) or not parses(s):
      return False
    v = oracle_real(p, s)
    return clause in unexplained(p, s, v)
  try:
    pc, sc = _chunks(py), _chunks(pyi)
  except SyntaxError:
    return py, pyi
  sc = common.ddmin(sc, lambda c: fails(pc, c), budget_s=10.0)
  pc = common.ddmin(pc, lambda c: fails(c, sc), budget_s=10.0)
  # second pass: single lines
  pl, sl = "\n".join(pc).split("\n"), "\n".join(sc).split("\n")
  sl = common.ddmin(sl, lambda c: fails(pl, c), budget_s=8.0)
  pl = common.ddmin(pl, lambda c: fails(c, sl), budget_s=8.0)
  return "\n".join(pl) + "\n", "\n".join(sl) + "\n"


def search(res, rng, disagreements, pfail):
  common.load_pytype()
  found = []
  cands = [(d["py"], d["pyi"]) for d in disagreements if "py" in d and "pyi" in d]
  cands += list(HAND_CASES)
  known, fixed = common.known_findings("C20")
  cands += [(e["witness"]["py"], e["witness"]["pyi"]) for e in fixed]
  t0 = time.time()
  n = 0
  while len(cands) < 400:
    src, prog = G.gen_program(rng)
    cands.append((src, G.gen_stub(rng, prog)))
    n += 1
    if n % 8 == 0:
      pyi = _infer(src)
      if not pyi.startswith("ERR "):
        cands.append((src, pyi))
  seen_clauses = set()
  # programs whose inferred stub took part in a disagreement: the property on (program, stub pytype infers now)
  for d in disagreements:
    if d.get("kind") != "inferred" or "py" not in d or len(found) >= 2:
      continue
    py = d["py"]
    pyi = _infer(py)
    if pyi.startswith("ERR ") or not parses(pyi):
      continue
    viol = oracle_real(py, pyi)
    bad = unexplained(py, pyi, viol, inferred=True)
    for clause in bad:
      if clause in seen_clauses:
        continue
      seen_clauses.add(clause)

      def still(lines, clause=clause):
        p2 = "\n".join(lines) + "\n"
        if not parses(p2):
          return False
        s2 = _infer(p2)
        if s2.startswith("ERR ") or not parses(s2):
          return False
        return clause in unexplained(p2, s2, oracle_real(p2, s2), inferred=True)
      small = common.ddmin(py.rstrip("\n").split("\n"), still, budget_s=40)
      spy = "\n".join(small) + "\n"
      spyi = _infer(spy)
      out, err = real_merge(spy, spyi)
      found.append({"clause": clause, "py": spy, "pyi_inferred_by_pytype": spyi, "merged": out, "merge_error": err,
                    "violations": unexplained(spy, spyi, oracle_real(spy, spyi), inferred=True).get(clause)})
  for py, pyi in cands:
    if time.time() - t0 > 150 or len(found) >= 3:
      break
    if not parses(pyi):
      continue
    try:
      viol = oracle_real(py, pyi)
    except Exception as e:  # pylint: disable=broad-except
      found.append({"py": py, "pyi": pyi, "exception": repr(e)[:300]})
      continue
    bad = unexplained(py, pyi, viol)
    for clause in bad:
      if clause in seen_clauses:
        continue
      seen_clauses.add(clause)
      spy, spyi = shrink(py, pyi, clause)
      out, err = real_merge(spy, spyi)
      found.append({"clause": clause, "py": spy, "pyi": spyi, "merged": out, "merge_error": err,
                    "violations": unexplained(spy, spyi, oracle_real(spy, spyi)).get(clause)})
  return found


def main():
  return common.run_check(
      "C20", REQUIRED, correspond, witnesses, search,
      trusted=["libcst (ApplyTypeAnnotationsVisitor, AddImportsVisitor, QualifiedNameProvider; 1.4.0) is third "
               "party: modelled by hand in lean/PytypeModel/Merge/MergePyi.lean and tied by correspondence, not verified",
               "CPython `ast` (parser, unparse, dump) is the trusted reader of programs, stubs and merge output",
               "the encoding of Python syntax into the model's statements (harness/c20_gen.py enc_*) and the "
               "alignment that separates what the merge added from the original statements"],
      assumptions=["fragment: programs import only `typing` (import typing / from typing import ...) in a leading "
                   "import block; stub names are bound once; stub AnnAssign targets are names; whitespace of "
                   "annotations is canonical (ast.unparse form), which is what libcst's deep_equals compares",
                   "theorems are about the model; inserted_from_stub / merge_erases / no_bare_any hold under the "
                   "stated decidable guards only (known findings outside)"])


if __name__ == "__main__":
  sys.exit(main())
