"""Program generators for the C03 check (harness/c03.py).

gen_layout_program: syntactically rich programs (multi-line calls/subscripts/comparisons, decorated and
nested functions, implicit returns, multi-line strings, backslash continuations, compound-statement
headers, match, with/try) used for the filter-level correspondence K1.  They only have to *parse*.

gen_error_program: programs built from snippets that make the real VM report errors (builtins + typing
only), used for the end-to-end pass K2 and for the search stage S.
"""
import ast

NAMES = ["a", "b", "c", "x", "y", "foo", "bar"]


class _G:

  def __init__(self, rng):
    self.rng = rng
    self.lines = []

  # ---------------- expressions (newlines only inside brackets) ----------------
  def atom(self):
    r = self.rng
    return r.choice([r.choice(NAMES), str(r.randrange(10)), '"s%d"' % r.randrange(3), "None"])

  def sep(self, ml):
    if ml and self.rng.random() < 0.6:
      return ",\n" + " " * self.rng.randrange(0, 9)
    return ", "

  def expr(self, depth, ml):
    r = self.rng
    if depth <= 0 or r.random() < 0.25:
      return self.atom()
    k = r.randrange(8)
    if k <= 2:  # call
      n = r.randrange(0, 4)
      args = [self.expr(depth - 1, ml) for _ in range(n)]
      s = r.choice(["f", "g", "h", "a.m", "print"]) + "("
      if ml and args and r.random() < 0.3:
        s += "\n" + " " * r.randrange(1, 9)
      for i, a in enumerate(args):
        s += a + (self.sep(ml) if i + 1 < len(args) else "")
      if ml and r.random() < 0.2:
        s += "\n" + " " * r.randrange(0, 5)
      return s + ")"
    if k == 3:  # subscript
      inner = self.expr(depth - 1, ml)
      nl = "\n  " if ml and r.random() < 0.4 else ""
      return "%s[%s%s]" % (r.choice(NAMES), nl, inner)
    if k == 4:  # comparison in parens
      nl = "\n    " if ml and r.random() < 0.5 else " "
      return "(%s <%s%s)" % (self.expr(depth - 1, ml), nl, self.expr(depth - 1, ml))
    if k == 5:  # list / dict
      items = [self.expr(depth - 1, ml) for _ in range(r.randrange(1, 4))]
      s = "["
      for i, a in enumerate(items):
        s += a + (self.sep(ml) if i + 1 < len(items) else "")
      return s + "]"
    if k == 6:
      return "%s + %s" % (self.expr(depth - 1, ml), self.expr(depth - 1, False) if not ml else self.atom())
    nl = "\n   " if ml and r.random() < 0.5 else ""
    return "(%s%s)" % (nl, self.expr(depth - 1, ml))

  def anyexpr(self):
    return self.expr(self.rng.randrange(0, 4), self.rng.random() < 0.6)

  # ---------------- statements ----------------
  def emit(self, ind, text):
    first = True
    for ln in text.split("\n"):
      self.lines.append((" " * ind + ln) if first else (" " * ind + ln))
      first = False

  def directive(self):
    r = self.rng
    return r.choice([
        "# pytype: disable=attribute-error", "# pytype: enable=attribute-error",
        "# pytype: disable=wrong-arg-types", "# pytype: enable=wrong-arg-types",
        "# pytype: disable=name-error", "# pytype: enable=name-error", "# type: ignore",
        "# pytype: disable=*", "# pytype: enable=*", "# pytype: disable=bad-return-type",
        "# type: int", "# pytype: disable=attribute-error,name-error", "# pytype: bogus",
        "# hello # pytype: disable=name-error", "# pytype: disable=wrong-arg-types # type: ignore",
    ])

  def maybe_trailing(self):
    if self.rng.random() < 0.08:
      i = self.rng.randrange(len(self.lines)) if self.lines else None
      if i is not None and not self.lines[i].rstrip().endswith("\\") and "#" not in self.lines[i] \
         and '"""' not in self.lines[i]:
        self.lines[i] += "  " + self.directive()

  def simple(self, ind, in_func):
    r = self.rng
    k = r.randrange(13)
    if k <= 2:
      self.emit(ind, "%s = %s" % (r.choice(NAMES), self.anyexpr()))
    elif k == 3:
      self.emit(ind, self.expr(2, True) if r.random() < 0.7 else "f()")
    elif k == 4:
      self.emit(ind, '%s = """line one\n# pytype: disable=attribute-error\n  tail"""' % r.choice(NAMES))
    elif k == 5:
      self.emit(ind, "%s = 1 + \\\n    %s" % (r.choice(NAMES), self.atom()))
    elif k == 6:
      self.emit(ind, "%s: int = %s" % (r.choice(NAMES), self.anyexpr()))
    elif k == 7 and in_func:
      self.emit(ind, r.choice(["return %s" % self.anyexpr(), "return", "return (\n  %s)" % self.atom()]))
    elif k == 8:
      self.emit(ind, "pass")
    elif k == 9:
      self.emit(ind, r.choice(["# just a comment", self.directive()]))
    elif k == 10:
      self.emit(ind, "%s = lambda q: %s" % (r.choice(NAMES), self.expr(1, False)))
    elif k == 11:
      self.emit(ind, "assert %s, %s" % (self.expr(1, False), self.atom()))
    else:
      self.emit(ind, "del %s" % r.choice(NAMES))

  def block(self, ind, depth, in_func, n=None):
    r = self.rng
    n = n if n is not None else r.randrange(1, 4)
    for _ in range(n):
      self.stmt(ind, depth, in_func)
      self.maybe_trailing()

  def stmt(self, ind, depth, in_func):
    r = self.rng
    if depth <= 0 or r.random() < 0.55:
      return self.simple(ind, in_func)
    k = r.randrange(9)
    if k <= 2:
      self.funcdef(ind, depth, in_func)
    elif k == 3:
      hdr = r.choice(["if %s:", "while %s:", "if (%s and\n    a):"]) % self.expr(1, True)
      self.emit(ind, hdr)
      self.block(ind + 2, depth - 1, in_func)
      if r.random() < 0.4:
        self.emit(ind, "else:")
        self.block(ind + 2, depth - 1, in_func)
    elif k == 4:
      self.emit(ind, "for %s in %s:" % (r.choice(NAMES), self.expr(1, True)))
      self.block(ind + 2, depth - 1, in_func)
    elif k == 5:
      self.emit(ind, r.choice(["with %s as w:", "with f(), %s:", "with (%s):"]) % self.expr(1, True))
      self.block(ind + 2, depth - 1, in_func)
    elif k == 6:
      self.emit(ind, "try:")
      self.block(ind + 2, depth - 1, in_func)
      self.emit(ind, r.choice(["except ValueError:", "except (ValueError,\n        KeyError) as e:", "except:"]))
      self.block(ind + 2, depth - 1, in_func)
      if r.random() < 0.3:
        self.emit(ind, "finally:")
        self.block(ind + 2, depth - 1, in_func)
    elif k == 7:
      if r.random() < 0.5:
        self.emit(ind, "@%s" % r.choice(["dec", "dec(1)", "dec(\n  2)"]))
      self.emit(ind, "class K%d%s:" % (r.randrange(9), r.choice(["", "(object)", "(A,\n    B)"])))
      self.block(ind + 2, depth - 1, False)
    else:
      self.emit(ind, "match %s:" % self.atom())
      self.emit(ind + 2, "case 1:")
      self.block(ind + 4, depth - 1, in_func, 1)
      self.emit(ind + 2, "case _:")
      self.block(ind + 4, depth - 1, in_func, 1)

  def funcdef(self, ind, depth, in_func):
    r = self.rng
    for _ in range(r.choice([0, 0, 1, 2])):
      self.emit(ind, "@%s" % r.choice(["dec", "dec(1)", "dec(1,\n    2)", "a.b", "dec(f(\n 1))"]))
      if r.random() < 0.1:
        self.emit(ind, self.directive())
    params = r.choice(["", "x", "x: int", "x: int, y: str = 's'", "x: int,\n      y: int", "self,\n x,\n *args"])
    ret = r.choice(["", " -> int", " -> str", " -> (\n  int)"])
    self.emit(ind, "%sdef fn%d(%s)%s:" % (r.choice(["", "", "async "]), r.randrange(20), params, ret))
    if r.random() < 0.1:
      self.emit(ind + 2, "# type: (int) -> int")
    if r.random() < 0.15:
      self.emit(ind + 2, '"""doc\n  string."""')
    self.block(ind + 2, depth - 1, True)


def gen_layout_program(rng, max_lines=28):
  """Returns source text (ends with newline) that parses under ast.parse."""
  for _ in range(50):
    g = _G(rng)
    g.block(0, rng.randrange(1, 4), False, rng.randrange(1, 5))
    lines = g.lines[:]
    if not lines or len(lines) > max_lines:
      continue
    src = "\n".join(lines) + "\n"
    try:
      ast.parse(src)
    except (SyntaxError, ValueError, RecursionError):
      continue
    return src
  return "x = f(1,\n      2)\n"


# ------------------------------------------------------------------------------------------------
# programs that make the VM report errors
# ------------------------------------------------------------------------------------------------
PRELUDE = """from typing import Any
def f(x: int, y: int = 0) -> int:
  return x
def g(x: int) -> int:
  return x
def dec(*a):
  def w(fn):
    return fn
  return w
"""

# (snippet lines, needs_function_body) ; {i} is replaced by a unique suffix
SNIPPETS = [
    ('v{i} = f("s")', False),
    ('v{i} = f("s",\n       g("t"))', False),
    ('v{i} = f(g("t"),\n       "s",\n       )', False),
    ('v{i} = f(1,\n       g(\n         "t"))', False),
    ('v{i} = (1).foo', False),
    ('v{i} = "s".bar(\n    1)', False),
    ('v{i} = undefined_name{i}', False),
    ('v{i} = [undefined_a{i},\n       undefined_b{i}]', False),
    ('v{i} = 1 + "s"', False),
    ('v{i} = (1 +\n       "s")', False),
    ('v{i}: int = "s"', False),
    ('v{i}: int = (\n    "s")', False),
    ('v{i} = f(1, 2, 3)', False),
    ('v{i} = f()', False),
    ('v{i} = f(1, z=2)', False),
    ('v{i} = f(\n    1,\n    z=2)', False),
    ('v{i} = (1)()', False),
    ('v{i} = (1)[0]', False),
    ('a{i}, b{i} = (1, 2, 3)', False),
    ('v{i} = """multi\nline # pytype: disable=name-error\nstring""" + 1', False),
    ('v{i} = f("s"); w{i} = g("t")', False),
    ('v{i} = f(x="s") if g("t") else 0', False),
    ('v{i} = {{"k": f("s"),\n       "l": (1).foo}}', False),
    ('def r{i}() -> int:\n  return "s"', False),
    ('def r{i}() -> int:\n  return (\n    "s")', False),
    ('def r{i}(x) -> int:\n  if x:\n    return 1\n  print(x)', False),
    ('def r{i}(x) -> int:\n  if x:\n    return 1\n  print(g("s"),\n        x)', False),
    ('def r{i}(x) -> int:\n  print(x,\n        x)', False),
    ('def r{i}(x) -> int:\n  def inner{i}() -> int:\n    print(f("s",\n            1))\n  return inner{i}()', False),
    ('def r{i}(x) -> str:\n  try:\n    return 1\n  finally:\n    print(f("s"))', False),
    ('@dec("s",\n     f("s"))\ndef d{i}(x: int) -> int:\n  return f("s")', False),
    ('@dec(1)\n@dec(g("t"))\ndef d{i}(x: int) -> str:\n  v = f("s",\n        2)\n  return x', False),
    ('class K{i}:\n  def m(self, x: int) -> int:\n    return self.nope', False),
    ('class K{i}:\n  z: int = "s"\n  def m(self) -> str:\n    print(self.m(\n      1))', False),
    ('for q{i} in 1:\n  pass', False),
    ('with f("s") as w{i}:\n  v{i} = g("t")', False),
    ('if f("s",\n     2):\n  v{i} = g("t")', False),
    ('def p{i}(x: int,\n       y: int = "s") -> int:\n  return x + y', False),
    ('v{i} = [f("s") for _ in [1,\n       2]]', False),
    ('v{i} = lambda: f("s",\n               g("t"))\nv{i}()', False),
    ('def y{i}() -> int:\n  x = 1\n  x = f("s",\n        g(x))', False),
    ('v{i} = 1', False),
    ('v{i} = f(1,\n       2)', False),
]


# deterministic family for the end-to-end pass: error paths with their own line handling (explicit line override:
# incomplete-match; errors raised while evaluating an annotation given as text, which are logged from a compiled
# snippet and re-emitted at the real line; an error on line 1 of the file; function type comments; decorators;
# implicit returns).  Every error of every program is edited with every directive kind.
FAMILY = [
    'v0 = undefined_name0\ndef sa(x: "Undef1"): pass\nv: "Lisst[int]" = []\ndef f():\n  w: "Undef2" = 1\n  return w\n'
    'def h(y) -> "Undef4":\n  return y\n',
    'v0 = (1).foo\nfrom typing import List\nw: "List[Undef1]" = []\nz: "List[int, int]" = []\n',
    'from typing import Literal\ndef im(x: Literal["a", "b"]):\n  match x:\n    case "a":\n      return (1).foo\n'
    '  return (2).bar\nv = (3).baz\n',
    'from typing import Literal\ndef im(x: Literal["a", "b", "c"], y: Literal[1, 2]):\n  match x:\n    case "a":\n      pass\n'
    '  match y:\n    case 1:\n      return undefined_q\n',
    'def g(a):\n  # type: (str) -> int\n  return a\nx = g(1)\ny = g("s",\n      2)\n',
    'x = 1\n# type: int\ndef h(a: int):\n  # type: (int) -> int\n  return a.nope\n',
    'def dec(*a):\n  def w(fn):\n    return fn\n  return w\n@dec((1).foo,\n     (2).bar)\nclass K:\n  z: int = "s"\n'
    '  def m(self) -> int:\n    print(self.nope,\n          self.nope2)\n',
    'def r(x) -> int:\n  if x:\n    return "s"\n  print(x.real,\n        (1).foo)\n',
    # error lines that already end in an ordinary comment: the appended directive is a nested comment
    'def f(x: int) -> int:\n  return x\nv0 = (1).foo  # TODO(b/1): fix this\nv1 = f("s")  # note: wrong on purpose\n'
    'v2 = undefined_v2  # see below # and here\ndef g() -> int:\n  return "s"  # returns a str\n'
    'v3 = f(1,\n       "t")  # multi-line call, comment on the last line\n',
]


def gen_error_program(rng, n_snippets=None):
  n = n_snippets if n_snippets is not None else rng.randrange(1, 5)
  body = []
  for j in range(n):
    snip, _ = SNIPPETS[rng.randrange(len(SNIPPETS))]
    text = snip.replace("{i}", str(j)).replace("{{", "{").replace("}}", "}")
    wrap = rng.random()
    if wrap < 0.25:
      ret = rng.choice(["", " -> None", " -> int"])
      text = "def wrap%d()%s:\n" % (j, ret) + "\n".join("  " + l if not _in_string_cont(text, k) else l
                                                         for k, l in enumerate(text.split("\n")))
    elif wrap < 0.35:
      text = "if g(1):\n" + "\n".join("  " + l if not _in_string_cont(text, k) else l
                                      for k, l in enumerate(text.split("\n")))
    body.append(text)
    if rng.random() < 0.15:
      body.append("")
  src = PRELUDE + "\n".join(body) + "\n"
  try:
    ast.parse(src)
  except SyntaxError:
    return gen_error_program(rng, n_snippets)
  return src


def _in_string_cont(text, k):
  """True when line k of text starts inside a triple-quoted string (must not be re-indented)."""
  before = "\n".join(text.split("\n")[:k])
  return before.count('"""') % 2 == 1
