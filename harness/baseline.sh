#!/bin/bash
# Runs the repository's pinned baseline (guard off) and compares with BASELINE.json's stable_pass list.
cd /repo && /venv/bin/python -m pytest -ra -q -p no:cacheprovider --timeout=900 --continue-on-collection-errors --junitxml=/tmp/verif_baseline.junit.xml > /tmp/verif_baseline.log 2>&1
/venv/bin/python - <<'PY'
import json, xml.etree.ElementTree as ET, sys
base = json.load(open('/root/.vp/BASELINE.json'))
want = set(base['stable_pass'])
got = set()
for tc in ET.parse('/tmp/verif_baseline.junit.xml').getroot().iter('testcase'):
    if not any(c.tag in ('failure', 'error', 'skipped') for c in tc):
        got.add(tc.get('classname') + '::' + tc.get('name'))
missing = sorted(want - got)
print('baseline: %d expected passes, %d observed passes, %d missing' % (len(want), len(got), len(missing)))
for m in missing[:20]: print('  MISSING', m)
sys.exit(1 if missing else 0)
PY
