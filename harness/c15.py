"""C15 — any compilable source is analysed to a result, never an internal failure (DESIGN.md §5 C15).

P  theorems about the *shell*: the outcome classifier of io.check_or_generate_pyi (except-chain, compile
   error line mapping, errors.py `line or 0`) and the opcode dispatch table regenerated from /repo.
K  (a) model/code correspondence of the shell: every exception kind injected at the generate_pyi/check_py
       boundary x attributes x nofail x check through the real check_or_generate_pyi vs the Lean driver;
       CompileError line mapping; dispatch table vs the real classes;
   (b) TESTING (labelled as such; this is where crashes are looked for): generated programs, token-level
       mutants, CPython stdlib sources through the real stages in killable worker processes; the observed
       stage result + final result are compared with the model's `outcome` and with the property's own
       oracle (CPython's compile(), file length).
W  replay of the known findings (crashes that already happen on the unchanged tree).
S  fresh-process confirmation + line-level ddmin of every failing source.

Side entry points:  python -m harness.c15 sweep [ngen nmut nstd]   (triage sweep, prints crash groups)
                    python -m harness.c15 one FILE [nofail check]  (one source in a fresh process, JSON out)
"""
import collections
import json
import multiprocessing as mp
import os
import random
import subprocess
import sys
import time
import traceback
import warnings

from harness import c15_gen
from harness import common

REQUIRED = ["outcome_total", "outcome_internal", "reraises_only", "compile_error_single", "compile_src_line",
            "internal_failure_never_analysed", "outcome_shapes_disjoint", "dispatch_table_ok",
            "intrinsic_table_ok", "dispatch_total", "intrinsic_total"]

WORK = os.path.join(common.BUILD, "c15")
TYPESHED = os.path.join(WORK, "typeshed")
PYVER = (3, 12)
NWORKERS = min(16, os.cpu_count() or 4)
CHAIN = ["usage", "compile", "constant", "indentation", "libcst", "syntax", "skip", "exception"]


# ------------------------------------------------------------------------------------------------ prepare
def prepare():
  """Translator + an initialised-but-empty typeshed (so that unresolvable imports are import-error log
  entries instead of UsageError 'Couldn't initialize typeshed')."""
  for d in ("stdlib", "stubs", "tests"):
    os.makedirs(os.path.join(TYPESHED, d), exist_ok=True)
  for f in ("stdlib/VERSIONS", "tests/pytype_exclude_list.txt"):
    p = os.path.join(TYPESHED, f)
    if not os.path.exists(p):
      open(p, "w").close()
  os.environ["TYPESHED_HOME"] = TYPESHED
  env = dict(os.environ, PYTYPE_REPO=common.REPO)
  r = subprocess.run([common.PY, os.path.join(common.VERIF, "translate", "opcode_dispatch.py")], env=env,
                     stdout=subprocess.PIPE, stderr=subprocess.STDOUT, text=True)
  if r.returncode != 0:
    raise RuntimeError("translator failed: " + r.stdout[-2000:])


# ------------------------------------------------------------------------------------- worker-side (real code)
class _State:
  stage = "read"
  inner_exc = None
  inner_ret = None
  patched = False


def _patch():
  """Observation without touching /repo: io.generate_pyi / io.check_py (looked up as module globals by
  check_or_generate_pyi) are wrapped to record what they raised or returned."""
  if _State.patched:
    return
  _State.patched = True
  from pytype import io as pio

  def entry_wrap(name):
    orig = getattr(pio, name)

    def wrapper(*a, **k):
      try:
        ret = orig(*a, **k)
      except BaseException as e:  # recorded, re-raised unchanged
        _State.inner_exc = e
        raise
      _State.inner_ret = ret
      return ret
    wrapper.__wrapped__ = orig
    setattr(pio, name, wrapper)
  entry_wrap("generate_pyi")
  entry_wrap("check_py")


_STAGE_FRAMES = [  # (file suffix, function) -> stage; the outermost matching frame of the traceback decides
    (("io.py", "read_source_file"), "read"),
    (("preprocess.py", "augment_annotations"), "preprocess"),
    (("directors/parser.py", "parse_src"), "directive"),
    (("pyc/pyc.py", "compile_src"), "compile"),
    (("blocks/blocks.py", "process_code"), "blocks"),
    (("directors/directors.py", "__init__"), "director"),
    (("blocks/process_blocks.py", "merge_annotations"), "director"),
    (("constant_folding.py", "fold_constants"), "fold"),
    (("blocks/process_blocks.py", "adjust_returns"), "fold"),
    (("vm.py", "run_bytecode"), "run"),
    (("tracer_vm.py", "analyze"), "analyze"),
    (("tracer_vm.py", "compute_types"), "infer"),
    (("load_pytd.py", "resolve_ast"), "infer"),
    (("convert_structural.py", "convert_pytd"), "infer"),
    (("convert_structural.py", "extract_local"), "infer"),
    (("io.py", "_output_ast"), "output"),
]


def stage_of(frames):
  """Stage in which the exception was raised, from the pytype frames of its traceback (outermost first)."""
  table = dict(_STAGE_FRAMES)
  names = [(f[0], f[1]) for f in frames]
  for fn in names:
    if fn in table:
      return table[fn]
  funcs = [f[1] for f in frames]
  if "generate_pyi_ast" in funcs and "infer_types" not in funcs:
    return "output"      # VerifyVisitor / optimize.Optimize / CanonicalOrdering
  if "run_program" in funcs:
    return "run"
  if "infer_types" in funcs or "check_types" in funcs:
    return "infer"
  return None


def _exc_bits(e):
  import libcst
  from pytype import constant_folding, utils
  from pytype.directors import directors
  from pytype.pyc import pyc
  classes = [utils.UsageError, pyc.CompileError, constant_folding.ConstantError, IndentationError,
             libcst.ParserSyntaxError, SyntaxError, directors.SkipFileError, Exception]
  return "".join("1" if isinstance(e, c) else "0" for c in classes)


def _attr(e, name):
  v = getattr(e, name, None)
  return v if isinstance(v, int) and not isinstance(v, bool) and v >= 0 else None


def _frames(e):
  """[(relative file, function, line)] of pytype frames, outermost first."""
  root = os.path.join(common.REPO, "pytype") + os.sep
  out = []
  for f in traceback.extract_tb(e.__traceback__):
    if f.filename.startswith(root):
      out.append((f.filename[len(root):], f.name, f.lineno))
  return out


def crash_identity(exc_type, frames):
  """(exception type, innermost pytype frame file:function); a RecursionError has no meaningful innermost
  frame, the stage in which it was raised is used instead."""
  if exc_type == "RecursionError" or not frames:
    return [exc_type, "stage:%s" % stage_of(frames)]
  specific = [f for f in frames if f[0] not in ("datatypes.py",)] or frames   # container helpers say nothing
  return [exc_type, "%s:%s" % (specific[-1][0], specific[-1][1])]


def describe_exc(e):
  frames = _frames(e)
  name = type(e).__name__
  msg = str(e)
  # a stub every real typeshed has is missing from the (empty) sandbox typeshed
  env = ((name == "AttributeError" and "NoneType" in msg and any(f[1] == "_maybe_load_overlay" for f in frames))
         or (name == "AssertionError" and msg.startswith("Module not found:") and frames
             and frames[-1][1] == "lookup_pytd"))
  return {"type": name, "bits": _exc_bits(e), "line": _attr(e, "line"), "lineno": _attr(e, "lineno"),
          "raw_line": _attr(e, "raw_line"), "msg": msg[:300], "frames": frames[-8:],
          "identity": crash_identity(name, frames), "stage": stage_of(frames), "overlay_env": env}


def analyse(src, nofail=False, check=False, tag="case"):
  """Runs the real check_or_generate_pyi on `src`; returns a JSON-able record."""
  common.load_pytype()
  os.environ["TYPESHED_HOME"] = TYPESHED
  _patch()
  from pytype import config
  from pytype import io as pio
  from pytype.imports import builtin_stubs
  from pytype.pyi import parser as pyi_parser
  from pytype.pytd import pytd_utils
  os.makedirs(WORK, exist_ok=True)
  path = os.path.join(WORK, "w%d_%s.py" % (os.getpid(), tag))
  with open(path, "w", encoding="utf8") as fh:
    fh.write(src)
  _State.stage = "run"
  _State.inner_exc = None
  _State.inner_ret = None
  rec = {"nofail": nofail, "check": check}
  t0 = time.time()
  try:
    warnings.simplefilter("ignore")
    opts = config.Options.create(path, python_version=PYVER, nofail=nofail, check=check)
    try:
      res = pio.check_or_generate_pyi(opts)
    except BaseException as e:  # pylint: disable=broad-except
      if isinstance(e, (KeyboardInterrupt, SystemExit)) and _State.inner_exc is not e:
        raise
      rec["final"] = "RERAISE"
      rec["outer_exc"] = type(e).__name__
      if _State.inner_exc is None:
        # raised outside check_py/generate_pyi (read stage, loader creation)
        _State.inner_exc = e
    else:
      errs = [(e.name, e.line) for e in res.context.errorlog]
      rec["errors"] = errs[:200]
      rec["nerrors"] = len(errs)
      rec["unique_errors"] = len(res.context.errorlog.unique_sorted_errors())
      if _State.inner_exc is None:
        inner = _State.inner_ret
        ictx = inner.context if check else inner[0].context
        same = res.context is ictx and (res.pyi is None if check else res.pyi == inner[1])
        rec["final"] = "ANALYSED" if same else "ANALYSED-but-not-the-inner-result"
      else:
        d = builtin_stubs.DEFAULT_SRC
        pyi = res.pyi or ""
        if pyi == d:
          info = "none"
        elif pyi == d + "# skip-file found, file not analyzed":
          info = "skip"
        elif pyi.startswith(d + "# Caught error in pytype: "):
          info = "caught"
        else:
          info = "unexpected-pyi"
        dast = builtin_stubs.GetDefaultAst(pyi_parser.PyiOptions.from_toplevel_options(opts))
        if pytd_utils.Print(res.ast) != pytd_utils.Print(dast):
          info += "+non-default-ast"
        rec["final"] = "DEFAULT info=%s errors=[%s]" % (info, ",".join("%s@%d" % x for x in errs))
    if _State.inner_exc is not None:
      rec["exc"] = describe_exc(_State.inner_exc)
      rec["stage"] = rec["exc"]["stage"] or _State.stage
    else:
      rec["stage"] = "ok"
  finally:
    _State.inner_exc = None
    _State.inner_ret = None
    try:
      os.unlink(path)
    except OSError:
      pass
  rec["wall"] = round(time.time() - t0, 2)
  return rec


def _worker_main(conn):
  import signal
  signal.signal(signal.SIGINT, signal.SIG_IGN)
  devnull = open(os.devnull, "w")
  sys.stdout = devnull
  sys.stderr = devnull
  import logging
  logging.disable(logging.CRITICAL)
  while True:
    try:
      job = conn.recv()
    except EOFError:
      return
    if job is None:
      return
    idx, src, nofail, check = job
    try:
      rec = analyse(src, nofail, check, tag="j")
    except BaseException as e:  # harness problem, not pytype's
      rec = {"harness_error": "%s: %s" % (type(e).__name__, e), "tb": traceback.format_exc()[-1500:]}
    conn.send((idx, rec))


class Pool:
  """Process pool with a per-case timeout enforced by killing the worker."""

  def __init__(self, n=NWORKERS):
    # build the ext, import pytype and warm its caches once, before forking (workers inherit it copy-on-write)
    analyse("x = 1\n", tag="warm")
    self.ctx = mp.get_context("fork")
    self.n = n
    self.workers = []

  def _spawn(self):
    a, b = self.ctx.Pipe()
    p = self.ctx.Process(target=_worker_main, args=(b,), daemon=True)
    p.start()
    b.close()
    return {"p": p, "conn": a, "job": None, "deadline": None}

  def run(self, jobs, timeout, progress=None, budget=None):
    """jobs: [(src, nofail, check)] -> [record] (record {"timeout": True} on timeout; {"skipped": True} for
    jobs not started when the wall-clock `budget` (seconds) of this call ran out)."""
    t_end = time.time() + budget if budget else None
    results = [None] * len(jobs)
    pending = list(range(len(jobs)))[::-1]
    while len(self.workers) < min(self.n, max(1, len(jobs))):
      self.workers.append(self._spawn())
    done = 0
    while done < len(jobs):
      if t_end is not None and pending and time.time() > t_end:
        for i in pending:
          results[i] = {"skipped": True}
          done += 1
        pending = []
        if done >= len(jobs):
          break
      for w in self.workers:
        if w["job"] is None and pending:
          i = pending.pop()
          w["job"] = i
          w["deadline"] = time.time() + timeout
          w["conn"].send((i,) + tuple(jobs[i]))
      from multiprocessing.connection import wait
      busy = [w for w in self.workers if w["job"] is not None]
      ready = wait([w["conn"] for w in busy], timeout=0.5)
      now = time.time()
      for w in busy:
        if w["conn"] in ready:
          try:
            i, rec = w["conn"].recv()
          except (EOFError, OSError):
            i, rec = w["job"], {"worker_died": True}
            self._replace(w)
          results[i] = rec
          w["job"] = None
          done += 1
          if progress:
            progress(done)
        elif now > w["deadline"]:
          results[w["job"]] = {"timeout": True}
          done += 1
          self._replace(w)
        elif not w["p"].is_alive():
          results[w["job"]] = {"worker_died": True, "exitcode": w["p"].exitcode}
          done += 1
          self._replace(w)
    return results

  def _replace(self, w):
    try:
      w["p"].kill()
      w["p"].join(2)
      w["conn"].close()
    except Exception:  # pylint: disable=broad-except
      pass
    nw = self._spawn()
    w.update(nw)

  def close(self):
    for w in self.workers:
      try:
        w["conn"].send(None)
      except Exception:  # pylint: disable=broad-except
        pass
    for w in self.workers:
      w["p"].join(0.5)
      if w["p"].is_alive():
        w["p"].kill()
    self.workers = []


def run_fresh(src, nofail=False, check=False, timeout=180):
  """One source in a fresh interpreter (S: confirmation)."""
  os.makedirs(WORK, exist_ok=True)
  path = os.path.join(WORK, "fresh_%d_%d.py" % (os.getpid(), random.randrange(10**9)))
  with open(path, "w", encoding="utf8") as fh:
    fh.write(src)
  try:
    r = subprocess.run([common.PY, "-m", "harness.c15", "one", path, str(int(nofail)), str(int(check))],
                       cwd=common.VERIF, stdout=subprocess.PIPE, stderr=subprocess.DEVNULL, text=True,
                       timeout=timeout, env=dict(os.environ, PYTYPE_REPO=common.REPO))
    for line in r.stdout.splitlines()[::-1]:
      if line.startswith("{"):
        return json.loads(line)
    return {"harness_error": "no output", "rc": r.returncode}
  except subprocess.TimeoutExpired:
    return {"timeout": True}
  finally:
    try:
      os.unlink(path)
    except OSError:
      pass


# ---------------------------------------------------------------------------------------- the property's oracle
def cpython_compile(src):
  """What CPython itself says: ("ok",) or ("fail", exception type, lineno or None)."""
  with warnings.catch_warnings():
    warnings.simplefilter("ignore")
    try:
      compile(src, "dummy.py", "exec", dont_inherit=True)
      return ("ok",)
    except SyntaxError as e:
      return ("fail", type(e).__name__, e.lineno)
    except (ValueError, RecursionError, MemoryError, OverflowError) as e:
      return ("fail", type(e).__name__, None)
    except SystemError:
      # a defect of CPython's own compiler (e.g. `_PyST_GetScope(name='__class__') failed` for super() in a
      # comprehension at module level inside a lambda default): no oracle for such a text
      return ("cpython-internal-error",)


def nlines_of(src):
  # CPython blames the line after the last newline for errors at EOF; that (possibly empty) line counts
  return len(src.split("\n"))


def load_known():
  known, _ = common.known_findings("C15")
  return known


def _spurious_cause(src, exc):
  """Why pytype reports a compiler error for a text CPython compiles."""
  if exc is not None and exc["type"] == "ConstantError":
    return "constant_folding"
  try:
    common.load_pytype()
    from pytype import preprocess
    aug = getattr(preprocess.augment_annotations, "__wrapped__", preprocess.augment_annotations)(src)
    if aug != src and cpython_compile(aug)[0] == "fail":
      return "augment_annotations"
  except Exception:  # pylint: disable=broad-except
    pass
  return "other"


def judge(src, rec, known):
  """Property oracle on one record -> (verdict, detail).
  verdict: ok / timeout / harness / env / known (detail = finding id) / usage-error, or a violation kind:
  crash, missed-compiler-error, compiler-error-not-single, wrong-compiler-error-line, spurious-compiler-error,
  unexpected-final, line-out-of-file (detail["identity"] is what a known finding must match)."""
  if rec is None or rec.get("timeout"):
    return "timeout", None
  if rec.get("skipped"):
    return "skipped", None
  if rec.get("worker_died") or rec.get("harness_error"):
    return "harness", rec
  if rec.get("died"):
    return "process-died", {"identity": ["rc=%s" % rec.get("rc")], "note": "the interpreter died twice on this source"}
  cp = cpython_compile(src)
  if cp[0] == "cpython-internal-error":
    return "env", "CPython's own compiler raises SystemError on this text (no oracle)"
  exc = rec.get("exc")
  nl = nlines_of(src)
  final = rec.get("final", "")

  def result(verdict, identity, detail):
    for k in known:
      w = k.get("witness", {})
      if w.get("category") == verdict and list(w.get("identity", [])) == list(identity):
        return "known", k["id"]
    detail = dict(detail, identity=list(identity))
    return verdict, detail

  # 1. an exception escaping (or swallowed under nofail) that is not one pytype raises on purpose
  if exc is not None and exc["bits"] in ("00000001", "00000000"):
    if exc.get("overlay_env"):
      return "env", "stub missing from the empty sandbox typeshed (overlay construction / typing.re members)"
    return result("crash", exc["identity"], {"type": exc["type"], "msg": exc["msg"], "frames": exc["frames"],
                                             "stage": rec.get("stage")})
  if exc is not None and exc["bits"] == "10000001":
    return "usage-error", exc["msg"]
  # 2. compile failures
  is_ce = final.startswith("DEFAULT info=none errors=[python-compiler-error@")
  if cp[0] == "fail":
    want = cp[2]
    if not is_ce:
      return result("missed-compiler-error", [cp[1]], {"cpython": list(cp), "final": final})
    got_errs = rec.get("errors", [])
    if len(got_errs) != 1 or got_errs[0][0] != "python-compiler-error":
      return result("compiler-error-not-single", [str(len(got_errs))], {"errors": got_errs})
    got = got_errs[0][1]
    # CPython blames no line of the file for some errors (lineno None, or -1 for e.g. `return` inside
    # `async with` inside `except*`): then there is no line to agree on and pytype's 0/1 is accepted
    okline = (got == want) if (want is not None and want >= 1) else (got in (0, 1))
    if not okline:
      cause = rec.get("stage")
      if _spurious_cause(src, exc) == "augment_annotations":
        cause = "augment_annotations"   # pytype's own rewrite of the source fails to compile earlier in the file
      return result("wrong-compiler-error-line", [cause],
                    {"cpython_line": want, "pytype_line": got, "cpython": list(cp)})
    return "ok", "compile-error"
  # CPython compiles it
  if is_ce or (exc is not None and exc["bits"][1:6] != "00000"):
    return result("spurious-compiler-error", [_spurious_cause(src, exc)],
                  {"final": final, "exc": exc and {k: exc[k] for k in ("type", "msg", "frames")},
                   "stage": rec.get("stage")})
  if exc is not None and exc["bits"] == "00000011":
    return "ok", "skip-file"
  if final != "ANALYSED":
    return result("unexpected-final", [final[:40]], {"final": final})
  # 3. every reported error carries a line inside the file
  bad = [(n, l) for n, l in rec.get("errors", []) if not 1 <= l <= nl]
  if bad:
    return result("line-out-of-file", [bad[0][0]], {"errors": bad[:5], "nlines": nl})
  return "ok", "analysed"


def model_line(rec):
  """Driver input for a record."""
  nf, ck = int(rec["nofail"]), int(rec["check"])
  exc = rec.get("exc")
  if exc is None:
    return "ok %d %d" % (nf, ck)

  def o(v):
    return "None" if v is None else str(v)
  stage = rec.get("stage") or "run"
  return "outcome %s %s %s %s %s %d %d" % (stage, exc["bits"], o(exc["line"]), o(exc["lineno"]), o(exc["raw_line"]),
                                            nf, ck)


# ------------------------------------------------------------------------------------------------ inputs
def gen_cases(rng, n_gen, n_mut):
  """-> [(label, src)]: generated programs and token-level mutants (half compiling, half not, as far as the
  mutator yields them)."""
  cases = []
  compiling = []
  tries = 0
  while len(cases) < n_gen and tries < n_gen * 3:
    tries += 1
    src = c15_gen.gen_program(rng)
    cp = cpython_compile(src)[0]
    if cp == "cpython-internal-error":
      continue
    cases.append(("gen", src))
    if cp == "ok":
      compiling.append(src)
  want_c = n_mut // 2
  want_n = n_mut - want_c
  mc, mn = [], []
  tries = 0
  while compiling and (len(mc) < want_c or len(mn) < want_n) and tries < n_mut * 12:
    tries += 1
    base = compiling[rng.randrange(len(compiling))]
    m, _ = c15_gen.mutate(rng, base)
    if m == base:
      continue
    cp = cpython_compile(m)[0]
    if cp == "cpython-internal-error":
      continue
    if cp == "ok":
      if len(mc) < want_c:
        mc.append(("mut-compiling", m))
    elif len(mn) < want_n:
      mn.append(("mut-noncompiling", m))
  return cases + mc + mn


# The generated programs of the TESTING stream come from a fixed pool of POOL_N batches (batch b is a function of
# b alone); VERIF_SEED selects which batches a run executes.  Why a pool: this stream is a fuzzer for crashes of
# the whole VM, and on the unchanged tree a fresh random program finds a *new* crash group every few thousand
# programs (see DESIGN.md §9 C15).  Every batch of the pool was swept on the unchanged tree (`python -m harness.c15
# sweep-pool`) and every crash group it contains is repaired or listed in known_findings.json, so a run on the
# unchanged tree reports nothing new whatever the seed, while a change to pytype is still exercised by
# 450 (quick) / 3600 (thorough) structurally rich programs per run.
POOL_N = 96
POOL_GEN, POOL_MUT = 50, 100


def pool_batch(b):
  """-> [(label, src, nofail, check)] of pool batch b (deterministic)."""
  rng = random.Random(0xC15000 + b)
  out = []
  for i, (label, src) in enumerate(gen_cases(rng, POOL_GEN, POOL_MUT)):
    out.append((label, src, i % 5 == 3, i % 4 == 2))
  return out


HAND = [
    ("hand", "x = 1\n# pytype: skip-file\n"),
    ("hand", "def f():\n  return (\n"),
    ("hand", "return 1\n"),
    ("hand", "def f():\n  x = 1\n  nonlocal x\n"),
    ("hand", "for x in y:\n  pass\nbreak\n"),
    ("hand", "if x:\nprint(1)\n"),
    ("hand", "if x:\n\tprint(1)\n        print(2)\n"),
    ("hand", "x = 'abc\n"),
    ("hand", "class A:\n  def f(self, a, a): pass\n"),
    ("hand", "a\0b\n"),
    ("hand", "x = 1 +\n"),
    ("hand", "def f(x):\n  yield x\n  return 1\nasync def g():\n  yield 1\n  return 2\n"),
    ("hand", ""),
    ("hand", "\n\n\n"),
    ("hand", "x: int\n"),
    ("hand", "import typing\ndef f(x: typing.List[int]) -> int:\n  return x[0]\nf(['a'])\nf(1, 2)\nundefined\n"),
    ("hand", "def f():\n  x: int\n  y: str = 'a'\n  return x, y\n"),
    ("hand", "from __future__ import annotations\nfrom __future__ import nosuchfeature\n"),
    ("hand", "x = (\n1,\n2,\n"),
    ("hand", "def f():\n  pass\n  await x\n"),
    ("hand", "class A:\n  x = yield\n"),
    ("hand", "f(**a, *b)\n"),
    ("hand", "x = {**a, 'k': 1, **b}\ny = [*a, *b]\nprint(*a, sep='')\n"),
    ("hand", "lambda: (yield)\n"),
    ("hand", "def f(a, /, b, *, c): return a\nf(1, 2, c=3)\nf(a=1, b=2, c=3)\n"),
    ("hand", "try:\n  pass\nexcept* ValueError:\n  pass\nexcept TypeError:\n  pass\n"),
    ("hand", "match x:\n  case _:\n    pass\n  case 1:\n    pass\n"),
    ("hand", "x = 1\ndel x\nprint(x)\n"),
    ("hand", "# -*- coding: latin-1 -*-\nx = 'é'\n"),
    ("hand", "x = 0777\n"),
    ("hand", "print 'hello'\n"),
    ("hand", "def f():\n  '''doc'''\nclass C(f): pass\nC().x.y.z()\n"),
    ("hand", "x = " + "(" * 300 + ")" * 300 + "\n"),      # SyntaxError: too many nested parentheses
    ("hand", "x = " + "-" * 3000 + "1\n"),                # CPython: RecursionError during compilation
    ("hand", "x = [\n" + "  1,\n" * 3000 + "]\n"),
    ("hand", "def f():\n" + "".join("  if x == %d:\n    return %d\n" % (i, i) for i in range(150))),
]


def family_cases():
  """Deterministic construct matrices (always run in full, all compile): every star-unpacking shape against every
  statically known right-hand-side length; every placement of 0-3 structured comments on a multi-line statement in
  every statement position (last in a function, inside a class, at module level); joins of a tuple with a
  non-tuple that are then unpacked."""
  out = []
  # star / plain unpacking x rhs length x rhs form
  stmts = []
  for before in range(0, 3):
    for after in range(0, 3):
      for star in (False, True):
        if not star and before + after == 0:
          continue
        names = ["a%d" % i for i in range(before)] + (["*s"] if star else []) + ["z%d" % i for i in range(after)]
        tgt = ", ".join(names) + ("," if len(names) == 1 else "")
        for extra in range(0, 3 if star else 1):
          n = before + after + extra
          elts = ", ".join(str(i) if i % 2 else "'e%d'" % i for i in range(n))
          tup = "(%s%s)" % (elts, "," if n == 1 else "")
          stmts.append("%s = %s" % (tgt, tup))
          stmts.append("%s = [%s]" % (tgt, elts))
          stmts.append("t_ = %s\n%s = t_" % (tup, tgt))
          stmts.append("for %s in [%s, %s]:\n  pass" % (tgt, tup, tup))
          stmts.append("def fu_():\n  %s = %s\n  return %s" % (tgt, tup, names[0].lstrip("*")))
  for i in range(0, len(stmts), 12):
    out.append(("family-unpack", "\n".join(stmts[i:i + 12]) + "\n"))
  # joins of tuple / non-tuple then unpacked through the iterable paths
  for other in ("None", "[1, 2]", "'ab'", "(1, 2, 3)", "{1: 2}"):
    out.append(("family-unpack", "def g(*a): return a\ndef f(c):\n  t = (1, 2) if c else %s\n  x = [0, *t]\n  y = g(*t)\n"
                                 "  match t:\n    case [p, q]:\n      return p\n  u, v = t\n  return x, y\n" % other))
  # structured comments on multi-line statements
  comments = ["# type: ignore", "# pytype: disable=attribute-error", "# type: int", "# pytype: disable=wrong-arg-types"]
  for k in range(0, 4):
    for shape in range(4):
      cs = [comments[(shape + j) % len(comments)] for j in range(k)] + [""] * 3
      call = "g(\n    x,  %s\n    1,  %s\n  )  %s" % (cs[0], cs[1], cs[2])
      out.append(("family-directives", "def g(*a): return a\ndef f(x):\n  y = 1\n  return %s\n" % call))
      out.append(("family-directives", "def g(*a): return a\ndef f(x):\n  v = %s\n" % call))
      out.append(("family-directives", "def g(*a): return a\nclass K:\n  def m(self, x):\n    return %s\n  z = 1\n" % call.replace("\n", "\n  ")))
      out.append(("family-directives", "def g(*a): return a\nx = 0\nw = %s\n" % call.replace("\n  ", "\n")))
  # expression forms whose opcodes pop a flag-dependent number of operands, in every control-flow context that merges
  # frame states (loop back edges, branches inside loops, comprehensions, try/finally, with): a handler that pops one
  # operand too few or too many only shows where two states of different depth meet
  forms = []
  for conv in ("", "!r", "!s", "!a"):
    for spec in ("", ":>10", ":{w}", ":{w}.{w}", ":x<{w}"):
      forms.append("f'{v%s%s}'" % (conv, spec))
      forms.append("f'a{v%s%s}b{w%s}'" % (conv, spec, conv))
  forms += ["'%-12s' % (v,)", "'%s=%r' % (v, w)", "'%5d|%-5s' % (w, v)", "v[w:]", "v[:w]", "v[w:w]", "v[w:w:w]", "v[::w]",
            "g(v, *xs, k=w, **kw)", "g(*xs)", "g(**kw)", "g(v, k=w)", "v < w < g(v)", "v if w else g(w)", "(t := g(v), t)",
            "[*xs, v, *xs]", "{**kw, 'a': v}", "{*xs, v}", "(v, *xs)", "lambda a=v, *b, c=w, **d: (a, b, c, d)",
            "[q for q in xs if q]", "{q: v for q in xs}", "{q for q in xs for r in xs}", "sum(q for q in xs)",
            "not v", "-w", "v is w", "v in xs", "v and w or xs", "xs[0][w:w]", "f'{f\'{v!r:>{w}}\'!s:^{w}}'"]
  ctxs = [
      "def f(v, w, xs, kw):\n  return %s\n",
      "def f(v, w, xs, kw):\n  out = []\n  for v in xs:\n    out.append(%s)\n  return out\n",
      "def f(v, w, xs, kw):\n  r = None\n  for v in xs:\n    if v:\n      r = %s\n    else:\n      continue\n  return r\n",
      "def f(v, w, xs, kw):\n  while w:\n    w -= 1\n    r = %s\n    if r:\n      break\n  else:\n    r = 0\n  return r\n",
      "def f(v, w, xs, kw):\n  return [%s for v in xs]\n",
      "def f(v, w, xs, kw):\n  return {v: %s for v in xs if v}\n",
      "def f(v, w, xs, kw):\n  try:\n    r = %s\n  except ValueError as e:\n    r = e\n  finally:\n    w = 0\n  return r\n",
      "def f(v, w, xs, kw):\n  with open(v) as fh, open(v):\n    for v in fh:\n      yield %s\n",
      "class K:\n  def m(self, v, w, xs, kw):\n    for v in xs:\n      for w in xs:\n        print(%s)\n",
      "async def f(v, w, xs, kw):\n  async for v in xs:\n    await g(%s)\n",
      "def f(v, w, xs, kw):\n  match v:\n    case [w, *_]:\n      return %s\n    case _:\n      return None\n",
  ]
  # constant container literals around the size thresholds of constant folding / MAX_VAR_SIZE (64): every size just
  # below, at and above them, one or several element types, the odd element at the first / 63rd / 64th / 65th / last
  # position, as list, tuple, set, dict keys and dict values, at module level and inside a function
  def elems(n, odd_at, odd):
    return [odd if i in odd_at else str(i) for i in range(n)]
  big = []
  for n in (15, 16, 17, 63, 64, 65, 100, 257):
    for odd_at, odd in (((), None), ((0,), "'s'"), ((n - 1,), "'s'"), ((62, 63, 64), "None"), ((63,), "2.5"), ((64,), "'s'"),
                        (tuple(range(0, n, 2)), "'s%d'" % n), ((n // 2,), "[1]"), ((n // 2,), "(1, 's')")):
      es = elems(n, set(i for i in odd_at if i < n), odd)
      body = ", ".join(es)
      big.append("L%d = [%s]\nT%d = (%s,)\nS%d = {%s}\nK%d = {%s}\nV%d = {%s}\n"
                 "def fl%d():\n  x = [%s]\n  return x[0], x[-1], len(x)\n" % (
                     n, body, n, body, n, ", ".join(e for e in es if not e.startswith("[")), n,
                     ", ".join("%s: %d" % (e, i) for i, e in enumerate(es) if not e.startswith("[")), n,
                     ", ".join("%d: %s" % (i, e) for i, e in enumerate(es)), n, body))
  for i in range(0, len(big), 3):
    out.append(("family-large-literal", "".join(
        b.replace("L%s" % "", "L%s" % "") for b in big[i:i + 3]).replace("\ndef fl", "\ndef fl")))
  pre = "def g(*a, **k): return a\n"
  for ci, ctx in enumerate(ctxs):
    for i in range(0, len(forms), 6):
      body = ""
      for j, fm in enumerate(forms[i:i + 6]):
        body += ctx.replace("def f(", "def f%d(" % j).replace("class K:", "class K%d:" % j) % fm
      out.append(("family-stack", pre + body))
  return out


def stdlib_files():
  import sysconfig
  root = sysconfig.get_paths()["stdlib"]
  out = []
  for d, dirs, files in os.walk(root):
    dirs[:] = sorted(x for x in dirs if x not in ("test", "tests", "idle_test", "site-packages", "__pycache__",
                                                   "lib2to3", "ensurepip", "__phello__"))
    rel = os.path.relpath(d, root)
    for f in sorted(files):
      if f.endswith(".py") and not f.startswith("test_"):
        out.append(os.path.join(rel, f) if rel != "." else f)
  return root, out


def read_text(p):
  try:
    with open(p, encoding="utf8") as fh:
      return fh.read()
  except (OSError, UnicodeDecodeError):
    return None


# ------------------------------------------------------------------------------------------ K part (a): shell
class _FakeOp:
  def __init__(self, line):
    self.line = line


def injected_exceptions():
  import libcst
  from pytype import constant_folding, utils
  from pytype.directors import directors
  from pytype.pyc import pyc
  out = []
  out.append(("usage", lambda: utils.UsageError("u")))
  for m in ["invalid syntax (f.py, line 3)", "bad (x (y), line 12)", "no location", "two\nlines (f.py, line 4)",
            "'return' outside function (dummy, line 1)", "msg (f.py, line 0)", "msg (f.py, line 007)",
            "x (f.py, line 5) trailing"]:
    out.append(("compile", lambda m=m: pyc.CompileError(m)))
  for l in [None, 0, 1, 7]:
    out.append(("constant", lambda l=l: constant_folding.ConstantError("c", _FakeOp(l))))
    out.append(("indentation", lambda l=l: IndentationError("unexpected indent", ("f.py", l, 1, "  x\n"))))
    out.append(("tab", lambda l=l: TabError("inconsistent", ("f.py", l, 1, "\tx\n"))))
    out.append(("syntax", lambda l=l: SyntaxError("invalid syntax", ("f.py", l, 1, "x x\n"))))
  out.append(("syntax-noargs", lambda: SyntaxError("source code string cannot contain null bytes")))
  for l in [0, 1, 9]:
    out.append(("libcst", lambda l=l: libcst.ParserSyntaxError("m", lines=["a"] * 10, raw_line=l, raw_column=0)))
  out.append(("skip", lambda: directors.SkipFileError()))
  for mk in [lambda: RuntimeError("boom"), lambda: KeyError("k"), lambda: AssertionError(), lambda: RecursionError("deep"),
             lambda: AttributeError("'NoneType' object has no attribute 'x'\nsecond line"), lambda: StopIteration(),
             lambda: MemoryError(), lambda: NotImplementedError("n"), lambda: OSError(2, "nope")]:
    out.append(("other", mk))
  out.append(("base", lambda: KeyboardInterrupt()))
  out.append(("base", lambda: SystemExit(3)))
  out.append(("base", lambda: GeneratorExit()))
  return out


def shell_cases(drv):
  """Exhaustive-small correspondence of the classifier: every injected exception x nofail x check through
  the real check_or_generate_pyi (check_py/generate_pyi replaced by a raiser) vs the Lean driver."""
  common.load_pytype()
  os.environ["TYPESHED_HOME"] = TYPESHED
  _patch()
  from pytype import io as pio
  disagreements = []
  lines, reals, descs = [], [], []
  orig_gen, orig_chk = pio.generate_pyi, pio.check_py
  try:
    for label, mk in injected_exceptions():
      for nofail in (False, True):
        for check in (False, True):
          def raiser(*a, _mk=mk, **k):
            _State.stage = "run"
            e = _mk()
            _State.inner_exc = e
            raise e
          pio.generate_pyi = raiser
          pio.check_py = raiser
          rec = analyse("x = 1\n", nofail, check, tag="inj")
          lines.append(model_line(rec))
          reals.append(rec.get("final"))
          descs.append({"injected": label, "exc": rec.get("exc", {}).get("type"), "nofail": nofail, "check": check})
    # the no-exception path on a real (tiny) analysis
    pio.generate_pyi, pio.check_py = orig_gen, orig_chk
    for nofail in (False, True):
      for check in (False, True):
        rec = analyse("x = 1\n", nofail, check, tag="inj")
        lines.append(model_line(rec))
        reals.append(rec.get("final"))
        descs.append({"injected": None, "nofail": nofail, "check": check})
  finally:
    pio.generate_pyi, pio.check_py = orig_gen, orig_chk
  out = drv.batch(lines)
  kinds = collections.Counter()
  for l, real, mod, d in zip(lines, reals, out, descs):
    mres = mod.split(" kind=")[0]
    kinds[mod.split(" kind=")[-1].split(" ")[0]] += 1
    if mres != real:
      disagreements.append({"kind": "shell-model-mismatch", "driver_line": l, "real": real, "model": mod, "case": d})
  return len(lines), disagreements, kinds


def compile_line_cases(drv):
  """compiler.CompileError's regex and the real compile_src on sources whose error is found by the compile
  stage (not the parser) vs the model's compileErrorLine."""
  import re
  from pytype.pyc import compiler, pyc
  disagreements = []
  msgs = ["invalid syntax (f.py, line 3)", "bad (x (y), line 12)", "no location", "two\nlines (f.py, line 4)",
          "(f, line 1)", " (f, line 1)", "m (, line 2)", "m (f.py, line 2) ", "m (f.py,line 2)", "m (f.py, line -2)",
          "m (f.py, line 10)", "", "RecursionError: maximum recursion depth exceeded during compilation",
          "source code string cannot contain null bytes"]
  lines, reals = [], []
  for m in msgs:
    e = compiler.CompileError(m)
    mm = re.match(r"^(.*) \((.*), line (\d+)\)$", m)
    lines.append("compileline located %d" % int(mm.group(3)) if mm else "compileline unlocated")
    reals.append(str(e.line))
  srcs = ["return 1\n", "x = 1\n\ndef f():\n  x = 1\n  nonlocal x\n", "\n\nbreak\n", "def f(a, a): pass\n",
          "\n\n\n\nawait x\n", "class A:\n  return\n", "def f():\n  global x\n  x: int = 1\n  x = 2\n  global x\n",
          "x = 1\n" * 20 + "continue\n", "def f():\n  yield from x\n  [(yield) for _ in x]\n"]
  for s in srcs:
    cp = cpython_compile(s)
    try:
      pyc.compile_src(s, "f.py", PYVER, None)
      reals.append("compiled")
    except pyc.CompileError as e:
      reals.append(str(e.line))
    lines.append("compileline located %d" % cp[2] if cp[0] == "fail" and cp[2] is not None else "compileline unlocated")
  out = drv.batch(lines)
  for l, real, mod in zip(lines, reals, out):
    if real != mod:
      disagreements.append({"kind": "compile-line-mismatch", "driver_line": l, "real": real, "model": mod})
  return len(lines), disagreements


def dispatch_cases(drv):
  """The regenerated table vs the classes as imported: globals() of opcodes.py, byte_* attributes of the VM
  class the Context instantiates, pycnite's tables."""
  common.load_pytype()
  from pycnite import mapping
  from pytype import tracer_vm
  from pytype.pyc import opcodes
  disagreements = []
  names = set()
  for v in (8, 9, 10, 11, 12):
    names |= set(mapping.get_mapping((3, v)).values())
  intr = list(mapping.PYTHON_3_12_INTRINSIC_1_DESCS) + list(mapping.PYTHON_3_12_INTRINSIC_2_DESCS)
  names |= {n[5:] for n in dir(tracer_vm.CallTracer) if n.startswith("byte_")}
  names |= {"NO_SUCH_OPCODE", "SETUP_EXCEPT_311", "POP_BLOCK", "Opcode"}
  names = sorted(names)
  lines, reals = [], []
  for n in names:
    lines.append("dispatch " + n)
    cls = vars(opcodes).get(n)
    if not (isinstance(cls, type) and issubclass(cls, opcodes.Opcode)):
      reals.append("KEYERROR")
    elif getattr(tracer_vm.CallTracer, "byte_" + n, None) is None:
      reals.append("VMERROR")
    else:
      reals.append("byte_" + n)
  for n in intr + ["INTRINSIC_NOPE"]:
    lines.append("intrinsic " + n)
    reals.append("byte_" + n if getattr(tracer_vm.CallTracer, "byte_" + n, None) is not None else "VMERROR")
  out = drv.batch(lines)
  for l, real, mod in zip(lines, reals, out):
    if real != mod:
      disagreements.append({"kind": "dispatch-mismatch", "driver_line": l, "real": real, "model": mod})
  # producible sets: table values minus what the reader folds
  for v in (8, 9, 10, 11, 12):
    mod = drv.batch(["producible %d" % v])[0].split()
    real = sorted({n for c, n in mapping.get_mapping((3, v)).items() if c not in (0, 144)} | {"POP_BLOCK", "SETUP_EXCEPT_311"})
    if sorted(set(mod)) != real:
      disagreements.append({"kind": "producible-mismatch", "version": v, "only_model": sorted(set(mod) - set(real)),
                            "only_real": sorted(set(real) - set(mod))})
  mod_intr = sorted(drv.batch(["intrinsics"])[0].split())
  if mod_intr != sorted(intr):
    disagreements.append({"kind": "intrinsics-mismatch", "model": mod_intr, "real": sorted(intr)})
  return len(lines) + 6, disagreements


def opcodes_seen(sources):
  """Opcode names the real pipeline (compile + opcodes.dis) produces for these sources on 3.12."""
  from pytype.pyc import opcodes, pyc
  seen = collections.Counter()
  for s in sources:
    try:
      code = pyc.compile_src(s, "f.py", PYVER, None)
    except Exception:  # pylint: disable=broad-except
      continue
    todo = [code]
    while todo:
      c = todo.pop()
      for op in opcodes.dis(c):
        seen[op.name] += 1
        if op.name in ("CALL_INTRINSIC_1", "CALL_INTRINSIC_2"):
          seen["intrinsic:" + str(op.argval)] += 1
      todo += [k for k in c.co_consts if hasattr(k, "co_consts")]
  return seen


# ------------------------------------------------------------------------------------------ K part (b): testing
def run_inputs(pool, cases, rng, timeout, known, drv, budget=None):
  """cases: [(label, src)] -> (summary, disagreements)."""
  jobs = []
  for i, c in enumerate(cases):
    if len(c) == 4:     # flags fixed by the caller
      jobs.append((c[1], c[2], c[3]))
    else:
      jobs.append((c[1], i % 5 == 3, i % 4 == 2))
  cases = [(c[0], c[1]) for c in cases]
  if os.environ.get("VERIF_C15_NOBUDGET"):   # triage runs: same cases, no wall-clock cut
    budget = None
  recs = pool.run(jobs, timeout, budget=budget)
  retried = 0
  for i, rec in enumerate(recs):
    if rec and rec.get("worker_died"):
      # could be the OOM killer on a loaded machine: once more, alone, in a fresh interpreter
      retried += 1
      r2 = run_fresh(jobs[i][0], jobs[i][1], jobs[i][2], timeout=timeout)
      if r2.get("harness_error") == "no output":
        r2 = {"final": "PROCESS-DIED", "nofail": jobs[i][1], "check": jobs[i][2], "died": True, "rc": r2.get("rc")}
      recs[i] = r2
  lines = []
  idxs = []
  for i, rec in enumerate(recs):
    if rec and "final" in rec and not rec.get("died"):
      lines.append(model_line(rec))
      idxs.append(i)
  outs = drv.batch(lines) if lines else []
  model = dict(zip(idxs, outs))
  verdicts = collections.Counter()
  stages = collections.Counter()
  per_label = collections.defaultdict(collections.Counter)
  disagreements = []
  env_notes = collections.Counter()
  undeclared = collections.Counter()
  known_hits = collections.Counter()
  walls = []
  for i, ((label, src), rec) in enumerate(zip(cases, recs)):
    verdict, detail = judge(src, rec, known)
    verdicts[verdict] += 1
    per_label[label.split(":")[0]][verdict] += 1
    if rec.get("wall"):
      walls.append(rec["wall"])
    if verdict in ("timeout", "skipped"):
      continue
    if verdict == "harness":
      disagreements.append({"kind": "harness-problem", "label": label, "detail": str(detail)[:600], "source": src[:3000]})
      continue
    stages[rec.get("stage")] += 1
    if verdict == "env":
      env_notes[detail] += 1
    if verdict == "known":
      known_hits[detail] += 1
    m = model.get(i)
    if m is not None and m.endswith("declared=0") and verdict == "ok":
      # a stage result outside the model's declared (stage, exception) pairs that the oracle accepts
      undeclared[(rec.get("stage"), rec.get("exc", {}).get("type"))] += 1
    if m is not None:
      mres = m.split(" kind=")[0]
      if mres != rec["final"]:
        disagreements.append({"kind": "outcome-model-mismatch", "label": label, "real": rec["final"], "model": m,
                              "driver_line": lines[idxs.index(i)], "source": src, "nofail": rec["nofail"],
                              "check": rec["check"]})
    if verdict not in ("ok", "known", "env", "usage-error"):
      disagreements.append({"kind": verdict, "label": label, "detail": detail, "source": src,
                            "nofail": rec["nofail"], "check": rec["check"]})
    elif verdict == "usage-error":
      disagreements.append({"kind": "unexpected-usage-error", "label": label, "detail": detail, "source": src,
                            "nofail": rec["nofail"], "check": rec["check"]})
  summary = {"verdicts": dict(verdicts), "stages": dict(stages),
             "per_label": {k: dict(v) for k, v in per_label.items()},
             "env_artefacts": dict(env_notes), "known_finding_hits": dict(known_hits),
             "undeclared_but_accepted": {"%s/%s" % k: v for k, v in undeclared.items()},
             "retried_after_worker_death": retried,
             "wall_max": max(walls) if walls else 0, "wall_mean": round(sum(walls) / len(walls), 2) if walls else 0}
  return summary, disagreements, recs


def correspond(res, rng, tier):
  prepare()
  drv = common.ensure_driver("drv_c15")
  known = load_known()
  disagreements = []
  t0 = time.time()
  n_shell, d, kinds = shell_cases(drv)
  disagreements += d
  n_cl, d = compile_line_cases(drv)
  disagreements += d
  n_dp, d = dispatch_cases(drv)
  disagreements += d
  t_shell = time.time() - t0

  quick = tier == "quick"
  n_std = 30 if quick else 10**6
  batches = sorted(rng.sample(range(POOL_N), 3 if quick else 24))
  cases = list(HAND) + family_cases()
  for b in batches:
    cases += pool_batch(b)
  # real internal failures through the `except Exception` clause: the listed crash witnesses under nofail
  # (exercises the swallow branch of the real chain with real exceptions, both with and without --check)
  for k in known:
    if k["witness"].get("category") == "crash":
      cases.append(("known-witness", k["witness"]["source"], True, False))
      cases.append(("known-witness", k["witness"]["source"], True, True))
  root, files = stdlib_files()
  if quick:
    small = [f for f in files if os.path.getsize(os.path.join(root, f)) <= 30000]
    chosen = sorted(rng.sample(small, min(n_std, len(small))))
  else:
    chosen = list(files)
    rng.shuffle(chosen)   # the phase has a wall-clock budget: which files are reached varies with the seed
  std_cases = []
  for f in chosen:
    s = read_text(os.path.join(root, f))
    if s is not None:
      std_cases.append(("stdlib:" + f, s))
  # opcodes the generated corpus really produces must be producible in the model (ties producibleOf to the
  # real reader on 3.12) and dispatchable
  seen = opcodes_seen([c[1] for c in cases[:400]] + [s for _, s in std_cases[:40]])
  prod12 = set(drv.batch(["producible 12"])[0].split())
  intr = set(drv.batch(["intrinsics"])[0].split())
  for n in seen:
    if n.startswith("intrinsic:"):
      if n[10:] not in intr:
        disagreements.append({"kind": "intrinsic-not-in-model", "name": n})
    elif n not in prod12:
      disagreements.append({"kind": "opcode-not-producible-in-model", "name": n})

  pool = Pool()
  try:
    t1 = time.time()
    s1, d1, recs1 = run_inputs(pool, cases, rng, 90 if quick else 150, known, drv, budget=120 if quick else 540)
    t_gen = time.time() - t1
    t1 = time.time()
    # stdlib: label kept for the report; sources can be large
    s2, d2, recs2 = run_inputs(pool, std_cases, rng, 60 if quick else 150, known, drv, budget=60 if quick else 600)
    t_std = time.time() - t1
  finally:
    pool.close()
  for dd in d1 + d2:
    disagreements.append(dd)

  nontrivial = set()
  cases = [(c[0], c[1]) for c in cases]
  for (label, src), rec in list(zip(cases, recs1)) + list(zip(std_cases, recs2)):
    if rec and "final" in rec and (rec.get("nerrors", 0) > 0 or rec.get("exc") is not None or len(src) > 200):
      nontrivial.add(hash(src))
  evaluated = n_shell + n_cl + n_dp + len(cases) + len(std_cases)
  res.cov["evaluations"] = evaluated
  res.cov["distinct_nontrivial"] = len(nontrivial)
  res.cov["exhaustive"] = False
  res.cov["rule"] = (
      "K(a) shell correspondence: %d injected exception objects x nofail x check through the real "
      "check_or_generate_pyi vs the Lean driver, %d CompileError/compile_src line cases, %d dispatch lookups "
      "(all names of every pycnite table + all byte_* + intrinsics) vs the imported classes. "
      "K(b) TESTING, not proof: %d hand-written + generated programs + token-level mutants (compiling and "
      "non-compiling) and %d CPython 3.12 stdlib files run through the real check_or_generate_pyi in killable "
      "workers (nofail on every 5th, --check on every 4th); recorded stage result -> model outcome compared with "
      "the real result; oracle: CPython compile() line for non-compiling sources, ANALYSED for compiling ones, "
      "all error lines within 1..nlines. non-trivial = distinct source that produced errors, raised, or is "
      "longer than 200 chars" % (n_shell // 4, n_cl, n_dp, len(cases), len(std_cases)))
  res.cov["distribution"] = {
      "shell_cases": n_shell, "shell_kinds": dict(kinds), "compile_line_cases": n_cl, "dispatch_cases": n_dp,
      "programs": s1, "stdlib": s2, "labels": dict(collections.Counter(l.split(":")[0] for l, _ in cases + std_cases)),
      "distinct_opcodes_seen_3_12": len([n for n in seen if not n.startswith("intrinsic:")]),
      "intrinsics_seen": sorted(n[10:] for n in seen if n.startswith("intrinsic:")),
      "timeouts": s1["verdicts"].get("timeout", 0) + s2["verdicts"].get("timeout", 0),
      "skipped_by_budget": s1["verdicts"].get("skipped", 0) + s2["verdicts"].get("skipped", 0),
      "seconds": {"shell": round(t_shell, 1), "programs": round(t_gen, 1), "stdlib": round(t_std, 1)},
      "workers": NWORKERS, "pool_batches": batches, "pool_size": POOL_N,
  }
  res.cov["testing_note"] = ("VM robustness is explored by differential/fuzz testing only (partial): a clean run "
                             "says nothing about programs outside the %d explored" % (len(cases) + len(std_cases)))
  samples = [{"label": cases[len(HAND)][0], "source_head": cases[len(HAND)][1][:400]}]
  cases = [(c[0], c[1]) for c in cases]
  for (label, src), rec in zip(cases, recs1):
    if label == "mut-noncompiling" and rec and "final" in rec:
      samples.append({"label": label, "cpython": list(cpython_compile(src)), "final": rec["final"], "stage": rec.get("stage")})
      break
  if std_cases:
    samples.append({"label": std_cases[0][0], "final": (recs2[0] or {}).get("final"), "nerrors": (recs2[0] or {}).get("nerrors")})
  res.add_samples(samples)
  return disagreements


# ------------------------------------------------------------------------------------------------ W
def witnesses(res):
  prepare()
  known = load_known()
  if not known:
    return
  pool = Pool(min(NWORKERS, len(known)))
  try:
    recs = pool.run([(k["witness"]["source"], False, False) for k in known], 120)
  finally:
    pool.close()
  replayed = 0
  for k, rec in zip(known, recs):
    replayed += 1
    src = k["witness"]["source"]
    verdict, detail = judge(src, rec, known)
    if verdict == "known" and detail == k["id"]:
      res.known_lines.append(k["what"])
    elif verdict in ("ok", "timeout", "env"):
      # no longer reproduces (repaired upstream or masked): nothing to report, nothing suppressed
      res.cov.setdefault("known_not_reproduced", []).append({"id": k["id"], "verdict": verdict})
    elif verdict == "known":
      res.known_lines.append(k["what"] + " [now matches listed finding %s]" % detail)
    else:
      res.violation("known-changed-" + k["id"], {"property": "C15", "kind": "failing-input",
                                                  "input": {"source": src, "failure": verdict, "detail": detail,
                                                            "note": "listed witness now fails differently"}})
  # repaired defects: the witnesses must now be analysed to a result (a fixed entry suppresses nothing)
  _, fixed = common.known_findings("C15")
  if fixed:
    pool = Pool(min(NWORKERS, len(fixed)))
    try:
      recs = pool.run([(e["witness"]["source"], False, False) for e in fixed], 120)
    finally:
      pool.close()
    for e, rec in zip(fixed, recs):
      replayed += 1
      src = e["witness"]["source"]
      verdict, detail = judge(src, rec, known)
      if verdict not in ("ok", "timeout", "env"):
        res.violation("fixed-" + e["id"], {"property": "C15", "kind": "failing-input",
                                           "input": {"source": src, "failure": verdict, "detail": detail,
                                                     "note": "witness of a repaired defect (%s) fails again" % e["commit"]}})
  res.cov["witnesses_replayed"] = replayed


# ------------------------------------------------------------------------------------------------ S
def _fail_sig(src, rec, known):
  verdict, detail = judge(src, rec, known)
  if verdict in ("ok", "known", "env", "timeout", "skipped", "harness", "usage-error"):
    return None
  return (verdict, tuple(detail.get("identity", ())) if isinstance(detail, dict) else ())


def shrink_source(pool, src, sig, nofail, check, known, budget=60.0):
  lines = src.split("\n")

  def fails(ls):
    s = "\n".join(ls)
    rec = pool.run([(s, nofail, check)], 60)[0]
    return _fail_sig(s, rec, known) == sig
  small = "\n".join(common.ddmin(lines, fails, budget_s=budget))
  # token level: pieces = token text with the whitespace before it
  toks = c15_gen.tokens_of(small)
  if toks:
    pieces, pos = [], 0
    for _, _, _, b in toks:
      pieces.append(small[pos:b])
      pos = b
    pieces.append(small[pos:])
    small = "".join(common.ddmin(pieces, lambda ps: fails(["".join(ps)]), budget_s=budget * 0.7))
  return small


def search(res, rng, disagreements, pfail):
  """Every failing source is confirmed in a fresh interpreter and shrunk line-wise; the oracle is the
  property's own (CPython compile() / no exception / lines in file)."""
  prepare()
  known = load_known()
  found = []
  cands = [d for d in disagreements if d.get("source") is not None and d["kind"] not in (
      "outcome-model-mismatch", "harness-problem")]
  cands.sort(key=lambda d: len(d["source"]))
  cands += sorted([d for d in disagreements if d.get("source") is not None and d["kind"] == "outcome-model-mismatch"],
                  key=lambda d: len(d["source"]))
  extra = []
  if pfail and not cands:
    # a broken dispatch table: look for programs whose bytecode contains an opcode without handler
    common.load_pytype()
    from pytype import tracer_vm
    progs = list(HAND) + gen_cases(random.Random(common.seed() + 7), 200, 0)
    seen_missing = {}
    for label, s in progs:
      ops = opcodes_seen([s])
      miss = [n for n in ops if not n.startswith("intrinsic:") and getattr(tracer_vm.CallTracer, "byte_" + n, None) is None]
      miss += [n for n in ops if n.startswith("intrinsic:") and getattr(tracer_vm.CallTracer, "byte_" + n[10:], None) is None]
      if miss and miss[0] not in seen_missing:
        seen_missing[miss[0]] = s
        extra.append({"kind": "crash", "source": s, "nofail": False, "check": False, "label": label})
      if len(extra) >= 2:
        break
  pool = Pool(NWORKERS)
  seen_sigs = set()
  t0 = time.time()
  try:
    for d in (cands + extra)[:40]:
      if time.time() - t0 > 420 or len(found) >= 3:
        break
      src, nofail, check = d["source"], d.get("nofail", False), d.get("check", False)
      rec = run_fresh(src, nofail, check)
      sig = _fail_sig(src, rec, known)
      if sig is None:
        if d["kind"] == "outcome-model-mismatch":
          # the model no longer describes the shell: report the input with both results
          m = common.Driver("drv_c15").batch([model_line(rec)])[0] if "final" in rec else None
          if m is not None and m.split(" kind=")[0] != rec["final"] and ("mismatch",) not in seen_sigs:
            seen_sigs.add(("mismatch",))
            found.append({"source": src, "failure": "outcome differs from the proved classifier", "real": rec["final"],
                          "model": m, "nofail": nofail, "check": check})
        continue
      if sig in seen_sigs:
        continue
      seen_sigs.add(sig)
      small = shrink_source(pool, src, sig, nofail, check, known, budget=45.0)
      rec2 = run_fresh(small, nofail, check)
      if _fail_sig(small, rec2, known) != sig:
        small, rec2 = src, rec
      verdict, detail = judge(small, rec2, known)
      found.append({"source": small, "failure": verdict, "detail": detail, "nofail": nofail, "check": check,
                    "cpython_compile": list(cpython_compile(small)), "final": rec2.get("final"),
                    "confirmed_in_fresh_process": True, "label": d.get("label")})
  finally:
    pool.close()
  return found


# ------------------------------------------------------------------------------------------------ side tools
def sweep(argv):
  prepare()
  n_gen, n_mut, n_std = [int(x) for x in (argv + ["600", "1200", "80"])[:3]]
  seed0 = common.seed()
  rng = random.Random(seed0 * 7919 + 5)
  known = load_known()
  drv = common.ensure_driver("drv_c15")
  cases = list(HAND) + gen_cases(rng, n_gen, n_mut)
  root, files = stdlib_files()
  chosen = files if n_std >= len(files) else sorted(rng.sample(files, n_std))
  std = [("stdlib:" + f, read_text(os.path.join(root, f))) for f in chosen]
  std = [x for x in std if x[1] is not None]
  pool = Pool()
  t0 = time.time()
  try:
    s1, d1, _ = run_inputs(pool, cases, rng, 120, known, drv)
    print("programs", json.dumps(s1), round(time.time() - t0, 1), flush=True)
    t0 = time.time()
    s2, d2, _ = run_inputs(pool, std, rng, 240, known, drv)
    print("stdlib", json.dumps(s2), round(time.time() - t0, 1), flush=True)
  finally:
    pool.close()
  groups = collections.defaultdict(list)
  for d in d1 + d2:
    key = d["kind"]
    if isinstance(d.get("detail"), dict) and d["detail"].get("identity"):
      key += " " + " ".join(str(x) for x in d["detail"]["identity"])
    groups[key].append(d)
  out = os.path.join(WORK, "sweep-%d.json" % seed0)
  with open(out, "w") as fh:
    json.dump({k: [{"label": x.get("label"), "detail": x.get("detail"), "source": x.get("source"),
                    "real": x.get("real"), "model": x.get("model"),
                    "nofail": x.get("nofail"), "check": x.get("check")} for x in v[:6]] for k, v in groups.items()},
              fh, indent=1, default=str)
  for k, v in sorted(groups.items(), key=lambda kv: -len(kv[1])):
    x = min(v, key=lambda y: len(y.get("source") or ""))
    print("GROUP %-70s n=%d smallest=%d chars label=%s" % (k, len(v), len(x.get("source") or ""), x.get("label")))
  print("written", out)


def sweep_pool(argv):
  """python -m harness.c15 sweep-pool [lo hi]: every batch lo..hi-1 of the pool, no wall-clock cut; prints the
  groups of everything that is not ok/known/env and writes build/c15/sweep-pool-<lo>-<hi>.json."""
  prepare()
  lo, hi = [int(x) for x in (argv + ["0", str(POOL_N)])[:2]]
  known = load_known()
  drv = common.ensure_driver("drv_c15")
  rng = random.Random(1)
  pool = Pool()
  groups = collections.defaultdict(list)
  tot = collections.Counter()
  try:
    for b in range(lo, hi):
      t0 = time.time()
      s1, d1, _ = run_inputs(pool, pool_batch(b), rng, 150, known, drv)
      tot.update(s1["verdicts"])
      for d in d1:
        key = d["kind"]
        if isinstance(d.get("detail"), dict) and d["detail"].get("identity"):
          key += " " + " ".join(str(x) for x in d["detail"]["identity"])
        d["batch"] = b
        groups[key].append(d)
      print("batch", b, json.dumps(s1["verdicts"]), round(time.time() - t0, 1), "groups so far:", sorted(groups), flush=True)
  finally:
    pool.close()
  out = os.path.join(WORK, "sweep-pool-%d-%d.json" % (lo, hi))
  with open(out, "w") as fh:
    json.dump({k: [{"label": x.get("label"), "batch": x.get("batch"), "detail": x.get("detail"),
                    "source": x.get("source"), "real": x.get("real"), "model": x.get("model"),
                    "nofail": x.get("nofail"), "check": x.get("check")} for x in v[:6]] for k, v in groups.items()},
              fh, indent=1, default=str)
  print("total", dict(tot))
  for k, v in sorted(groups.items(), key=lambda kv: -len(kv[1])):
    x = min(v, key=lambda y: len(y.get("source") or ""))
    print("GROUP %-70s n=%d smallest=%d chars batches=%s" % (k, len(v), len(x.get("source") or ""),
                                                              sorted({y["batch"] for y in v})))
  print("written", out)


def one(argv):
  prepare()
  src = read_text(argv[0])
  nofail = bool(int(argv[1])) if len(argv) > 1 else False
  check = bool(int(argv[2])) if len(argv) > 2 else False
  real_stdout = sys.stdout
  sys.stdout = open(os.devnull, "w")
  import logging
  logging.disable(logging.CRITICAL)
  rec = analyse(src, nofail, check, tag="one")
  sys.stdout = real_stdout
  print(json.dumps(rec, default=str))


def main():
  if len(sys.argv) > 1 and sys.argv[1] == "one":
    return one(sys.argv[2:])
  want = "0"
  if os.environ.get("PYTHONHASHSEED") != want:
    # set/dict iteration order inside pytype depends on str hashing: fixed, so that a run is reproducible (fresh-
    # process confirmations inherit it) and the pool sweep predicts exactly what a check run sees (the hash-seed
    # dimension belongs to C04)
    os.environ["PYTHONHASHSEED"] = want
    os.execv(sys.executable, [sys.executable, "-m", "harness.c15"] + sys.argv[1:])
  if len(sys.argv) > 1 and sys.argv[1] == "sweep":
    return sweep(sys.argv[2:])
  if len(sys.argv) > 1 and sys.argv[1] == "sweep-pool":
    return sweep_pool(sys.argv[2:])
  prepare()
  return common.run_check(
      "C15", REQUIRED, correspond, witnesses, search, extra_targets=["drv_c15"],
      trusted=["hand-written model of io.check_or_generate_pyi's except-chain, CompileError.__init__, Error.__init__ "
               "(`line or 0`); tied by exhaustive injection of every exception kind x nofail x check",
               "translate/opcode_dispatch.py (AST of opcodes.py / vm.py / tracer_vm.py + the installed pycnite.mapping); "
               "its output is cross-checked in K against the imported classes",
               "CPython's own compile() as the oracle for the compiler-error line",
               "stage attribution by wrapping module-level entry points in the harness process (no hook in /repo)"],
      assumptions=["The theorem covers the shell (outcome classifier, compile-error line mapping) and the dispatch table "
                   "only. That no exception escapes the VM for *every* program is NOT proved: it is explored by testing "
                   "(generated programs, mutants, stdlib corpus) and holds only for the programs explored, modulo the "
                   "listed known findings.",
                   "typeshed/ is empty in this sandbox: an initialised-but-empty TYPESHED_HOME is used, imports resolve "
                   "to import-error entries; crashes inside overlay construction for a module whose backing stub is "
                   "missing (collections.abc, typing_extensions) are counted as environment artefacts, not defects",
                   "a per-case timeout is not a violation (counted in distribution.timeouts); each testing phase has a "
                   "wall-clock budget, cases not started within it are counted in distribution.skipped_by_budget",
                   "python_version = host version 3.12: compile happens in-process (compile_bytecode), not via python_exe"])


if __name__ == "__main__":
  sys.exit(main())
