"""Runs the registered check of each seeded change (seeded/<id>/{patch.diff,meta.json}) against a scratch
worktree of /repo with the patch applied (PYTYPE_REPO), and reports whether it was detected.

usage: /venv/bin/python -m harness.seeded [id ...]    (run from /verif)
"""
import json
import os
import subprocess
import sys
import time

VERIF = os.path.dirname(os.path.dirname(os.path.abspath(__file__)))


def run_one(sid):
  d = os.path.join(VERIF, "seeded", sid)
  meta = json.load(open(os.path.join(d, "meta.json")))
  prop = meta["property"]
  wt = "/tmp/seedwt/%s" % sid
  subprocess.call(["git", "-C", "/repo", "worktree", "remove", "--force", wt], stderr=subprocess.DEVNULL)
  os.makedirs("/tmp/seedwt", exist_ok=True)
  subprocess.check_call(["git", "-C", "/repo", "worktree", "add", "--detach", wt, "HEAD"],
                        stdout=subprocess.DEVNULL, stderr=subprocess.DEVNULL)
  try:
    subprocess.check_call(["git", "-C", wt, "apply", os.path.join(d, "patch.diff")])
    env = dict(os.environ, PYTYPE_REPO=wt)
    t0 = time.time()
    r = subprocess.run(["./check", prop, "--tier", os.environ.get("VERIF_TIER", "quick")], cwd=VERIF, env=env,
                       stdout=subprocess.PIPE, stderr=subprocess.STDOUT, text=True, timeout=3600)
    lines = [l for l in r.stdout.splitlines() if l.startswith(("VIOLATION", "KNOWN-FINDING", "OK"))]
    return {"id": sid, "property": prop, "exit": r.returncode, "wall_s": round(time.time() - t0, 1),
            "lines": lines[:4], "detected": r.returncode == 1 and any(l.startswith("VIOLATION") for l in lines),
            "with_input": any(l.startswith("VIOLATION") and "no-failing-input-found" not in l for l in lines)}
  finally:
    subprocess.call(["git", "-C", "/repo", "worktree", "remove", "--force", wt], stderr=subprocess.DEVNULL)


def main():
  ids = sys.argv[1:] or sorted(os.listdir(os.path.join(VERIF, "seeded")))
  out = []
  for sid in ids:
    if not os.path.exists(os.path.join(VERIF, "seeded", sid, "patch.diff")):
      continue
    try:
      res = run_one(sid)
    except Exception as e:  # pylint: disable=broad-except
      res = {"id": sid, "error": repr(e)}
    print(json.dumps(res))
    out.append(res)
  return 0


if __name__ == "__main__":
  sys.exit(main())
