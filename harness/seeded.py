"""Runs the registered check of each seeded change (seeded/<id>/{patch.diff,meta.json}) against a scratch
worktree of /repo with the patch applied (PYTYPE_REPO), and reports whether it was detected.

usage: /venv/bin/python -m harness.seeded [id ...]    (run from /verif)
"""
import json
import os
import subprocess
import sys
import time

VERIF = os.path.dirname(os.path.dirname(os.path.abspath(__file__)))


def run_one(sid):
  d = os.path.join(VERIF, "seeded", sid)
  meta = json.load(open(os.path.join(d, "meta.json")))
  prop = meta["property"]
  wt = "/tmp/seedwt/%s" % sid
  subprocess.call(["git", "-C", "/repo", "worktree", "remove", "--force", wt], stderr=subprocess.DEVNULL)
  os.makedirs("/tmp/seedwt", exist_ok=True)
  subprocess.check_call(["git", "-C", "/repo", "worktree", "add", "--detach", wt, "HEAD"],
                        stdout=subprocess.DEVNULL, stderr=subprocess.DEVNULL)
  try:
    subprocess.check_call(["git", "-C", wt, "apply", os.path.join(d, "patch.diff")])
    # private copy of the Lean workspace (sources + build output): the regenerated tables and rebuilt proofs of
    # this run never touch /verif/lean, so seeded runs can go in parallel with each other and with real checks
    lean = os.path.join(VERIF, "build", "lean-seeded-%s" % sid)
    rc = subprocess.call(["rsync", "-a", "--delete", os.path.join(VERIF, "lean") + "/", lean + "/"],
                         stderr=subprocess.DEVNULL)
    if rc not in (0, 24):     # 24: files vanished while copying (a build was running in /verif/lean): lake rebuilds them
      raise RuntimeError("rsync of the Lean workspace failed: %d" % rc)
    env = dict(os.environ, PYTYPE_REPO=wt, VERIF_LEAN_DIR=lean)
    t0 = time.time()
    r = subprocess.run(["./check", prop, "--tier", os.environ.get("VERIF_TIER", "quick")], cwd=VERIF, env=env,
                       stdout=subprocess.PIPE, stderr=subprocess.STDOUT, text=True, timeout=3600)
    lines = [l for l in r.stdout.splitlines() if l.startswith(("VIOLATION", "KNOWN-FINDING", "OK"))]
    return {"id": sid, "property": prop, "exit": r.returncode, "wall_s": round(time.time() - t0, 1),
            "lines": lines[:4], "detected": r.returncode == 1 and any(l.startswith("VIOLATION") for l in lines),
            "with_input": any(l.startswith("VIOLATION") and "no-failing-input-found" not in l for l in lines)}
  finally:
    subprocess.call(["git", "-C", "/repo", "worktree", "remove", "--force", wt], stderr=subprocess.DEVNULL)
    subprocess.call(["rm", "-rf", os.path.join(VERIF, "build", "lean-seeded-%s" % sid),
                     os.path.join(VERIF, "build", "lean-seeded-%s.lock" % sid)])


def main():
  """ids...  [-j N]: changes of different properties run in parallel (N groups at a time); changes of one
  property run one after the other (they share build/<prop> scratch and replay names)."""
  argv = sys.argv[1:]
  jobs = 1
  if "-j" in argv:
    i = argv.index("-j")
    jobs = int(argv[i + 1])
    del argv[i:i + 2]
  ids = argv or sorted(os.listdir(os.path.join(VERIF, "seeded")))
  ids = [s for s in ids if os.path.exists(os.path.join(VERIF, "seeded", s, "patch.diff"))]
  groups = {}
  for sid in ids:
    groups.setdefault(sid.split("-")[0], []).append(sid)

  def run_group(g):
    out = []
    for sid in g:
      try:
        res = run_one(sid)
      except Exception as e:  # pylint: disable=broad-except
        res = {"id": sid, "error": repr(e)}
      print(json.dumps(res), flush=True)
      out.append(res)
    return out
  import concurrent.futures  # pylint: disable=import-outside-toplevel
  with concurrent.futures.ThreadPoolExecutor(max_workers=jobs) as ex:
    results = [r for rs in ex.map(run_group, groups.values()) for r in rs]
  for name in ("seeded-results.json", "seeded-results-%d.json" % int(time.time())):
    with open(os.path.join(VERIF, "build", name), "w") as fh:
      json.dump(results, fh, indent=1)
  missed = [r["id"] for r in results if not r.get("detected")]
  print("seeded: %d run, %d detected, missed: %s" % (len(results), len(results) - len(missed), missed))
  return 0


if __name__ == "__main__":
  sys.exit(main())
