"""Writes the 'which check catches which seeded change' table of DESIGN.md (between the SEEDED-TABLE markers) from
build/seeded-results*.json (the last result per id wins).   usage: /venv/bin/python -m harness.seeded_table"""
import glob
import json
import os
import re

VERIF = os.path.dirname(os.path.dirname(os.path.abspath(__file__)))


def main():
  res = {}
  files = sorted(glob.glob(os.path.join(VERIF, "build", "seeded-results*.json")), key=os.path.getmtime)
  for f in files:
    for r in json.load(open(f)):
      if "id" in r:
        res[r["id"]] = r
  rows = []
  for sid in sorted(os.listdir(os.path.join(VERIF, "seeded"))):
    mp = os.path.join(VERIF, "seeded", sid, "meta.json")
    if not os.path.exists(mp):
      continue
    m = json.load(open(mp))
    r = res.get(sid)
    summ = re.sub(r"\s+", " ", m.get("summary", ""))[:170].replace("|", "/")
    if r is None:
      out = "not run"
    elif r.get("error"):
      out = "runner error"
    elif r.get("detected"):
      out = "**caught**" + (", failing input in the replay" if r.get("with_input") else ", no-failing-input-found")
    else:
      out = "missed"
    rows.append("| %s | %s | %s | %s |" % (sid, m.get("property", "?"), summ, out))
  n = len(rows)
  caught = sum(1 for x in rows if "**caught**" in x)
  table = ["| change | property | what it does (abridged) | `./check <property> --tier quick`, seed 0 |", "|---|---|---|---|"] + rows
  table.append("")
  table.append("%d of %d seeded changes are caught by the registered quick check of their property." % (caught, n))
  p = os.path.join(VERIF, "DESIGN.md")
  s = open(p).read()
  a, b = "<!-- SEEDED-TABLE-BEGIN -->", "<!-- SEEDED-TABLE-END -->"
  block = a + "\n" + "\n".join(table) + "\n" + b
  if a in s and b in s:
    s = s[:s.index(a)] + block + s[s.index(b) + len(b):]
  else:
    s = s.rstrip("\n") + "\n\n" + block + "\n"
  open(p, "w").write(s)
  print("seeded table: %d rows, %d caught" % (n, caught))


if __name__ == "__main__":
  main()
