"""C05 generators: (a) pytd units in the dialect pytype emits, built independently of any program;
(b) small Python programs (builtins + typing only) whose inferred stubs are checked.

All randomness comes from the `rng` passed in.
"""

BUILTIN_SCALARS = ["int", "str", "float", "bool", "bytes", "complex", "object", "NoneType", "bytearray",
                   "memoryview"]
TYPING_PLAIN = ["Sequence", "Iterator", "Iterable", "Mapping", "Generator", "Hashable", "Sized"]
CLASS_NAMES = ["A", "B", "C", "Node", "K0", "Base"]
NESTED_NAMES = ["In", "Inner", "N1"]
FUNC_NAMES = ["f", "g", "h", "run", "make", "get_x"]
METH_NAMES = ["m", "n", "meth", "get", "put", "__init__", "__new__", "__eq__", "__init_subclass__", "size"]
CONST_NAMES = ["x", "y", "z", "count", "NAME", "v1"]
PARAM_NAMES = ["a", "b", "c", "d", "e", "k", "v", "key", "val"]
TVAR_NAMES = ["T", "S", "_T0", "_T1", "KT"]
ALIAS_NAMES = ["Al", "MyInt", "Vec"]
ODD_NAMES = ["Optional", "Union", "Any", "Literal", "Callable", "List", "Tuple", "float", "int", "type", "tuple",
             "self", "cls", "Final", "Never", "TypeVar", "property", "overload", "nothing", "Concatenate1"]


class UnitGen:
  """Builds pytd.TypeDeclUnit objects.  `wild` in [0,1] is the probability of leaving the core dialect
  (name collisions, alias references, plain properties, ill-ordered defaults, …)."""

  def __init__(self, pytd, rng, wild=0.1):
    self.pytd = pytd
    self.rng = rng
    self.wild = wild
    self.classes = []       # top-level class names available for references
    self.nested = {}        # class name -> nested class names
    self.tvars = []         # declared type variable names
    self.used_tvars = set()
    self.aliases = []

  # -- helpers -------------------------------------------------------------
  def p(self, x):
    return self.rng.random() < x

  def odd(self):
    return self.p(self.wild)

  def named(self, name):
    return self.pytd.ClassType(name) if self.p(0.6) else self.pytd.NamedType(name)

  def builtin(self, name):
    r = self.rng.random()
    if r < 0.7:
      return self.pytd.ClassType("builtins." + name)
    if r < 0.85:
      return self.pytd.NamedType("builtins." + name)
    return self.pytd.NamedType(name)

  def tvar(self, scope_hint=None):
    name = self.rng.choice(self.tvars) if self.tvars and not self.odd() else self.rng.choice(TVAR_NAMES)
    self.used_tvars.add(name)
    scope = self.rng.choice([None, scope_hint, "mod.f"]) if scope_hint else self.rng.choice([None, "f"])
    return self.pytd.TypeParameter(name=name, scope=scope)

  def lit(self):
    pytd = self.pytd
    r = self.rng.random()
    if r < 0.4:
      return pytd.Literal(self.rng.choice([0, 1, 2, 7, -1, -35, 100]))
    if r < 0.75:
      return pytd.Literal(repr(self.rng.choice(["a", "b", "xy", "k 1", "A.b", "", "q-r"])))
    if r < 0.92:
      b = self.p(0.5)
      if self.p(0.5):
        return pytd.Literal(b)
      return pytd.Literal(pytd.Constant(name="builtins.True" if b else "builtins.False",
                                        type=pytd.ClassType("builtins.bool")))
    cls = self.rng.choice(self.classes or ["Color"])
    return pytd.Literal(pytd.Constant(name=cls + "." + self.rng.choice(["RED", "B"]), type=self.named(cls)))

  def class_ref(self):
    if not self.classes or self.odd():
      return self.named(self.rng.choice(CLASS_NAMES))
    c = self.rng.choice(self.classes)
    if self.nested.get(c) and self.p(0.3):
      return self.named(c + "." + self.rng.choice(self.nested[c]))
    return self.named(c)

  def leaf(self, ctx):
    pytd = self.pytd
    r = self.rng.random()
    if r < 0.45:
      return self.builtin(self.rng.choice(BUILTIN_SCALARS))
    if r < 0.62:
      return self.class_ref()
    if r < 0.72:
      return pytd.AnythingType()
    if r < 0.84:
      return self.tvar(ctx)
    if r < 0.90:
      return self.named("typing." + self.rng.choice(TYPING_PLAIN + ["Never", "Callable", "Generic"]))
    if r < 0.93:
      return pytd.NothingType()
    if r < 0.96 and self.aliases and self.odd():
      return pytd.NamedType(self.rng.choice(self.aliases))
    if self.odd():
      return pytd.NamedType(self.rng.choice(ODD_NAMES + ["typing.List", "typing.Any", "typing.Optional", "foo.Bar",
                                                        "typing.Tuple", "None"]))
    return self.lit()

  def ty(self, depth=2, ctx=None):
    pytd = self.pytd
    if depth <= 0 or self.p(0.35):
      return self.leaf(ctx)
    sub = lambda: self.ty(depth - 1, ctx)
    r = self.rng.random()
    if r < 0.22:   # builtin containers
      base = self.rng.choice(["list", "set", "frozenset", "dict"])
      n = 2 if base == "dict" else 1
      if self.odd():
        n = self.rng.choice([1, 2, 3])
      return pytd.GenericType(self.builtin(base), tuple(sub() for _ in range(n)))
    if r < 0.30:   # homogeneous tuple
      n = 1 if not self.odd() else self.rng.choice([2, 3])
      return pytd.GenericType(self.builtin("tuple"), tuple(sub() for _ in range(n)))
    if r < 0.40:   # heterogeneous tuple
      return pytd.TupleType(self.builtin("tuple"), tuple(sub() for _ in range(self.rng.choice([0, 1, 2, 2, 3]))))
    if r < 0.50:   # callable with argument list
      n = self.rng.choice([0, 1, 2, 3])
      return pytd.CallableType(self.named("typing.Callable"), tuple(sub() for _ in range(n + 1)))
    if r < 0.55:   # Callable[..., R]
      first = pytd.AnythingType() if not self.odd() else self.rng.choice([pytd.NothingType(), self.tvar(ctx)])
      return pytd.GenericType(self.named("typing.Callable"), (first, sub()))
    if r < 0.62:   # type[X]
      n = 1 if not self.odd() else 2
      return pytd.GenericType(self.builtin("type"), tuple(sub() for _ in range(n)))
    if r < 0.70:   # user generic
      return pytd.GenericType(self.class_ref(), tuple(sub() for _ in range(self.rng.choice([1, 1, 2]))))
    if r < 0.76:   # typing generic
      base = self.rng.choice(TYPING_PLAIN + (["Generic", "Protocol", "List", "Tuple", "Type"] if self.odd() else []))
      return pytd.GenericType(self.named("typing." + base), tuple(sub() for _ in range(self.rng.choice([1, 1, 2, 3]))))
    if r < 0.97:   # union
      n = self.rng.choice([1, 2, 2, 3, 3, 4])
      members = []
      for _ in range(n):
        q = self.rng.random()
        if q < 0.25:
          members.append(self.builtin("NoneType"))
        elif q < 0.45:
          members.append(self.lit())
        elif q < 0.60:
          members.append(self.builtin(self.rng.choice(["int", "float", "complex", "bytes", "bytearray", "memoryview"])))
        else:
          members.append(sub())
      return pytd.UnionType(tuple(members))
    if self.p(0.8):
      return pytd.Annotated(sub(), ("'property'",) if not self.odd() else self.rng.choice(
          [("'property'", "'x'"), ("'a b'",), ("{'tag': 'x'}",)]))
    return self.leaf(ctx)

  # -- declarations ----------------------------------------------------------
  def param(self, name, kind, optional, cls_path=None, ctx=None):
    pytd = self.pytd
    t = self.ty(2, ctx)
    if self.p(0.25):
      t = pytd.AnythingType()
    mut = None
    if self.odd() and self.p(0.3):
      mut = self.ty(1, ctx)
    return pytd.Parameter(name, t, kind, optional, mut)

  def signature(self, cls_path=None, kind=None, fname="f", generic_args=()):
    pytd = self.pytd
    K = pytd.ParameterKind
    names = list(PARAM_NAMES)
    self.rng.shuffle(names)
    npo = self.rng.choice([0, 0, 0, 1, 2])
    nre = self.rng.choice([0, 1, 1, 2, 3])
    nkw = self.rng.choice([0, 0, 0, 1, 2])
    params = []
    ctx = ".".join(cls_path) + "." + fname if cls_path else fname
    seen_default = False
    first = None
    if cls_path and kind != pytd.MethodKind.STATICMETHOD and not (self.odd() and self.p(0.3)):
      joined = ".".join(cls_path)
      r = self.rng.random()
      cname = joined if r < 0.7 else cls_path[-1]
      if kind == pytd.MethodKind.CLASSMETHOD or fname in ("__init_subclass__",):
        inner = self.named(cname)
        if generic_args and self.p(0.5):
          inner = pytd.GenericType(inner, tuple(generic_args))
        t = pytd.GenericType(self.builtin("type"), (inner,))
        if self.p(0.15):
          t = pytd.AnythingType()
        first = pytd.Parameter("cls", t, K.REGULAR, False, None)
      else:
        t = self.named(cname)
        if generic_args and self.p(0.5):
          t = pytd.GenericType(t, tuple(generic_args))
        if self.p(0.15):
          t = pytd.AnythingType()
        if self.odd() and self.p(0.3):
          t = self.ty(1, ctx)
        first = pytd.Parameter("self", t, K.REGULAR, False, None)
    if kind == pytd.MethodKind.PROPERTY and not self.odd():
      npo = nre = nkw = 0
    if first is not None:
      params.append(first.Replace(kind=K.POSONLY) if npo and self.p(0.7) else first)
      if npo and params[0].kind != K.POSONLY:
        npo = 0
    for i in range(npo):
      opt = seen_default or self.p(0.3)
      if self.odd() and self.p(0.3):
        opt = self.p(0.5)
      seen_default = seen_default or opt
      params.append(self.param(names.pop(), K.POSONLY, opt, cls_path, ctx))
    for i in range(nre):
      opt = seen_default or self.p(0.3)
      if self.odd() and self.p(0.3):
        opt = self.p(0.5)
      seen_default = seen_default or opt
      params.append(self.param(names.pop(), K.REGULAR, opt, cls_path, ctx))
    for i in range(nkw):
      params.append(self.param(names.pop(), K.KWONLY, self.p(0.5), cls_path, ctx))
    if self.odd() and self.p(0.2) and len(params) >= 2:
      self.rng.shuffle(params)
    if self.odd() and self.p(0.2) and params:
      params.append(params[0])
    star = starstar = None
    if self.p(0.3):
      r = self.rng.random()
      if r < 0.5:
        t = pytd.GenericType(self.builtin("tuple"), (self.ty(1, ctx) if self.p(0.6) else pytd.AnythingType(),))
      elif r < 0.9 or not self.odd():
        t = self.builtin("tuple")
      else:
        t = self.rng.choice([pytd.AnythingType(), pytd.TupleType(self.builtin("tuple"), (self.ty(1, ctx),))])
      star = pytd.Parameter("args", t, K.REGULAR, self.p(0.8), None)
    if self.p(0.3):
      r = self.rng.random()
      if r < 0.5:
        t = pytd.GenericType(self.builtin("dict"), (self.builtin("str"),
                                                   self.ty(1, ctx) if self.p(0.6) else pytd.AnythingType()))
      elif r < 0.9 or not self.odd():
        t = self.builtin("dict")
      else:
        t = pytd.GenericType(self.builtin("dict"), (pytd.AnythingType(), pytd.AnythingType()))
      starstar = pytd.Parameter("kwargs", t, K.REGULAR, self.p(0.8), None)
    ret = self.ty(2, ctx)
    if fname == "__init__" and not self.odd():
      ret = self.builtin("NoneType")
    elif self.p(0.08):
      ret = pytd.NothingType()
    exceptions = ()
    if self.odd() and self.p(0.2):
      exceptions = (self.named("ValueError"),)
    template = ()
    return pytd.Signature(tuple(params), star, starstar, ret, exceptions, template)

  def function(self, name, cls_path=None, generic_args=()):
    pytd = self.pytd
    MK = pytd.MethodKind
    kind = MK.METHOD
    if cls_path:
      r = self.rng.random()
      if name == "__new__" and not self.odd():
        kind = MK.STATICMETHOD
      elif name == "__init_subclass__" and not self.odd():
        kind = MK.CLASSMETHOD
      elif name.startswith("__") and not self.odd():
        kind = MK.METHOD
      elif r < 0.15:
        kind = MK.STATICMETHOD
      elif r < 0.30:
        kind = MK.CLASSMETHOD
      elif r < 0.40:
        kind = MK.PROPERTY
    elif self.odd() and self.p(0.2):
      kind = self.rng.choice([MK.STATICMETHOD, MK.PROPERTY, MK.CLASSMETHOD])
    nsig = 1 if self.p(0.75) or (kind == MK.PROPERTY and not self.odd()) else self.rng.choice([2, 2, 3])
    sigs = tuple(self.signature(cls_path, kind, name, generic_args) for _ in range(nsig))
    if kind == MK.PROPERTY and not self.odd():
      # the emitted form of a property method: its type mentions a type parameter
      tv = self.tvar(".".join(cls_path) if cls_path else None)
      sigs = tuple(s.Replace(return_type=self.rng.choice(
          [tv, pytd.GenericType(self.builtin("list"), (tv,))])) for s in sigs)
    flags = pytd.MethodFlag.NONE
    if self.p(0.06):
      flags |= pytd.MethodFlag.ABSTRACT
    if self.p(0.04):
      flags |= pytd.MethodFlag.COROUTINE
    if self.p(0.05):
      flags |= pytd.MethodFlag.FINAL
    decorators = ()
    if self.odd() and self.p(0.2):
      decorators = (pytd.Alias("deco", pytd.NamedType("deco")),)
    return pytd.Function(name, sigs, kind, flags, decorators)

  def constant(self, name):
    pytd = self.pytd
    t = self.ty(2)
    if self.p(0.08):
      t = pytd.Annotated(self.ty(1), ("'property'",))
    return pytd.Constant(name, t, pytd.AnythingType() if self.p(0.15) else None)

  def klass(self, name, path=(), depth=0):
    pytd = self.pytd
    cls_path = list(path) + [name]
    bases = []
    generic_args = ()
    r = self.rng.random()
    if r < 0.35:
      bases = [self.builtin("object")]
    elif r < 0.45:
      bases = []
    else:
      for _ in range(self.rng.choice([1, 1, 2])):
        q = self.rng.random()
        if q < 0.35 and self.classes:
          bases.append(self.named(self.rng.choice(self.classes)))
        elif q < 0.6:
          tv = tuple(self.tvar(".".join(cls_path)) for _ in range(self.rng.choice([1, 1, 2])))
          bases.append(pytd.GenericType(self.named("typing.Generic"), tv))
          generic_args = tv
        elif q < 0.8:
          bases.append(self.ty(1, ".".join(cls_path)))
        else:
          bases.append(self.builtin(self.rng.choice(["object", "int", "Exception", "dict"])))
    if self.odd() and self.p(0.3):
      bases.append(pytd.NothingType())
    nested = []
    if depth < 2 and self.p(0.3):
      nn = list(NESTED_NAMES)
      self.rng.shuffle(nn)
      for n in nn[:self.rng.choice([1, 1, 2])]:
        nested.append(self.klass(n, cls_path, depth + 1))
    mnames = list(METH_NAMES)
    self.rng.shuffle(mnames)
    methods = [self.function(n, cls_path, generic_args) for n in mnames[:self.rng.choice([0, 1, 2, 3])]]
    cnames = list(CONST_NAMES)
    self.rng.shuffle(cnames)
    constants = [self.constant(n) for n in cnames[:self.rng.choice([0, 0, 1, 2])]]
    if self.odd() and self.p(0.3) and methods:
      constants.append(self.constant(methods[0].name))
    slots = None
    if self.p(0.08):
      slots = tuple(self.rng.sample(["a", "b", "_c", "x"], self.rng.choice([0, 1, 2])))
    template = tuple(pytd.TemplateItem(t) for t in generic_args)
    decorators = ()
    if self.odd() and self.p(0.15):
      decorators = (pytd.Alias("final", pytd.NamedType("typing.final")),)
    keywords = ()
    if self.odd() and self.p(0.1):
      keywords = (("metaclass", self.named("Meta")),)
    return pytd.Class(name=name, keywords=keywords, bases=tuple(bases), methods=tuple(methods),
                      constants=tuple(constants), classes=tuple(nested), decorators=decorators, slots=slots,
                      template=template)

  def unit(self, stage=None):
    """stage: 1 constants only, 2 + functions, 3 + classes, 4 + type variables/aliases, None = mixed."""
    pytd = self.pytd
    rng = self.rng
    if stage is None:
      stage = rng.choice([1, 2, 3, 4, 4, 4])
    self.classes, self.nested, self.tvars, self.used_tvars, self.aliases = [], {}, [], set(), []
    if stage >= 4 or self.p(0.2):
      tv = list(TVAR_NAMES)
      rng.shuffle(tv)
      self.tvars = tv[:rng.choice([0, 1, 2, 3])]
    class_nodes = []
    if stage >= 3:
      cn = list(CLASS_NAMES)
      rng.shuffle(cn)
      names = cn[:rng.choice([1, 1, 2, 3])]
      if self.odd() and self.p(0.3):
        names.append(rng.choice(ODD_NAMES))
      for n in names:
        c = self.klass(n)
        class_nodes.append(c)
        self.classes.append(n)
        self.nested[n] = [k.name for k in c.classes]
    alias_nodes = []
    if stage >= 4 and self.p(0.4):
      an = list(ALIAS_NAMES)
      rng.shuffle(an)
      for n in an[:rng.choice([1, 2])]:
        t = self.ty(1)
        if isinstance(t, (pytd.ClassType, pytd.NamedType)) and "." in t.name and not self.odd():
          t = pytd.NamedType(t.name.rsplit(".", 1)[1])
        alias_nodes.append(pytd.Alias(n, t))
        self.aliases.append(n)
    cn = list(CONST_NAMES)
    rng.shuffle(cn)
    constants = [self.constant(n) for n in cn[:rng.choice([1, 2, 3] if stage == 1 else [0, 1, 2])]]
    functions = []
    if stage >= 2:
      fn = list(FUNC_NAMES)
      rng.shuffle(fn)
      functions = [self.function(n) for n in fn[:rng.choice([1, 2, 3] if stage == 2 else [0, 1, 2])]]
      if self.odd() and self.p(0.2) and functions:
        functions.append(self.function(functions[0].name))
    # declare the type variables that were used (as pytype does), sometimes with constraints or a bound
    declared = set(self.tvars) | (self.used_tvars if not (self.odd() and self.p(0.3)) else set())
    if stage < 4 and not self.p(0.5):
      pass
    tps = []
    for n in sorted(declared) if self.p(0.8) else sorted(declared, reverse=True):
      r = rng.random()
      cons, bound = (), None
      if r < 0.15:
        cons = tuple(self.builtin(x) for x in rng.sample(["int", "str", "bytes", "float"], 2))
      elif r < 0.3:
        bound = self.builtin(rng.choice(["int", "str", "object"])) if self.p(0.7) else self.ty(1)
      tps.append(pytd.TypeParameter(name=n, constraints=cons, bound=bound, scope=None))
    return pytd.TypeDeclUnit(name=rng.choice(["foo", "inferred + unknowns", "m"]), constants=tuple(constants),
                             type_params=tuple(tps), classes=tuple(class_nodes), functions=tuple(functions),
                             aliases=tuple(alias_nodes))


# ----------------------------------------------------------------------------
# (b) programs
# ----------------------------------------------------------------------------
ANN_ATOMS = ["int", "str", "float", "bool", "bytes", "None", "object", "complex"]


class ProgGen:
  """Small Python programs exercising what ends up in a stub."""

  def __init__(self, rng):
    self.rng = rng
    self.classes = []
    self.tvars = []

  def p(self, x):
    return self.rng.random() < x

  def ann(self, depth=2):
    rng = self.rng
    if depth <= 0 or self.p(0.4):
      r = rng.random()
      if r < 0.7 or not self.classes:
        return rng.choice(ANN_ATOMS)
      if r < 0.9:
        return rng.choice(self.classes)
      return rng.choice(self.tvars) if self.tvars else "int"
    sub = lambda: self.ann(depth - 1)
    r = rng.random()
    if r < 0.15:
      return "List[%s]" % sub()
    if r < 0.25:
      return "Dict[str, %s]" % sub()
    if r < 0.35:
      return "Optional[%s]" % sub()
    if r < 0.50:
      return "Union[%s]" % ", ".join(sub() for _ in range(rng.choice([2, 3])))
    if r < 0.60:
      return "Callable[[%s], %s]" % (", ".join(sub() for _ in range(rng.choice([0, 1, 2]))), sub())
    if r < 0.65:
      return "Callable[..., %s]" % sub()
    if r < 0.73:
      return "Tuple[%s, ...]" % sub()
    if r < 0.83:
      return "Tuple[%s]" % ", ".join(sub() for _ in range(rng.choice([1, 2, 3])))
    if r < 0.90:
      return "Literal[%s]" % ", ".join(rng.sample(["1", "2", "'a'", "'b'", "True", "-3"], rng.choice([1, 2])))
    if r < 0.95 and self.classes:
      return "Type[%s]" % rng.choice(self.classes)
    return "Set[%s]" % sub()

  def value(self):
    return self.rng.choice(["1", "'s'", "1.5", "None", "[]", "(1, 'a')", "{}", "{'a': 1}", "True", "b'x'", "()",
                            "[1, 'a']", "lambda q: q", "(1, 2, 3)", "{1, 2}"])

  def params(self, method=None):
    rng = self.rng
    names = ["a", "b", "c", "d", "e", "k"]
    rng.shuffle(names)
    parts = []
    if method == "self":
      parts.append("self")
    elif method == "cls":
      parts.append("cls")
    npo = rng.choice([0, 0, 0, 1])
    nre = rng.choice([0, 1, 2, 3])
    seen = False
    for i in range(npo + nre):
      n = names.pop()
      s = n
      if self.p(0.6):
        s += ": " + self.ann()
      if seen or self.p(0.3):
        s += " = " + rng.choice(["None", "1", "'x'", "()", "..."])
        seen = True
      parts.append(s)
      if i == npo - 1:
        parts.append("/")
    if self.p(0.25):
      parts.append("*args" + (": " + self.ann(1) if self.p(0.5) else ""))
      star = True
    else:
      star = False
    nkw = rng.choice([0, 0, 1, 2])
    if nkw and not star:
      parts.append("*")
    for i in range(nkw):
      n = names.pop()
      s = n + (": " + self.ann(1) if self.p(0.6) else "")
      if self.p(0.5):
        s += " = " + rng.choice(["None", "0"])
      parts.append(s)
    if self.p(0.2):
      parts.append("**kw" + (": " + self.ann(1) if self.p(0.5) else ""))
    return ", ".join(parts)

  def body(self, indent, ret_ann):
    rng = self.rng
    r = rng.random()
    if r < 0.3:
      return indent + "return " + self.value()
    if r < 0.4:
      return indent + "raise ValueError()"
    if r < 0.6:
      return indent + "pass"
    if r < 0.8:
      return indent + "if a if 'a' in dir() else 0:\n%s  return %s\n%sreturn %s" % (
          indent, self.value(), indent, self.value())
    return indent + "return " + rng.choice(["None", "0", "''"])

  def func(self, name, indent="", method=None, deco=None):
    ret = (" -> " + self.ann()) if self.p(0.5) else ""
    out = ""
    if deco:
      out += indent + "@" + deco + "\n"
    pre = "async " if self.p(0.05) and not deco else ""
    out += "%s%sdef %s(%s)%s:\n%s\n" % (indent, pre, name, self.params(method), ret, self.body(indent + "  ", ret))
    return out

  def overloaded(self, name, indent="", method=None):
    out = ""
    for a in self.rng.sample(["int", "str", "bytes", "float"], self.rng.choice([2, 3])):
      first = ("self, " if method == "self" else "")
      out += "%s@overload\n%sdef %s(%sx: %s) -> %s: ...\n" % (indent, indent, name, first, a, a)
    out += "%sdef %s(%sx):\n%s  return x\n" % (indent, name, "self, " if method == "self" else "", indent)
    return out

  def klass(self, name, indent="", depth=0):
    rng = self.rng
    bases = []
    generic = None
    if self.tvars and self.p(0.3):
      generic = rng.choice(self.tvars)
      bases.append("Generic[%s]" % generic)
    elif self.classes and self.p(0.3):
      bases.append(rng.choice(self.classes))
    elif self.p(0.15):
      bases.append(rng.choice(["object", "int", "Exception", "dict", "List[int]"]))
    out = "%sclass %s%s:\n" % (indent, name, "(%s)" % ", ".join(bases) if bases else "")
    ind = indent + "  "
    n = 0
    if self.p(0.4):
      out += "%s%s = %s\n" % (ind, rng.choice(["x", "y", "NAME"]), self.value())
      n += 1
    if self.p(0.3):
      out += "%s%s: %s\n" % (ind, rng.choice(["u", "v"]), self.ann())
      n += 1
    if self.p(0.5):
      if generic:
        out += "%sdef __init__(self, x: %s) -> None:\n%s  self.x = x\n" % (ind, generic, ind)
      else:
        out += "%sdef __init__(self%s) -> None:\n%s  self.val = %s\n" % (
            ind, ", q: " + self.ann(1) if self.p(0.5) else "", ind, self.value())
      n += 1
    for m in rng.sample(["m", "get", "put", "size"], rng.choice([0, 1, 2])):
      r = rng.random()
      if r < 0.15:
        out += self.func(m, ind, None, "staticmethod")
      elif r < 0.3:
        out += self.func(m, ind, "cls", "classmethod")
      elif r < 0.45:
        if generic and self.p(0.5):
          out += "%s@property\n%sdef %s(self) -> %s:\n%s  return self.x\n" % (ind, ind, m, generic, ind)
        else:
          out += "%s@property\n%sdef %s(self)%s:\n%s  return %s\n" % (
              ind, ind, m, " -> " + self.ann(1) if self.p(0.5) else "", ind, self.value())
      elif r < 0.55:
        out += self.overloaded(m, ind, "self")
      else:
        out += self.func(m, ind, "self")
      n += 1
    if depth < 1 and self.p(0.25):
      out += self.klass(rng.choice(["In", "Inner"]), ind, depth + 1)
      n += 1
    if self.p(getattr(self, "slots_p", 0.05)):
      # search stage only (dup_slots): CPython accepts a repeated slot name and pytype emits it; K's generator never draws it
      out += "%s__slots__ = %s\n" % (ind, "('a', 'b', 'a')" if getattr(self, "dup_slots", False) and self.p(0.5) else "('a', 'b')")
      n += 1
    if n == 0:
      out += ind + "pass\n"
    return out

  def program(self):
    rng = self.rng
    self.classes, self.tvars = [], []
    out = "from typing import Any, Callable, Dict, Generic, List, Literal, Optional, Set, Tuple, Type, TypeVar, Union, overload\n"
    if self.p(0.1):
      out += "import typing\n"
    for t in rng.sample(["T", "S", "KT"], rng.choice([0, 0, 1, 2])):
      r = rng.random()
      if r < 0.6:
        out += "%s = TypeVar('%s')\n" % (t, t)
      elif r < 0.8:
        out += "%s = TypeVar('%s', int, str)\n" % (t, t)
      else:
        out += "%s = TypeVar('%s', bound=int)\n" % (t, t)
      self.tvars.append(t)
    items = []
    cn = ["A", "B", "Node"]
    rng.shuffle(cn)
    for c in cn[:rng.choice([0, 1, 1, 2])]:
      items.append(("class", c))
    fn = ["f", "g", "h", "run"]
    rng.shuffle(fn)
    for f in fn[:rng.choice([0, 1, 2, 3])]:
      items.append(("func", f))
    for c in rng.sample(["x", "y", "z", "count"], rng.choice([0, 1, 2, 3])):
      items.append(("const", c))
    if self.p(0.15) :
      items.append(("alias", "Al"))
    rng.shuffle(items)
    for kind, n in items:
      if kind == "class":
        out += self.klass(n)
        self.classes.append(n)
      elif kind == "func":
        if self.p(0.15):
          out += self.overloaded(n)
        elif self.tvars and self.p(0.2):
          t = rng.choice(self.tvars)
          out += "def %s(x: %s, y: List[%s]) -> %s:\n  return x\n" % (n, t, t, t)
        else:
          out += self.func(n)
      elif kind == "const":
        if self.p(0.4):
          out += "%s: %s = %s\n" % (n, self.ann(), self.value())
        else:
          out += "%s = %s\n" % (n, self.value())
      else:
        out += "%s = %s\n" % (n, rng.choice(self.classes + ["int", "List[int]", "Optional[str]"]))
    return out


def signature_matrix_programs():
  """Deterministic family: every parameter-list shape — 0-2 positional-only x 0-2 regular x (*args | bare * | none)
  x 0-2 keyword-only x (**kwargs | none), defaults on a suffix of each group — as module-level functions and
  methods, 18 per program."""
  defs = []
  k = 0
  for npo in range(3):
    for nre in range(3):
      for star in ("", "*args", "*"):
        for nkw in range(3):
          if star == "*" and nkw == 0:
            continue
          if star == "" and nkw:
            continue
          for kw in (False, True):
            parts = []
            for i in range(npo):
              parts.append("p%d%s" % (i, " = 1" if (k + i) % 3 == 0 and i == npo - 1 and nre == 0 else ""))
            if npo:
              parts.append("/")
            for i in range(nre):
              parts.append("r%d%s" % (i, ": int = 2" if i == nre - 1 and k % 2 else ""))
            if star:
              parts.append(star)
            for i in range(nkw):
              parts.append("k%d%s" % (i, ": str = 's'" if (k + i) % 2 else ""))
            if kw:
              parts.append("**kw")
            k += 1
            defs.append(", ".join(parts))
  progs = []
  for i in range(0, len(defs), 18):
    out = ""
    for j, d in enumerate(defs[i:i + 18]):
      if j % 3 == 2:
        out += "class M%d:\n  def m(self%s):\n    return 0\n" % (i + j, (", " + d) if d else "")
      else:
        out += "def f%d(%s):\n  return 0\n" % (i + j, d)
    progs.append(out)
  return progs

