"""Program generator and token-level mutator for C15 (all randomness from the `rng` passed in).

gen_program(rng) -> source text exercising: loops (+else, break/continue), generators, async (def/for/with/
comprehensions), with/try/except/else/finally/except*, match statements, decorators, comprehensions,
star-expressions, walrus, f-strings, class hierarchies (super, properties, class/static methods, dunder
methods), lambdas, global/nonlocal, del, assert, chained comparisons, slices, augmented assignment,
annotations, PEP 695 generics/type aliases, imports of builtins/typing only (+ a few unresolvable imports).

The programs need not run correctly under CPython; they need to compile (checked by the caller).
mutate(rng, src) -> token-level mutant (deletion / insertion / swap / replacement / duplication).
"""
import io as _io
import keyword
import token as _token
import tokenize

BINOPS = ["+", "-", "*", "/", "//", "%", "**", "<<", ">>", "&", "|", "^", "@"]
CMPOPS = ["<", "<=", ">", ">=", "==", "!=", "is", "is not", "in", "not in"]
UNOPS = ["-", "+", "~", "not "]
AUGOPS = ["+=", "-=", "*=", "/=", "//=", "%=", "**=", "<<=", ">>=", "&=", "|=", "^=", "@="]
METHODS = ["upper()", "split()", "append(1)", "items()", "keys()", "get(0)", "pop()", "strip()", "copy()",
           "join([])", "format(1)", "encode()", "real", "imag", "__class__", "__dict__", "__doc__", "foo", "bar(1)"]
BUILTINS = ["len", "str", "int", "list", "dict", "set", "tuple", "sorted", "reversed", "enumerate", "zip", "map",
            "filter", "range", "iter", "next", "print", "isinstance", "getattr", "type", "repr", "sum", "min", "max",
            "abs", "bool", "float", "bytes", "frozenset", "any", "all", "id", "hash", "callable", "super", "object"]
ANNOTS = ["int", "str", "float", "bool", "bytes", "None", "list[int]", "dict[str, int]", "tuple[int, ...]",
          "set[str]", "typing.Any", "typing.Optional[int]", "typing.Union[int, str]", "typing.Callable[..., int]",
          "typing.List[str]", "typing.Iterator[int]", "'C0'", "int | None", "list", "type[int]",
          "typing.Sequence[int]", "typing.TypeVar", "object", "typing.Literal[1, 'a']", "typing.Final",
          "typing.ClassVar[int]", "tuple[()]", "typing.Generator[int, None, str]"]
EXCS = ["Exception", "ValueError", "TypeError", "KeyError", "(KeyError, IndexError)", "StopIteration", "OSError",
        "BaseException", "AttributeError"]


class Gen:
  def __init__(self, rng):
    self.r = rng
    self.vars = ["a", "b", "c", "d", "x", "y", "z", "xs", "ys", "d0", "s", "n"]
    self.funcs = []
    self.classes = []
    self.counter = 0

  # ---------------------------------------------------------------- helpers
  def fresh(self, prefix):
    self.counter += 1
    return "%s%d" % (prefix, self.counter)

  def var(self):
    return self.r.choice(self.vars)

  def pick(self, xs):
    return self.r.choice(xs)

  def chance(self, p):
    return self.r.random() < p

  # ------------------------------------------------------------ expressions
  def literal(self):
    r = self.r
    k = r.randrange(13)
    if k == 0:
      return str(r.choice([0, 1, 2, 3, 10, 255, -1, 10**20]))
    if k == 1:
      return r.choice(["1.5", "0.0", "1e10", "2j", "0x1f", "0b101", "1_000"])
    if k == 2:
      return r.choice(["'a'", '"bc"', "''", "'%s'", "'{}'", "r'\\d'", '"""doc"""', "'a' 'b'"])
    if k == 3:
      return r.choice(["b'x'", "b''", "rb'\\n'"])
    if k == 4:
      return r.choice(["None", "True", "False", "...", "NotImplemented", "__name__"])
    if k == 5:
      return r.choice(["[]", "()", "{}", "set()", "[1, 2]", "(1,)", "{'k': 1}", "{1, 2}", "[[1], [2]]", "(1, 'a', None)"])
    if k == 6:
      return self.fstring()
    return str(r.randrange(0, 5))

  def fstring(self, depth=0):
    r = self.r
    parts = []
    for _ in range(r.randrange(1, 4)):
      c = r.randrange(7)
      if c == 0:
        parts.append("txt")
      elif c == 1:
        parts.append("{%s}" % self.var())
      elif c == 2:
        parts.append("{%s!r}" % self.var())
      elif c == 3:
        parts.append("{%s:>{%s}}" % (self.var(), self.var()))
      elif c == 4:
        parts.append("{%s=}" % self.var())
      elif c == 5:
        parts.append("{%s + 1:.2f}" % self.var())
      else:
        parts.append("{{%s}}" % "lit")
    q = r.choice(["f'%s'", 'f"%s"', "rf'%s'", "f'''%s'''"])
    return q % "".join(parts)

  def atom(self):
    r = self.r
    k = r.randrange(10)
    if k < 4:
      return self.var()
    if k < 7:
      return self.literal()
    if k == 7 and self.funcs:
      return r.choice(self.funcs)
    if k == 8 and self.classes:
      return r.choice(self.classes)
    return r.choice(BUILTINS)

  def expr(self, d=0, ctx=None):
    r = self.r
    ctx = ctx or {}
    if d >= 3 or self.chance(0.25):
      return self.atom()
    k = r.randrange(30)
    e = lambda: self.expr(d + 1, ctx)  # noqa: E731
    if k == 0:
      return "%s %s %s" % (e(), r.choice(BINOPS), e())
    if k == 1:
      return "(%s %s %s)" % (e(), r.choice(BINOPS), e())
    if k == 2:
      return "%s%s" % (r.choice(UNOPS), self.atom())
    if k == 3:
      return "%s %s %s" % (e(), r.choice(["and", "or"]), e())
    if k == 4:  # chained comparison
      n = r.randrange(1, 4)
      s = self.atom()
      for _ in range(n):
        s += " %s %s" % (r.choice(CMPOPS), self.atom())
      return "(%s)" % s
    if k == 5:
      return "%s(%s)" % (self.callee(), self.args(d, ctx))
    if k == 6:
      return "%s.%s" % (self.atomp(), r.choice(METHODS))
    if k == 7:
      return "%s[%s]" % (self.atomp(), self.subscript(d, ctx))
    if k == 8:
      items = [("*" + self.star()) if self.chance(0.3) else e() for _ in range(r.randrange(0, 4))]
      return "[%s]" % ", ".join(items)
    if k == 9:
      items = [("*" + self.star()) if self.chance(0.3) else e() for _ in range(r.randrange(1, 4))]
      return "(%s,)" % ", ".join(items)
    if k == 10:
      items = [("**" + self.star()) if self.chance(0.3) else "%s: %s" % (e(), e()) for _ in range(r.randrange(0, 4))]
      return "{%s}" % ", ".join(items)
    if k == 11:
      items = [("*" + self.star()) if self.chance(0.3) else e() for _ in range(r.randrange(1, 4))]
      return "{%s}" % ", ".join(items)
    if k == 12:
      return self.comprehension(d, ctx)
    if k == 13:
      return "(lambda %s: %s)" % (self.lambda_params(), e())
    if k == 14:
      return "(%s if %s else %s)" % (e(), e(), e())
    if k == 15:
      return "(%s := %s)" % (self.var(), e())
    if k == 16:
      return self.fstring()
    if k == 17 and ctx.get("async"):
      return "(await %s)" % e()
    if k == 18 and ctx.get("func") and not ctx.get("nogen"):
      return r.choice(["(yield %s)" % e(), "(yield)", "(yield from %s)" % e()]) if not ctx.get("async") \
          else "(yield %s)" % e()
    if k == 19:
      return "%s(%s)(%s)" % (self.callee(), self.args(d, ctx), self.args(d, ctx))
    if k == 20:
      return "%s %% %s" % (r.choice(["'%s'", "'%d %s'", "'%(k)s'"]), r.choice(["(%s,)" % e(), e(), "{'k': %s}" % e()]))
    if k == 21:
      return "super().%s" % r.choice(["__init__()", "m0()", "foo", "__repr__()"])
    if k == 22:
      return "%s.%s.%s" % (self.atomp(), r.choice(["a", "b", "x"]), r.choice(METHODS))
    if k == 23:
      return "not %s" % e()
    if k == 24:
      return "%s[%s][%s]" % (self.atomp(), self.subscript(d, ctx), self.subscript(d, ctx))
    if k == 25:
      return "(%s, *%s)" % (e(), self.star())
    if k == 26:
      return "%s(%s for %s in %s)" % (r.choice(["sum", "list", "any", "tuple", "set", "max", "dict"]),
                                     e(), self.target(False), e())
    if k == 27:
      return "type(%s)" % e()
    return self.atom()

  def star(self):
    """operand of * / ** : mostly a name (constant operands are folded, and malformed ones such as *(0) make
    pytype stop at constant folding)"""
    if self.chance(0.85):
      return self.var()
    return self.atomp()

  def atomp(self):
    a = self.atom()
    if a and (a[0] in "-+~" or a.startswith("not ") or a[0].isdigit()):
      return "(%s)" % a
    return a

  def callee(self):
    r = self.r
    k = r.randrange(6)
    if k == 0 and self.funcs:
      return r.choice(self.funcs)
    if k == 1 and self.classes:
      return r.choice(self.classes)
    if k == 2:
      return r.choice(BUILTINS)
    if k == 3:
      return "%s.%s" % (self.var(), r.choice(["m0", "m1", "append", "get", "foo", "send", "close", "__call__"]))
    if k == 4 and self.classes:
      return "%s.%s" % (r.choice(self.classes), r.choice(["m0", "m1", "cm", "sm", "__new__"]))
    return self.var()

  def args(self, d, ctx):
    r = self.r
    out = []
    for _ in range(r.randrange(0, 4)):
      out.append(self.expr(d + 1, ctx))
    if self.chance(0.2):
      out.append("*" + self.star())
    for _ in range(r.randrange(0, 2)):
      if self.chance(0.4):
        out.append("%s=%s" % (r.choice(["k", "key", "x", "a", "default", "end", "reverse"]), self.expr(d + 1, ctx)))
    if self.chance(0.15):
      out.append("**" + self.star())
    return ", ".join(out)

  def subscript(self, d, ctx):
    r = self.r
    k = r.randrange(9)
    e = lambda: self.expr(d + 2, ctx)  # noqa: E731
    if k == 0:
      return "%s:%s" % (e(), e())
    if k == 1:
      return ":%s" % e()
    if k == 2:
      return "%s:" % e()
    if k == 3:
      return "::%s" % r.choice(["2", "-1", e()])
    if k == 4:
      return "%s:%s:%s" % (e(), e(), e())
    if k == 5:
      return "%s, %s" % (e(), e())
    if k == 6:
      return r.choice([":", "...", "1:, ::2", "*%s" % self.star(), "-1", "0", "'k'"])
    return e()

  def comprehension(self, d, ctx):
    r = self.r
    e = lambda: self.expr(d + 1, ctx)  # noqa: E731
    clauses = []
    for i in range(r.randrange(1, 3)):
      pre = "async for" if (ctx.get("async") and self.chance(0.3)) else "for"
      clauses.append("%s %s in %s" % (pre, self.target(False), e()))
      for _ in range(r.randrange(0, 2)):
        clauses.append("if %s" % e())
    body = " ".join(clauses)
    k = r.randrange(5)
    if k == 0:
      return "[%s %s]" % (e(), body)
    if k == 1:
      return "{%s %s}" % (e(), body)
    if k == 2:
      return "{%s: %s %s}" % (e(), e(), body)
    if k == 3:
      return "(%s %s)" % (e(), body)
    return "[(%s, %s) %s]" % (e(), e(), body)

  def lambda_params(self):
    r = self.r
    return r.choice(["", "q", "q, w", "q=1", "*q", "**q", "q, *w, e=2", "q, /, w", "*, q", "q, w=a"])

  def target(self, allow_complex=True):
    r = self.r
    k = r.randrange(10 if allow_complex else 5)
    if k <= 1:
      return self.var()
    if k == 2:
      return "%s, %s" % (self.var(), self.var())
    if k == 3:
      return "(%s, (%s, %s))" % (self.var(), self.var(), self.var())
    if k == 4:
      return "%s, *%s" % (self.var(), self.var())
    if k == 5:
      return "%s.%s" % (self.var(), r.choice(["attr", "x", "y"]))
    if k == 6:
      return "%s[%s]" % (self.var(), self.subscript(2, None))
    if k == 7:
      return "[%s, %s]" % (self.var(), self.var())
    if k == 8:
      return "*%s, %s" % (self.var(), self.var())
    return "%s, %s.z, %s[0]" % (self.var(), self.var(), self.var())

  # ------------------------------------------------------------- statements
  def block(self, ind, d, ctx, n=None):
    r = self.r
    n = n if n is not None else r.randrange(1, 4)
    out = []
    for _ in range(n):
      out += self.stmt(ind, d, ctx)
    if not out:
      out = [ind + "pass"]
    return out

  def simple_stmt(self, ind, d, ctx):
    r = self.r
    e = lambda: self.expr(1, ctx)  # noqa: E731
    k = r.randrange(24)
    if k <= 3:
      return [ind + "%s = %s" % (self.target(), e())]
    if k == 4:
      return [ind + "%s = %s = %s" % (self.var(), self.var(), e())]
    if k == 5:
      return [ind + "%s %s %s" % (r.choice([self.var(), "%s.x" % self.var(), "%s[0]" % self.var()]),
                                   r.choice(AUGOPS), e())]
    if k == 6:
      v = self.var()
      return [ind + r.choice(["%s: %s = %s" % (v, r.choice(ANNOTS), e()), "%s: %s" % (v, r.choice(ANNOTS))])]
    if k == 7:
      return [ind + e()]
    if k == 8:
      return [ind + r.choice(["del %s" % self.var(), "del %s[%s]" % (self.var(), e()), "del %s.x" % self.var(),
                              "del %s, %s" % (self.var(), self.var()), "del (%s)" % self.var()])]
    if k == 9:
      return [ind + r.choice(["assert %s" % e(), "assert %s, %s" % (e(), e()), "assert isinstance(%s, %s)" % (
          self.var(), r.choice(["int", "str", "(int, str)", "list", "C0"]))])]
    if k == 10:
      return [ind + "pass"]
    if k == 11 and ctx.get("loop"):
      return [ind + r.choice(["break", "continue"])]
    if k == 12 and ctx.get("func"):
      return [ind + r.choice(["return", "return %s" % e(), "return %s, %s" % (e(), e())])]
    if k == 13:
      return [ind + r.choice(["raise", "raise %s" % r.choice(["ValueError", "ValueError(%s)" % e(), e()]),
                              "raise TypeError('m') from %s" % r.choice(["None", self.var()])])]
    if k == 14 and ctx.get("func") and not ctx.get("async") and not ctx.get("nogen"):
      return [ind + r.choice(["yield", "yield %s" % e(), "yield from %s" % e(), "%s = yield %s" % (self.var(), e())])]
    if k == 14 and ctx.get("async"):
      return [ind + r.choice(["await %s" % e(), "%s = await %s" % (self.var(), e()), "yield %s" % e()])]
    if k == 15 and ctx.get("func"):
      v = self.var()
      if ("g", v) not in ctx["decl"] and ("u", v) not in ctx["decl"]:
        ctx["decl"].add(("g", v))
        # a global statement must precede uses in the function: emitted by the function generator
      return [ind + "%s = %s" % (v, e())]
    if k == 16:
      return [ind + r.choice(["import typing", "from typing import Any, Optional", "import typing as t",
                              "from typing import *" if not ctx.get("func") and not ctx.get("cls") else "import builtins",
                              "import nosuchmod", "from nosuch.pkg import thing as th", "from . import sibling",
                              "import os.path", "from __future__ import annotations" if False else "import sys"])]
    if k == 17:
      return [ind + "%s, %s = %s, %s" % (self.var(), self.var(), self.var(), self.var())]
    if k == 18:
      return [ind + "%s.%s" % (self.var(), r.choice(METHODS))]
    if k == 19:
      return [ind + "print(%s)" % self.args(1, ctx)]
    if k == 20 and not ctx.get("func") and not ctx.get("cls"):
      return [ind + r.choice(["type %s = %s" % (self.fresh("Alias"), r.choice(ANNOTS)),
                              "type %s[T] = list[T]" % self.fresh("Alias")])]
    if k == 21:
      return [ind + "%s[%s] = %s" % (self.var(), self.subscript(1, ctx), e())]
    if k == 22:
      return [ind + "%s; %s" % (self.simple_stmt("", d, ctx)[0], self.simple_stmt("", d, ctx)[0])]
    return [ind + "%s = %s" % (self.var(), e())]

  def stmt(self, ind, d, ctx):
    r = self.r
    if d >= 3 or self.chance(0.45):
      return self.simple_stmt(ind, d, ctx)
    e = lambda: self.expr(1, ctx)  # noqa: E731
    ind2 = ind + "  "
    k = r.randrange(16)
    if k == 0:
      out = [ind + "if %s:" % e()] + self.block(ind2, d + 1, ctx)
      for _ in range(r.randrange(0, 3)):
        out += [ind + "elif %s:" % e()] + self.block(ind2, d + 1, ctx)
      if self.chance(0.5):
        out += [ind + "else:"] + self.block(ind2, d + 1, ctx)
      return out
    if k == 1:
      c2 = dict(ctx, loop=True)
      out = [ind + "while %s:" % r.choice([e(), "True", "%s < 10" % self.var()])] + self.block(ind2, d + 1, c2)
      if self.chance(0.3):
        out += [ind + "else:"] + self.block(ind2, d + 1, ctx)
      return out
    if k == 2:
      c2 = dict(ctx, loop=True)
      pre = "async for" if (ctx.get("async") and self.chance(0.5)) else "for"
      it = r.choice([e(), "range(%s)" % e(), "enumerate(%s)" % self.var(), "zip(%s, %s)" % (self.var(), self.var()),
                     "%s.items()" % self.var()])
      out = [ind + "%s %s in %s:" % (pre, self.target(), it)] + self.block(ind2, d + 1, c2)
      if self.chance(0.3):
        out += [ind + "else:"] + self.block(ind2, d + 1, ctx)
      return out
    if k == 3:
      return self.try_stmt(ind, d, ctx)
    if k == 4:
      pre = "async with" if (ctx.get("async") and self.chance(0.5)) else "with"
      items = []
      for _ in range(r.randrange(1, 3)):
        it = r.choice([e(), "open(%s)" % e(), "%s()" % self.callee()])
        if self.chance(0.6):
          it += " as %s" % r.choice([self.var(), "(%s, %s)" % (self.var(), self.var())])
        items.append(it)
      if self.chance(0.2):
        head = "%s (%s):" % (pre, ", ".join(items))
      else:
        head = "%s %s:" % (pre, ", ".join(items))
      return [ind + head] + self.block(ind2, d + 1, ctx)
    if k == 5:
      return self.match_stmt(ind, d, ctx)
    if k in (6, 7, 8):
      return self.funcdef(ind, d, ctx)
    if k == 9 and d <= 1:
      return self.classdef(ind, d, ctx)
    if k == 10:
      # loop with try/finally and continue/break inside: rarely combined opcode sequences
      c2 = dict(ctx, loop=True)
      out = [ind + "for %s in %s:" % (self.var(), e()), ind2 + "try:"]
      out += self.block(ind2 + "  ", d + 2, c2)
      out += [ind2 + "finally:"] + self.block(ind2 + "  ", d + 2, c2 if self.chance(0.5) else ctx)
      return out
    if k == 11:
      out = [ind + "if %s:" % r.choice(["isinstance(%s, %s)" % (self.var(), r.choice(["int", "str", "(int, str)"])),
                                         "%s is None" % self.var(), "%s is not None" % self.var(),
                                         "not %s" % self.var(), "callable(%s)" % self.var(),
                                         "(%s := %s) is not None" % (self.var(), e()),
                                         "hasattr(%s, 'x')" % self.var(), "typing.TYPE_CHECKING", "__name__ == '__main__'",
                                         "sys.version_info >= (3, 8)"])]
      out += self.block(ind2, d + 1, ctx)
      if self.chance(0.5):
        out += [ind + "else:"] + self.block(ind2, d + 1, ctx)
      return out
    if k == 12:
      v = self.var()
      return [ind + "%s = []" % v, ind + "for %s in range(3):" % self.var(),
              ind2 + "%s.append(%s)" % (v, e()), ind + "%s = %s[0]" % (self.var(), v)]
    return self.simple_stmt(ind, d, ctx)

  def try_stmt(self, ind, d, ctx):
    r = self.r
    ind2 = ind + "  "
    out = [ind + "try:"] + self.block(ind2, d + 1, ctx)
    star = self.chance(0.12)
    nexc = r.randrange(0, 3)
    for i in range(nexc):
      kind = r.randrange(4)
      kw = "except*" if star else "except"
      if kind == 0 and not star and i == nexc - 1:
        out.append(ind + "except:")
      elif kind == 1:
        out.append(ind + "%s %s:" % (kw, r.choice(EXCS)))
      else:
        out.append(ind + "%s %s as %s:" % (kw, r.choice(EXCS), r.choice(["e", "err", self.var()])))
      c2 = ctx if not star else dict(ctx, loop=False)
      out += self.block(ind2, d + 1, c2)
    if nexc and self.chance(0.3):
      out += [ind + "else:"] + self.block(ind2, d + 1, ctx)
    if nexc == 0 or self.chance(0.4):
      out += [ind + "finally:"] + self.block(ind2, d + 1, ctx)
    return out

  def pattern(self, d=0):
    r = self.r
    k = r.randrange(16 if d < 2 else 6)
    if k == 0:
      return r.choice(["0", "1", "'a'", "None", "True", "-1", "1.5", "b'x'", "1+2j"])
    if k == 1:
      return self.var()
    if k == 2:
      return "_"
    if k == 3:
      return r.choice(["int()", "str()", "int(%s)" % self.var(), "float() | int()"])
    if k == 4:
      return "typing.Any" if False else r.choice(["C0.attr", "sys.maxsize", "t.x"])
    if k == 5:
      return "%s as %s" % (self.pattern(d + 2), self.var())
    if k == 6:
      return "[%s]" % ", ".join(self.pattern(d + 1) for _ in range(r.randrange(0, 3)))
    if k == 7:
      return "(%s, *%s)" % (self.pattern(d + 1), r.choice(["_", self.var()]))
    if k == 8:
      return "[%s, *_, %s]" % (self.pattern(d + 1), self.pattern(d + 1))
    if k == 9:
      items = ["%s: %s" % (r.choice(["'k'", "1", "'x'"]), self.pattern(d + 1)) for _ in range(r.randrange(1, 3))]
      if self.chance(0.3):
        items.append("**%s" % self.var())
      return "{%s}" % ", ".join(items)
    if k == 10:
      cls = r.choice((self.classes or ["C0"]) + ["int", "str", "Exception", "tuple", "dict"])
      pos = [self.pattern(d + 1) for _ in range(r.randrange(0, 2))]
      kw = ["%s=%s" % (r.choice(["x", "y", "attr"]), self.pattern(d + 1)) for _ in range(r.randrange(0, 2))]
      return "%s(%s)" % (cls, ", ".join(pos + kw))
    if k == 11:
      return " | ".join(r.choice(["0", "1", "'a'", "None", "int()", "[_]", "{}"]) for _ in range(r.randrange(2, 4)))
    if k == 12:
      return "(%s)" % self.pattern(d + 1)
    if k == 13:
      return "[]"
    if k == 14:
      return "{}"
    return "(%s, %s)" % (self.pattern(d + 1), self.pattern(d + 1))

  def match_stmt(self, ind, d, ctx):
    r = self.r
    ind2, ind3 = ind + "  ", ind + "    "
    subj = r.choice([self.var(), "(%s, %s)" % (self.var(), self.var()), self.expr(1, ctx), "%s, %s" % (self.var(), self.var())])
    out = [ind + "match %s:" % subj]
    n = r.randrange(1, 5)
    for i in range(n):
      pat = self.pattern()
      if i < n - 1 and pat in ("_",) + tuple(self.vars):
        pat = "0"  # irrefutable patterns only last
      guard = " if %s" % self.expr(1, ctx) if self.chance(0.25) else ""
      out.append(ind2 + "case %s%s:" % (pat, guard))
      out += self.block(ind3, d + 2, ctx, n=r.randrange(1, 3))
    return out

  def params(self, method=None):
    r = self.r
    ps = []
    if method == "self":
      ps.append("self")
    elif method == "cls":
      ps.append("cls")
    names = ["p", "q", "w", "u"]
    r.shuffle(names)
    npos = r.randrange(0, 3)
    used = []
    seen_default = False
    for i in range(npos):
      nm = names.pop()
      used.append(nm)
      s = nm
      if self.chance(0.35):
        s += ": " + r.choice(ANNOTS)
      if seen_default or self.chance(0.25):
        seen_default = True
        s += (" = " if ":" in s else "=") + self.literal()
      ps.append(s)
      if i == 0 and npos > 1 and self.chance(0.15) and not seen_default:
        ps.append("/")
    if self.chance(0.2):
      ps.append("*args" + (": int" if self.chance(0.3) else ""))
      used.append("args")
      if self.chance(0.5) and names:
        nm = names.pop()
        used.append(nm)
        ps.append("%s=%s" % (nm, self.literal()))
    elif self.chance(0.12) and names:
      nm = names.pop()
      used.append(nm)
      ps.append("*")
      ps.append(nm + r.choice(["", "=None", ": int = 0"]))
    if self.chance(0.15):
      ps.append("**kwargs")
      used.append("kwargs")
    return ", ".join(ps), used

  def funcdef(self, ind, d, ctx, method=None, name=None):
    r = self.r
    ind2 = ind + "  "
    is_async = self.chance(0.2)
    name = name or self.fresh("f")
    out = []
    decos = []
    if method is None:
      if self.chance(0.2):
        decos.append(r.choice(["@deco", "@deco_args(1)", "@typing.no_type_check", "@staticmethod", "@(lambda f: f)",
                               "@typing.overload" if False else "@deco", "@functools.wraps(f)", "@property"]))
    for dc in decos:
      out.append(ind + dc)
    ps, used = self.params(method)
    ret = " -> %s" % r.choice(ANNOTS) if self.chance(0.3) else ""
    tparams = r.choice(["[T]", "[T: int]", "[T, *Ts]", "[**P]", "[T: (int, str)]"]) if self.chance(0.05) else ""
    out.append(ind + "%sdef %s%s(%s)%s:" % ("async " if is_async else "", name, tparams, ps, ret))
    saved_vars = self.vars
    self.vars = list(dict.fromkeys(used + saved_vars[:6] + (["self"] if method == "self" else [])))
    c2 = {"func": True, "async": is_async, "loop": False, "decl": set(), "cls": False,
          "nogen": self.chance(0.6)}
    if self.chance(0.2):
      out.append(ind2 + r.choice(['"""Docstring."""', "'doc'"]))
    body = self.block(ind2, d + 1, c2, n=r.randrange(1, 5))
    decls = []
    if ctx.get("func") and self.chance(0.3) and not method:
      # nonlocal of an enclosing function local: bind it in the enclosing function first (done by caller order)
      pass
    if self.chance(0.15):
      g = r.choice(["a", "b", "x", "G0"])
      if g not in used and g != "self":
        decls.append(ind2 + "global %s" % g)
        body.append(ind2 + "%s = %s" % (g, self.expr(1, c2)))
    if self.chance(0.6):
      body.append(ind2 + "return %s" % self.expr(1, c2))
    out += decls + body
    self.vars = saved_vars
    if method is None and not ctx.get("cls"):
      self.funcs.append(name)
    return out

  def closure(self, ind):
    """enclosing function with a nested function using nonlocal (and a lambda capturing a cell)."""
    r = self.r
    i2, i3 = ind + "  ", ind + "    "
    name = self.fresh("outer")
    inner = self.fresh("inner")
    c = {"func": True, "async": False, "loop": False, "decl": set(), "nogen": True}
    out = [ind + "def %s(p, q=0):" % name, i2 + "cell = %s" % self.expr(1, c), i2 + "acc = []",
           i2 + "def %s(w):" % inner, i3 + "nonlocal cell", i3 + "cell %s w" % r.choice(AUGOPS),
           i3 + "acc.append(lambda: cell + p)"]
    out += self.block(i3, 2, c, n=r.randrange(0, 3))
    out += [i3 + "return cell", i2 + "%s(q)" % inner]
    if self.chance(0.5):
      out += [i2 + "del cell"] if self.chance(0.3) else [i2 + "cell = [f() for f in acc]"]
    out += [i2 + "return %s" % r.choice([inner, "%s(p)" % inner, "acc", "lambda: %s" % inner])]
    self.funcs.append(name)
    return out

  def async_func(self, ind):
    """async def combining async with / async for / async comprehensions / await in try-finally."""
    r = self.r
    i2, i3 = ind + "  ", ind + "    "
    name = self.fresh("co")
    c = {"func": True, "async": True, "loop": False, "decl": set(), "nogen": self.chance(0.7)}
    cl = dict(c, loop=True)
    out = [ind + "async def %s(p, *q):" % name]
    for _ in range(r.randrange(1, 4)):
      k = r.randrange(6)
      if k == 0:
        out += [i2 + "async with %s as %s:" % (self.expr(1, c), self.var())] + self.block(i3, 2, c)
      elif k == 1:
        out += [i2 + "async for %s in %s:" % (self.target(False), self.expr(1, c))] + self.block(i3, 2, cl)
        if self.chance(0.3):
          out += [i2 + "else:"] + self.block(i3, 2, c)
      elif k == 2:
        out += [i2 + "%s = [%s async for %s in %s%s]" % (self.var(), self.expr(2, c), self.var(), self.expr(2, c),
                                                          " if await %s" % self.var() if self.chance(0.4) else "")]
      elif k == 3:
        out += [i2 + "try:", i3 + "%s = await %s" % (self.var(), self.expr(1, c)), i2 + "finally:",
                i3 + "await %s" % self.expr(1, c)]
      elif k == 4:
        out += [i2 + "async with %s, %s as %s:" % (self.expr(1, c), self.expr(1, c), self.var()),
                i3 + "async for %s in %s:" % (self.var(), self.expr(1, c)),
                i3 + "  " + r.choice(["break", "continue", "return %s" % self.var(), "await p", "yield p" if not c["nogen"] else "pass"])]
      else:
        out += self.block(i2, 1, c)
    if c["nogen"]:
      out.append(i2 + "return %s" % self.expr(1, c))
    self.funcs.append(name)
    return out

  def gen_func(self, ind):
    """generator with yield inside try/finally/with/loops, yield from, send-value use."""
    r = self.r
    i2, i3 = ind + "  ", ind + "    "
    name = self.fresh("gen")
    c = {"func": True, "async": False, "loop": False, "decl": set(), "nogen": False}
    cl = dict(c, loop=True)
    out = [ind + "def %s(p=None, *q, **k):" % name]
    for _ in range(r.randrange(1, 4)):
      kk = r.randrange(5)
      if kk == 0:
        out += [i2 + "try:", i3 + "%s = yield %s" % (self.var(), self.expr(1, c)),
                i2 + r.choice(["finally:", "except GeneratorExit:", "except Exception as e:"]),
                i3 + r.choice(["yield p", "return", "raise", "pass", "yield from q"])]
      elif kk == 1:
        out += [i2 + "for %s in %s:" % (self.target(False), self.expr(1, c))] + self.block(i3, 2, cl) + [i3 + "yield %s" % self.var()]
      elif kk == 2:
        out += [i2 + "with %s as %s:" % (self.expr(1, c), self.var()), i3 + "yield from %s" % self.expr(1, c)]
      elif kk == 3:
        out += [i2 + "while %s:" % self.expr(1, c), i3 + "if (yield):", i3 + "  break"] + self.block(i3, 2, cl)
      else:
        out += self.block(i2, 1, c)
    if self.chance(0.4):
      out.append(i2 + "return %s" % self.expr(1, c))
    self.funcs.append(name)
    return out

  def classdef(self, ind, d, ctx):
    r = self.r
    ind2 = ind + "  "
    name = "C%d" % len(self.classes)
    bases = []
    if self.classes and self.chance(0.6):
      bases.append(r.choice(self.classes))
      if len(self.classes) > 1 and self.chance(0.25):
        b2 = r.choice(self.classes)
        if b2 not in bases:
          bases.append(b2)
    elif self.chance(0.25):
      bases.append(r.choice(["object", "Exception", "dict", "list", "typing.Generic[T]" if False else "int",
                             "typing.NamedTuple", "typing.Protocol", "str", "tuple", "nosuchmod.Base"]))
    if self.chance(0.1):
      bases.append("metaclass=%s" % r.choice(["type", "Meta"]))
    out = []
    if self.chance(0.15):
      out.append(ind + r.choice(["@deco", "@typing.final", "@dataclasses.dataclass", "@functools.total_ordering"]))
    tparams = "[T]" if self.chance(0.04) else ""
    out.append(ind + "class %s%s%s:" % (name, tparams, "(%s)" % ", ".join(bases) if bases else ""))
    cctx = {"cls": True, "func": False, "async": False, "loop": False, "decl": set()}
    body = []
    if self.chance(0.3):
      body.append(ind2 + '"""Class doc."""')
    for _ in range(r.randrange(0, 3)):
      body.append(ind2 + r.choice(["attr = %s" % self.expr(1, cctx), "x: int = 0", "y: str", "__slots__ = ('x', 'y')",
                                   "z = attr if False else 1" if False else "z = 1", "items: list = []"]))
    nmeth = r.randrange(0, 4)
    for i in range(nmeth):
      kind = r.randrange(10)
      if kind == 0:
        body.append(ind2 + "@staticmethod")
        body += self.funcdef(ind2, d + 1, cctx, method="static", name="sm")
      elif kind == 1:
        body.append(ind2 + "@classmethod")
        body += self.funcdef(ind2, d + 1, cctx, method="cls", name="cm")
      elif kind == 2:
        body.append(ind2 + "@property")
        body += [ind2 + "def prop(self):", ind2 + "  return %s" % r.choice(["self.x", "self._p", self.expr(1, cctx)])]
        if self.chance(0.5):
          body += [ind2 + "@prop.setter", ind2 + "def prop(self, v):", ind2 + "  self._p = v"]
      elif kind == 3:
        body += [ind2 + "def __init__(self, %s):" % r.choice(["x=0", "x, y=None", "*a, **k"]),
                 ind2 + "  " + r.choice(["super().__init__()", "self.x = x" if True else "", "pass"]),
                 ind2 + "  self.attr = %s" % self.expr(1, cctx),
                 ind2 + "  self.items = []"]
      elif kind == 4:
        dn = r.choice(["__add__", "__eq__", "__getitem__", "__iter__", "__enter__", "__call__", "__len__",
                       "__contains__", "__getattr__", "__lt__", "__bool__", "__hash__", "__aiter__", "__anext__",
                       "__await__", "__setitem__", "__exit__", "__radd__", "__iadd__", "__neg__", "__repr__"])
        arity = {"__add__": "o", "__eq__": "o", "__getitem__": "k", "__contains__": "o", "__getattr__": "n",
                 "__lt__": "o", "__setitem__": "k, v", "__exit__": "*exc", "__radd__": "o", "__iadd__": "o",
                 "__call__": "*a, **k"}.get(dn, "")
        body += [ind2 + "def %s(self%s):" % (dn, (", " + arity) if arity else ""),
                 ind2 + "  return %s" % r.choice(["self", "NotImplemented", self.expr(1, cctx), "iter(())", "0", "True"])]
      else:
        body += self.funcdef(ind2, d + 1, cctx, method="self", name="m%d" % r.randrange(3))
    if not body:
      body = [ind2 + "pass"]
    out += body
    self.classes.append(name)
    return out

  def program(self):
    r = self.r
    out = ["import typing", "import sys"]
    if self.chance(0.3):
      out.append(r.choice(["import functools", "import dataclasses", "from typing import TypeVar, Generic",
                           "import collections", "import enum", "import abc", "import asyncio", "import os"]))
    out += ["def deco(f):", "  return f", "def deco_args(n):", "  def w(f):", "    return f", "  return w"]
    for v in self.r.sample(self.vars, 6):
      out.append("%s = %s" % (v, self.literal()))
    ctx = {"func": False, "async": False, "loop": False, "decl": set(), "cls": False}
    n = r.randrange(3, 9)
    for _ in range(n):
      k = r.randrange(12)
      if k == 10:
        out += self.async_func("")
      elif k == 11:
        out += self.gen_func("")
      elif k == 0:
        out += self.closure("")
      elif k == 1:
        out += self.classdef("", 0, ctx)
      elif k == 2:
        out += self.funcdef("", 0, ctx)
      else:
        out += self.stmt("", 0, ctx)
    # exercise what was defined
    for f in self.funcs[:6]:
      out.append("%s = %s(%s)" % (self.var(), f, self.args(1, ctx)))
    for c in self.classes[:4]:
      v = self.var()
      out.append("%s = %s(%s)" % (v, c, self.args(2, ctx) if self.chance(0.5) else ""))
      out.append("%s.%s" % (v, r.choice(["m0()", "m1(1)", "prop", "attr", "cm()", "sm()", "x", "m2(*xs)"])))
      if self.chance(0.4):
        out.append("%s = %s %s %s" % (self.var(), v, r.choice(BINOPS + ["<", "=="]), self.atom()))
      if self.chance(0.3):
        out += ["with %s as %s:" % (v, self.var()), "  pass"]
      if self.chance(0.3):
        out += ["for %s in %s:" % (self.var(), v), "  pass"]
    return "\n".join(out) + "\n"


def gen_program(rng):
  return Gen(rng).program()


# ------------------------------------------------------------------------------------------------ mutation
INSERT_VOCAB = ["(", ")", "[", "]", "{", "}", ":", ",", ".", ";", "=", "==", "+", "-", "*", "**", "@", "->", ":=",
                "if", "else", "elif", "for", "in", "while", "def", "class", "return", "yield", "await", "async",
                "lambda", "not", "and", "or", "is", "None", "True", "pass", "break", "continue", "try", "except",
                "finally", "with", "as", "import", "from", "global", "nonlocal", "del", "assert", "raise", "match",
                "case", "x", "a", "0", "1", "'s'", "f'{x}'", "...", "*a", "**k", "\n", "  ", "\\", "#", "!", "$",
                "type", "_", "self", "super()", "print"]
OP_SWAPS = {"+": ["-", "*", "@", "%"], "-": ["+", "~"], "*": ["**", "+", "/"], "**": ["*"], "/": ["//", "*"],
            "==": ["!=", "<", "is", "="], "<": [">", "<=", "=="], "and": ["or"], "or": ["and"], "is": ["==", "in"],
            "in": ["is", "not in"], "break": ["continue", "pass", "return"], "continue": ["break", "pass"],
            "return": ["yield", "raise", "pass"], "yield": ["return", "await", "yield from"], "for": ["while", "if"],
            "if": ["while", "elif"], "=": ["==", "+=", ":="], "+=": ["=", "-=", "|="], "(": ["["], ")": ["]"],
            "[": ["(", "{"], "]": [")", "}"], "except": ["except*", "finally"], "finally": ["else", "except"],
            "else": ["finally", "elif"], "def": ["class", "async def"], "class": ["def"], "None": ["True", "0"],
            "with": ["async with", "while", "if"], "global": ["nonlocal"], "nonlocal": ["global"],
            "del": ["assert", "return"], "assert": ["del"], "lambda": ["not"], "not": ["-", "~", "await"],
            ",": [":", ";", ""], ":": [",", "=", ":="], ".": [",", ""], "case": ["if"], "match": ["if", "while"]}


def _offsets(src):
  starts = [0]
  for line in src.splitlines(keepends=True):
    starts.append(starts[-1] + len(line))
  return starts


def tokens_of(src):
  """[(type, string, start_off, end_off)] for tokens with non-empty text; None if tokenisation fails."""
  starts = _offsets(src)
  out = []
  try:
    for t in tokenize.generate_tokens(_io.StringIO(src).readline):
      if t.type in (_token.ENDMARKER, _token.INDENT, _token.DEDENT) or t.string == "":
        continue
      s = starts[t.start[0] - 1] + t.start[1]
      e = starts[t.end[0] - 1] + t.end[1]
      out.append((t.type, t.string, s, e))
  except (tokenize.TokenError, IndentationError, SyntaxError, IndexError):
    return None
  return out


def mutate(rng, src, nops=None):
  """Applies 1..3 token-level operations; returns (mutant, [op descriptions])."""
  nops = nops or rng.choice([1, 1, 1, 2, 2, 3])
  desc = []
  for _ in range(nops):
    toks = tokens_of(src)
    if not toks or len(toks) < 4:
      break
    k = rng.choice([0, 1, 2, 3, 4, 5, 6, 6, 6, 6, 6, 6, 6])
    i = rng.randrange(len(toks))
    ty, s, a, b = toks[i]
    if k == 0:  # deletion
      src = src[:a] + src[b:]
      desc.append("del %r" % s)
    elif k == 1:  # insertion
      ins = rng.choice(INSERT_VOCAB)
      src = src[:a] + ins + " " + src[a:]
      desc.append("ins %r" % ins)
    elif k == 2:  # swap with the next token
      if i + 1 < len(toks):
        _, s2, a2, b2 = toks[i + 1]
        src = src[:a] + s2 + src[b:a2] + s + src[b2:]
        desc.append("swap %r %r" % (s, s2))
    elif k == 3:  # swap two random tokens
      j = rng.randrange(len(toks))
      if j != i:
        (i1, j1) = (i, j) if i < j else (j, i)
        _, s1, a1, b1 = toks[i1]
        _, s2, a2, b2 = toks[j1]
        src = src[:a1] + s2 + src[b1:a2] + s1 + src[b2:]
        desc.append("swap2 %r %r" % (s1, s2))
    elif k == 4:  # replace by another token of the same program
      j = rng.randrange(len(toks))
      src = src[:a] + toks[j][1] + src[b:]
      desc.append("repl %r -> %r" % (s, toks[j][1]))
    elif k == 5:  # duplication
      src = src[:b] + " " + s + src[b:]
      desc.append("dup %r" % s)
    else:  # category-preserving replacement (likely to compile)
      cands = [(idx, t) for idx, t in enumerate(toks) if t[1] in OP_SWAPS
               or t[0] == _token.NAME and not keyword.iskeyword(t[1]) or t[0] == _token.NUMBER]
      if cands:
        idx, (ty, s, a, b) = rng.choice(cands)
        if s in OP_SWAPS:
          new = rng.choice(OP_SWAPS[s])
        elif ty == _token.NUMBER:
          new = rng.choice(["0", "-1", "1.5", "10**9", "None", "'s'", "[]"])
        else:
          names = [t[1] for t in toks if t[0] == _token.NAME and not keyword.iskeyword(t[1])]
          new = rng.choice(names + ["self", "None", "int", "undefined_name"])
        src = src[:a] + new + src[b:]
        desc.append("cat %r -> %r" % (s, new))
  return src, desc
