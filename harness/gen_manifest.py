"""Writes MANIFEST.json from harness/registry.py (one entry per claimed property)."""
import json, os, sys
sys.path.insert(0, os.path.dirname(os.path.dirname(os.path.abspath(__file__))))
from harness import registry

checks = []
for pid, e in sorted(registry.CHECKS.items()):
  checks.append({
      "property_id": pid,
      "quick_cmd": "./check %s --tier quick" % pid,
      "thorough_cmd": "./check %s --tier thorough" % pid,
      "evidence_file": "evidence/%s.json" % pid,
      "replay_cmd_template": "./check %s --replay {path}" % pid,
      "engine": "lean4+" + e.get("engine", "drv_" + pid.lower()),
      "level_claimed": {"category": "proof", "text": e["text"], "design_ref": e.get("design_ref", "DESIGN.md §5 " + pid)},
      "level_note": e["note"],
      "technique": e["technique"],
  })
m = {
    "version": 1,
    "setup_cmd": "./setup.sh",
    "hooks": {
        "guard": "PYTYPE_VERIF",
        "enable": "no hooks are compiled into /repo; checks observe pytype through its Python API with an out-of-tree build of the typegraph extension (harness/common.py ensure_ext)",
        "baseline_off_cmd": "harness/baseline.sh",
        "source_commits": [],
        "add_only": True,
    },
    "engines": [
        {"name": "lean4-model", "path": "lean/", "serves_properties": sorted(registry.CHECKS), "kind_free_text": "Lean 4 models (PytypeModel/*), theorems (PytypeModel/Props/*), compiled line-protocol drivers (Driver/*)"},
        {"name": "harness", "path": "harness/", "serves_properties": sorted(registry.CHECKS), "kind_free_text": "Python: out-of-tree ext build, generators, correspondence (real pytype vs Lean driver), witness replay, failing-input search, evidence"},
    ],
    "checks": checks,
    "not_applicable": [{"property_id": k, "reason": v} for k, v in sorted(registry.NOT_APPLICABLE.items())],
    "notes": registry.NOTES,
}
json.dump(m, open(os.path.join(os.path.dirname(os.path.dirname(os.path.abspath(__file__))), "MANIFEST.json"), "w"), indent=1)
print("MANIFEST.json: %d checks, %d not_applicable" % (len(checks), len(m["not_applicable"])))
