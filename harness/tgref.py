"""Independent declarative reference for C07 (used by the search stage only).

It never looks at solver.cc's algorithm: a combination is *explained* at a node when walking the CFG
backwards node by node along some explicit path
  * every goal originating at the node visited is replaced by one of that origin's source sets
    (transitively, each goal decided once), the removed goals being on pairwise different variables;
  * the node's condition (if conditions are honoured) joins the goals;
  * a node at which a variable of a remaining goal is bound (without producing the goal) cannot be passed;
  * the walk ends when no goal remains.
Exponential (explicit path enumeration with memo on (node, goal set)); graphs are small.
"""
from __future__ import annotations

import itertools


class RefGraph:
  """Plain-data snapshot of a real cfg.Program (read through the Python API only)."""

  def __init__(self, real):
    self.nn = len(real.nodes)
    self.incoming = [[m.id for m in n.incoming] for n in real.nodes]
    self.cond = [(n.condition.id if n.condition is not None else None) for n in real.nodes]
    self.var = [b.variable.id for b in real.b]
    self.origins = [[(o.where.id, [frozenset(x.id for x in ss) for ss in o.source_sets]) for o in b.origins]
                    for b in real.b]
    self.var_nodes = {}
    for i, os_ in enumerate(self.origins):
      for (w, _) in os_:
        self.var_nodes.setdefault(self.var[i], set()).add(w)
    self._reach = None

  def has_conditions(self):
    return any(c is not None for c in self.cond)

  def cyclic(self):
    color = [0] * self.nn
    for s in range(self.nn):
      if color[s]:
        continue
      st = [(s, 0)]
      color[s] = 1
      while st:
        n, i = st.pop()
        if i < len(self.incoming[n]):
          st.append((n, i + 1))
          m = self.incoming[n][i]
          if color[m] == 1:
            return True
          if color[m] == 0:
            color[m] = 1
            st.append((m, 0))
        else:
          color[n] = 2
    return False

  def back_reach(self, n):
    seen = {n}
    st = [n]
    while st:
      x = st.pop()
      for m in self.incoming[x]:
        if m not in seen:
          seen.add(m)
          st.append(m)
    return seen

  def origin_at(self, b, n):
    for (w, sss) in self.origins[b]:
      if w == n:
        return sss
    return None

  def removals(self, n, goals):
    """all (removed, remaining) obtained by resolving, at node n, every goal that originates at n."""
    out = set()

    def go(todo, decided, removed, kept):
      todo = [b for b in todo if b not in decided]
      if not todo:
        out.add((frozenset(removed), frozenset(kept)))
        return
      b = todo[0]
      sss = self.origin_at(b, n)
      if sss is None:
        go(todo[1:], decided | {b}, removed, kept | {b})
      else:
        for ss in sss:
          go(todo[1:] + sorted(ss), decided | {b}, removed | {b}, kept)
    go(sorted(goals), frozenset(), frozenset(), frozenset())
    return out

  def conflict(self, bs):
    vs = [self.var[b] for b in bs]
    return len(vs) != len(set(vs))

  def explained(self, n, goals, honour_conditions):
    """Declarative semantics; only meaningful on acyclic graphs (a revisit on the current walk is cut)."""
    memo = {}
    onpath = set()

    def ex(n, goals):
      key = (n, goals)
      if key in memo:
        return memo[key]
      if key in onpath:
        return False
      onpath.add(key)
      res = False
      gs = set(goals)
      if honour_conditions and self.cond[n] is not None:
        gs.add(self.cond[n])
      for removed, rest in self.removals(n, gs):
        if self.conflict(removed):
          continue
        if not rest:
          res = True
          break
        if any(n in self.var_nodes.get(self.var[b], ()) for b in rest):
          continue      # a variable of a remaining goal is (re)bound here
        if any(ex(k, rest) for k in self.incoming[n]):
          res = True
          break
      onpath.discard(key)
      memo[key] = res
      return res
    return ex(n, frozenset(goals))
