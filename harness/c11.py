"""C11 — stub optimisation only widens and is idempotent (DESIGN.md §5 C11)."""
import json
import os
import random
import re
import sys
import time

from harness import common

REQUIRED = []  # filled below


# ----------------------------------------------------------------------------
# pytd <-> s-expression codec (syntax documented in lean/Driver/C11.lean)
# ----------------------------------------------------------------------------
class OutOfFragment(Exception):
  pass


_ATOM = re.compile(r"^[^\s()]+$")
ANYVAL = ("~any", "~any")


def _atom(s):
  if not isinstance(s, str) or not _ATOM.match(s) or s == "-":
    raise OutOfFragment("name %r" % (s,))
  return s


def _hex(s):
  return "x" + s.encode("utf-8").hex()


def _unhex(a):
  return bytes.fromhex(a[1:]).decode("utf-8")


class Codec:
  """Dumps pytd nodes to the driver's syntax and loads them back.  Type parameters are dumped as
  (name, scope); their declarations (bound/constraints) are remembered for loading."""

  def __init__(self, pytd, lenient=False):
    self.pytd = pytd
    self.tparams = {}
    self.lenient = lenient

  # ---- dump
  def ty(self, t):
    p = self.pytd
    c = t.__class__
    if c is p.AnythingType:
      return "A"
    if c is p.NothingType:
      return "N"
    if c is p.NamedType:
      return "(n %s)" % _atom(t.name)
    if c is p.ClassType:
      if t.cls is not None and t.cls.name != t.name and not self.lenient:
        # str(t) is cls.name: a ClassType resolved through an alias is outside the model (it has no `cls`)
        raise OutOfFragment("ClassType %s resolved to %s" % (t.name, t.cls.name))
      return "(c %s)" % _atom(t.name)
    if c is p.LateType:
      if t.recursive:
        raise OutOfFragment("recursive late type")
      return "(l %s)" % _atom(t.name)
    if c is p.TypeParameter:
      key = (t.name, t.scope)
      old = self.tparams.get(key)
      if old is not None and old != t:
        raise OutOfFragment("two type parameters with the same (name, scope)")
      self.tparams[key] = t
      return "(p %s %s)" % (_atom(t.name), "-" if t.scope is None else _atom(t.scope))
    if c is p.GenericType or c is p.TupleType or c is p.CallableType:
      tag = {p.GenericType: "g", p.TupleType: "t", p.CallableType: "k"}[c]
      return "(%s %s)" % (tag, " ".join([self.ty(t.base_type)] + [self.ty(x) for x in t.parameters]))
    if c is p.UnionType:
      return "(u %s)" % " ".join(self.ty(x) for x in t.type_list)
    if c is p.Literal:
      return self.lit(t.value)
    if c is p.Annotated:
      return "(a %s)" % " ".join([self.ty(t.base_type)] + [_hex(s) for s in t.annotations])
    raise OutOfFragment(c.__name__)

  def lit(self, v):
    if isinstance(v, bool):
      return "(b %d)" % int(v)
    if isinstance(v, int):
      return "(i %d)" % v
    if isinstance(v, str):
      return "(s %s)" % _hex(v)
    raise OutOfFragment("literal %r" % type(v).__name__)

  def opt_ty(self, t):
    return "-" if t is None else self.ty(t)

  def param(self, q):
    k = {"regular": "r", "posonly": "o", "kwonly": "k"}[q.kind.value]
    return "(P %s %s %s %d %s)" % (_atom(q.name), self.ty(q.type), k, int(q.optional), self.opt_ty(q.mutated_type))

  def decl(self, tp):
    if tp.__class__ is not self.pytd.TypeParameter or tp.default is not None:
      raise OutOfFragment("paramspec / typevar default")
    return "(D %s)" % " ".join([_atom(tp.name), "-" if tp.scope is None else _atom(tp.scope), self.opt_ty(tp.bound)]
                               + [self.ty(x) for x in tp.constraints])

  def sig(self, s):
    return "(S (%s) %s %s %s (%s) (%s))" % (
        " ".join(self.param(q) for q in s.params),
        "-" if s.starargs is None else self.param(s.starargs),
        "-" if s.starstarargs is None else self.param(s.starstarargs),
        self.ty(s.return_type), " ".join(self.ty(e) for e in s.exceptions),
        " ".join(self.decl(i.type_param) for i in s.template))

  def decos(self, ds):
    out = []
    for d in ds:
      if d.__class__ is not self.pytd.Alias or d.type.__class__ not in (self.pytd.NamedType, self.pytd.ClassType) \
         or d.type.name != d.name:
        raise OutOfFragment("decorator")
      out.append(_hex(d.name))
    return " ".join(out)

  def func(self, f):
    p = self.pytd
    k = {"method": "m", "staticmethod": "s", "classmethod": "c", "property": "p"}[f.kind.value]
    fl = f.flags
    return "(F %s %s %d %d %d (%s) %s)" % (
        _atom(f.name), k, int(bool(fl & p.MethodFlag.ABSTRACT)), int(bool(fl & p.MethodFlag.COROUTINE)),
        int(bool(fl & p.MethodFlag.FINAL)), self.decos(f.decorators), " ".join(self.sig(s) for s in f.signatures))

  def const(self, c):
    if c.value is None:
      v = "-"
    elif c.value.__class__ is self.pytd.AnythingType:
      v = "(e %s %s)" % ANYVAL
    elif isinstance(c.value, (bool, int, str)):
      v = self.lit(c.value)
    else:
      raise OutOfFragment("constant value")
    return "(C %s %s %s)" % (_atom(c.name), self.ty(c.type), v)

  def alias(self, a):
    if not isinstance(a.type, self.pytd.Type):
      raise OutOfFragment("alias of a non-type")
    return "(L %s %s)" % (_atom(a.name), self.ty(a.type))

  def cls(self, c):
    for b in c.bases:
      if not isinstance(b, self.pytd.Type):
        raise OutOfFragment("class as base")
    return "(K %s (%s) (%s) (%s) (%s) (%s) (%s) %s (%s))" % (
        _atom(c.name), " ".join("(kw %s %s)" % (_atom(k), self.ty(t)) for k, t in c.keywords),
        " ".join(self.ty(b) for b in c.bases), " ".join(self.func(m) for m in c.methods),
        " ".join(self.const(k) for k in c.constants), " ".join(self.cls(n) for n in c.classes),
        self.decos(c.decorators), "-" if c.slots is None else "(%s)" % " ".join(_hex(s) for s in c.slots),
        " ".join(self.decl(i.type_param) for i in c.template))

  def unit(self, u):
    return "(U %s (%s) (%s) (%s) (%s) (%s))" % (
        _hex(u.name or ""), " ".join(self.const(c) for c in u.constants),
        " ".join(self.decl(t) for t in u.type_params), " ".join(self.cls(c) for c in u.classes),
        " ".join(self.func(f) for f in u.functions), " ".join(self.alias(a) for a in u.aliases))

  # ---- load
  @staticmethod
  def parse(s):
    toks = re.findall(r"[()]|[^\s()]+", s)
    pos = 0

    def rd():
      nonlocal pos
      t = toks[pos]
      pos += 1
      if t == "(":
        out = []
        while toks[pos] != ")":
          out.append(rd())
        pos += 1
        return out
      return t
    r = rd()
    assert pos == len(toks), s[:200]
    return r

  def l_ty(self, x):
    p = self.pytd
    if x == "A":
      return p.AnythingType()
    if x == "N":
      return p.NothingType()
    h = x[0]
    if h == "n":
      return p.NamedType(x[1])
    if h == "c":
      return p.ClassType(x[1])
    if h == "l":
      return p.LateType(x[1])
    if h == "p":
      sc = None if x[2] == "-" else x[2]
      return self.tparams.get((x[1], sc)) or p.TypeParameter(x[1], scope=sc)
    if h in "gtk":
      c = {"g": p.GenericType, "t": p.TupleType, "k": p.CallableType}[h]
      return c(base_type=self.l_ty(x[1]), parameters=tuple(self.l_ty(y) for y in x[2:]))
    if h == "u":
      return _raw_union(p, tuple(self.l_ty(y) for y in x[1:]))
    if h == "i":
      return p.Literal(int(x[1]))
    if h == "s":
      return p.Literal(_unhex(x[1]))
    if h == "b":
      return p.Literal(x[1] == "1")
    if h == "a":
      return p.Annotated(self.l_ty(x[1]), tuple(_unhex(y) for y in x[2:]))
    raise ValueError(x)

  def l_opt(self, x):
    return None if x == "-" else self.l_ty(x)

  def l_param(self, x):
    p = self.pytd
    kind = {"r": p.ParameterKind.REGULAR, "o": p.ParameterKind.POSONLY, "k": p.ParameterKind.KWONLY}[x[3]]
    return p.Parameter(x[1], self.l_ty(x[2]), kind, x[4] == "1", self.l_opt(x[5]))

  def l_decl(self, x):
    p = self.pytd
    sc = None if x[2] == "-" else x[2]
    return p.TypeParameter(x[1], constraints=tuple(self.l_ty(y) for y in x[4:]), bound=self.l_opt(x[3]), scope=sc)

  def l_sig(self, x):
    p = self.pytd
    return p.Signature(tuple(self.l_param(y) for y in x[1]), None if x[2] == "-" else self.l_param(x[2]),
                       None if x[3] == "-" else self.l_param(x[3]), self.l_ty(x[4]),
                       tuple(self.l_ty(y) for y in x[5]), tuple(p.TemplateItem(self.l_decl(y)) for y in x[6]))

  def l_decos(self, xs):
    return tuple(self.pytd.Alias(_unhex(y), self.pytd.NamedType(_unhex(y))) for y in xs)

  def l_func(self, x):
    p = self.pytd
    kind = {"m": p.MethodKind.METHOD, "s": p.MethodKind.STATICMETHOD, "c": p.MethodKind.CLASSMETHOD,
            "p": p.MethodKind.PROPERTY}[x[2]]
    fl = p.MethodFlag.NONE
    if x[3] == "1":
      fl |= p.MethodFlag.ABSTRACT
    if x[4] == "1":
      fl |= p.MethodFlag.COROUTINE
    if x[5] == "1":
      fl |= p.MethodFlag.FINAL
    if fl != p.MethodFlag.NONE:
      fl &= ~p.MethodFlag.NONE
    return p.Function(x[1], tuple(self.l_sig(y) for y in x[7:]), kind, fl, self.l_decos(x[6]))

  def l_const(self, x):
    v = x[3]
    if v == "-":
      val = None
    elif v[0] == "e":
      val = self.pytd.AnythingType()
    else:
      val = self.l_ty(v).value
    return self.pytd.Constant(x[1], self.l_ty(x[2]), val)

  def l_cls(self, x):
    p = self.pytd
    return p.Class(name=x[1], keywords=tuple((k[1], self.l_ty(k[2])) for k in x[2]),
                   bases=tuple(self.l_ty(y) for y in x[3]), methods=tuple(self.l_func(y) for y in x[4]),
                   constants=tuple(self.l_const(y) for y in x[5]), classes=tuple(self.l_cls(y) for y in x[6]),
                   decorators=self.l_decos(x[7]), slots=None if x[8] == "-" else tuple(_unhex(s) for s in x[8]),
                   template=tuple(p.TemplateItem(self.l_decl(y)) for y in x[9]))

  def l_unit(self, x):
    p = self.pytd
    return p.TypeDeclUnit(name=_unhex(x[1]) or None, constants=tuple(self.l_const(y) for y in x[2]),
                          type_params=tuple(self.l_decl(y) for y in x[3]), classes=tuple(self.l_cls(y) for y in x[4]),
                          functions=tuple(self.l_func(y) for y in x[5]),
                          aliases=tuple(p.Alias(y[1], self.l_ty(y[2])) for y in x[6]))


def _raw_union(p, members):
  """A UnionType with exactly these members (the model's output may be a one-element or otherwise
  non-normalised union; the constructor would renormalise)."""
  u = p.UnionType(members)
  if tuple(u.type_list) != tuple(members):
    u = u.Replace(type_list=tuple(members))
  return u


def hier_line(tag, d):
  return "%s (%s)" % (tag, " ".join("(%s)" % " ".join([_atom(k)] + [_atom(b) for b in v]) for k, v in d.items()))


def opts_line(o):
  return "O %d %d %d %d %d %d" % (int(o["deps"]), int(o["lossy"]), int(o["use_abcs"]), int(o["max_union"] or 0),
                                    int(o["remove_mutable"]), int(o["can_do_lookup"]))


# ----------------------------------------------------------------------------
# generated declarations over a 6-class hierarchy
# ----------------------------------------------------------------------------
HIER = {"A": [], "B": ["A"], "C": ["A"], "D": ["B", "C"], "E": [], "F": ["E"],
        "builtins.object": [], "builtins.int": ["builtins.object"], "builtins.bool": ["builtins.int"],
        "builtins.str": ["builtins.object"], "builtins.float": ["builtins.object"],
        "builtins.NoneType": ["builtins.object"]}
for _k in ("A", "E"):
  HIER[_k] = ["builtins.object"]
for _k in ("builtins.list", "builtins.set", "builtins.dict", "builtins.tuple", "builtins.type", "typing.Callable",
           "typing.Tuple"):
  HIER[_k] = ["builtins.object"]
HIER["G"] = ["A"]
LEAF_NAMES = ["A", "B", "C", "D", "E", "F", "builtins.int", "builtins.bool", "builtins.str", "builtins.float",
              "builtins.NoneType", "builtins.object"]
GENERIC_BASES = [("builtins.list", 1), ("builtins.set", 1), ("builtins.dict", 2), ("G", 1), ("builtins.tuple", 1),
                 ("typing.Callable", 2), ("builtins.type", 1)]


def random_hier(rng):
  """HIER with the inheritance among the user classes A..G re-drawn (acyclic: bases come from earlier classes of a
  random order; 0-2 bases, `builtins.object` when none)."""
  h = {k: list(v) for k, v in HIER.items()}
  order = ["A", "B", "C", "D", "E", "F"]
  rng.shuffle(order)
  for i, c in enumerate(order):
    k = rng.choice([0, 1, 1, 2]) if i else 0
    bs = rng.sample(order[:i], min(k, i))
    h[c] = bs or ["builtins.object"]
  h["G"] = [rng.choice(order)]
  return h


class Gen:
  """Random pytd declarations.  Every class name is used either always as NamedType or always as
  ClassType inside one unit (mixing both for one name is the known-finding region c11-mixed-name-kinds)."""

  def __init__(self, pytd, rng, kind_mode, extra_names=(), bare_none=True):
    self.p = pytd
    self.r = rng
    self.kind = {}
    self.kind_mode = kind_mode  # "named" | "cls" | "per-name"
    self.pool = []
    self.names = LEAF_NAMES + list(extra_names)
    self.bare_none = bare_none

  def name_ty(self, n):
    if n not in self.kind:
      self.kind[n] = {"named": "n", "cls": "c"}.get(self.kind_mode) or self.r.choice("nc")
    return self.p.NamedType(n) if self.kind[n] == "n" else self.p.ClassType(n)

  def leaf(self):
    p, r = self.p, self.r
    x = r.random()
    if x < 0.07:
      return p.AnythingType()
    if x < 0.09:
      return p.NothingType()
    if x < 0.11:
      return p.LateType(r.choice(["A", "B", "Z"]))
    if x < 0.14:
      return p.TypeParameter("T", scope=None)
    if x < 0.17:
      return p.Literal(r.choice([0, 1, 2, "x", True]))
    if x < 0.19:
      return (p.NamedType("NoneType") if self.kind_mode != "cls" and self.bare_none
              else self.name_ty("builtins.NoneType"))
    return self.name_ty(r.choice(self.names))

  def ty(self, d):
    p, r = self.p, self.r
    if self.pool and r.random() < 0.12:
      return r.choice(self.pool)
    if d <= 0 or r.random() < 0.35:
      t = self.leaf()
    else:
      x = r.random()
      if x < 0.42:
        n = r.choice([2, 2, 2, 3, 3, 4, 5, 8, 9]) if d >= 2 else r.choice([2, 2, 3, 4, 8])
        t = p.UnionType(tuple(self.ty(d - 1) for _ in range(n)))
      elif x < 0.62:
        b, ar = r.choice(GENERIC_BASES)
        if r.random() < 0.08:
          ar = r.choice([1, 2])
        t = p.GenericType(self.name_ty(b), tuple(self.ty(d - 1) for _ in range(ar)))
      elif x < 0.80:
        b = r.choice(["builtins.tuple", "builtins.tuple", "typing.Tuple"])
        t = p.TupleType(self.name_ty(b), tuple(self.ty(d - 1) for _ in range(r.choice([0, 1, 1, 2, 2, 3]))))
      elif x < 0.92:
        t = p.CallableType(self.name_ty("typing.Callable"),
                           tuple(self.ty(d - 1) for _ in range(r.choice([1, 2, 2, 3]))))
      elif x < 0.95:
        t = p.Annotated(self.ty(d - 1), ("'m'",))
      else:
        t = self.leaf()
    if r.random() < 0.3:
      self.pool.append(t)
      if len(self.pool) > 12:
        self.pool.pop(0)
    return t

  def param(self, name, d, in_class=None):
    p, r = self.p, self.r
    t = self.ty(d)
    if name == "self" and in_class and "." not in in_class:
      x = r.random()
      t = (p.GenericType(self.name_ty(in_class), (self.ty(1),)) if x < 0.4
           else p.AnythingType() if x < 0.6 else self.name_ty(in_class))
    mut = self.ty(d) if r.random() < 0.12 else None
    kind = r.choice([p.ParameterKind.REGULAR] * 6 + [p.ParameterKind.POSONLY, p.ParameterKind.KWONLY])
    return p.Parameter(name, t, kind, r.random() < 0.15, mut)

  def sig(self, d, in_class=None, names=("x", "y")):
    p, r = self.p, self.r
    ps = []
    if in_class and r.random() < 0.85:
      ps.append(self.param("self", d, in_class))
    for n in names[: r.choice([0, 1, 1, 1, 2])]:
      ps.append(self.param(n, d))
    star = self.param("args", 1) if r.random() < 0.1 else None
    sstar = self.param("kw", 1) if r.random() < 0.1 else None
    exc = tuple(self.ty(1) for _ in range(r.choice([0, 0, 0, 1, 2])))
    return p.Signature(tuple(ps), star, sstar, self.ty(d), exc, ())

  def with_template(self, s):
    """sig.template lists the type parameters the signature uses (as the parser's AdjustTypeParameters does)."""
    from pytype.pytd import pytd_visitors
    v = pytd_visitors.CollectTypeParameters()
    s.Visit(v)
    return s.Replace(template=tuple(self.p.TemplateItem(t) for t in v.params))

  def func(self, name, d, in_class=None):
    p, r = self.p, self.r
    n = r.choice([1, 1, 2, 2, 3, 4])
    sigs = []
    for _ in range(n):
      x = r.random()
      if sigs and x < 0.2:
        sigs.append(r.choice(sigs))                                   # exact duplicate
      elif sigs and x < 0.5:
        s = r.choice(sigs)                                            # same parameters, other return/exceptions
        sigs.append(s.Replace(return_type=self.ty(d), exceptions=tuple(self.ty(1) for _ in range(r.choice([0, 1])))))
      elif sigs and x < 0.6 and r.choice(sigs).params:
        s = r.choice([s for s in sigs if s.params])                   # one parameter type re-drawn
        i = r.randrange(len(s.params))
        q = s.params[i].Replace(type=self.ty(d))
        sigs.append(s.Replace(params=s.params[:i] + (q,) + s.params[i + 1:]))
      else:
        sigs.append(self.sig(d, in_class))
    sigs = [self.with_template(s) for s in sigs]
    kind = p.MethodKind.METHOD
    if in_class and r.random() < 0.15:
      kind = r.choice([p.MethodKind.STATICMETHOD, p.MethodKind.CLASSMETHOD, p.MethodKind.PROPERTY])
    return p.Function(name, tuple(sigs), kind, p.MethodFlag.NONE, ())

  def cls(self, name, d, bases, nested=True):
    p, r = self.p, self.r
    # methods of nested classes get no `self` (AdjustSelf + LookupClasses cannot resolve "Outer.Inner")
    ms = tuple(self.func("m%d" % i, d, in_class=name if nested else None) for i in range(r.choice([0, 1, 2])))
    cs = tuple(p.Constant("c%d" % i, self.ty(d)) for i in range(r.choice([0, 1, 2])))
    ns = ()
    if nested and r.random() < 0.25:
      ns = (self.cls(name + ".N", d - 1, [r.choice(["A", "E"])], nested=False),)
    return p.Class(name=name, keywords=(), bases=tuple(self.name_ty(b) for b in bases), methods=ms, constants=cs,
                   classes=ns, decorators=(), slots=None, template=())

  def unit(self, d):
    p, r = self.p, self.r
    consts = tuple(p.Constant("k%d" % i, self.ty(d)) for i in range(r.choice([1, 2, 3])))
    funcs = tuple(self.func("f%d" % i, d) for i in range(r.choice([2, 3, 4])))
    classes = []
    for i in range(r.choice([0, 1, 1, 2])):
      bases = r.choice([[], ["A"], ["B"], ["D"], ["F"], ["G"], ["A", "E"]])
      classes.append(self.cls("K%d" % i, d, bases))
    if r.random() < 0.3:
      classes.append(p.Class(name="G", keywords=(), bases=(self.name_ty("A"),), methods=(), constants=(), classes=(),
                             decorators=(), slots=None, template=()))
    aliases = (p.Alias("al", self.ty(d)),) if r.random() < 0.2 else ()
    return p.TypeDeclUnit(name="m", constants=consts, type_params=(), classes=tuple(classes), functions=funcs,
                          aliases=aliases)


def deps_unit(pytd, hier):
  cs = tuple(pytd.Class(name=k, keywords=(), bases=tuple(pytd.NamedType(b) for b in v), methods=(), constants=(),
                        classes=(), decorators=(), slots=None, template=()) for k, v in hier.items())
  return pytd.TypeDeclUnit(name="deps", constants=(), type_params=(), classes=cs, functions=(), aliases=())


PYTYPE_OPTS = {"deps": True, "lossy": False, "use_abcs": False, "max_union": 7, "remove_mutable": False,
               "can_do_lookup": True}
ABC_NAMES = ["int", "float", "bool", "str", "list", "Sequence", "Real", "Integral"]


def gen_opts(rng, uniform=False):
  if uniform or rng.random() < 0.4:
    return dict(PYTYPE_OPTS)
  o = {"deps": rng.random() < 0.7, "lossy": rng.random() < 0.3, "use_abcs": False,
       "max_union": rng.choice([7, 7, 0, 2, 4]), "remove_mutable": rng.random() < 0.3,
       "can_do_lookup": rng.random() < 0.5}
  if o["deps"] and rng.random() < 0.2:
    o["use_abcs"] = True
    o["can_do_lookup"] = False      # the bare abc names are not classes of `deps`
  return o


def real_optimize(mods, unit, deps, o):
  return mods["optimize"].Optimize(unit, deps if o["deps"] else None, lossy=o["lossy"], use_abcs=o["use_abcs"],
                                   max_union=o["max_union"], remove_mutable=o["remove_mutable"],
                                   can_do_lookup=o["can_do_lookup"])


def canon(mods, codec, unit):
  """Strict canonical form: CanonicalOrdering, then the structural dump (ClassType by name: an output may hold
  alias-resolved ClassTypes, which only matter when it is used as an *input* again)."""
  c2 = Codec(codec.pytd, lenient=True)
  c2.tparams = codec.tparams
  return c2.unit(mods["pytd_utils"].CanonicalOrdering(unit))


def load_mods():
  common.load_pytype()
  from pytype.pytd import optimize, pytd, pytd_utils, visitors
  return {"optimize": optimize, "pytd": pytd, "pytd_utils": pytd_utils, "visitors": visitors}


# ----------------------------------------------------------------------------
# the property's own oracle: membership in a finite universe of values
# ----------------------------------------------------------------------------
class Oracle:
  """den over a finite universe: instances (class, slots) up to depth 2 and a few literals.
  Mirrors lean/PytypeModel/Pytd/Den.lean; `sub` is the reflexive-transitive closure of the hierarchy."""

  SCALARS = ["A", "B", "C", "D", "E", "F", "builtins.int", "builtins.bool", "builtins.str", "builtins.float",
             "builtins.NoneType", "builtins.object", "K0", "K1"]
  CONTAINERS = ["builtins.list", "builtins.set", "builtins.dict", "builtins.tuple", "builtins.type", "G",
                "typing.Callable", "typing.Tuple"]

  def __init__(self, pytd, hier, rng):
    self.p = pytd
    self.sup = {}
    names = set(hier) | {b for v in hier.values() for b in v} | set(self.SCALARS) | set(self.CONTAINERS)
    for n in names:
      seen, todo = set(), [n]
      while todo:
        x = todo.pop()
        if x not in seen:
          seen.add(x)
          todo.extend(hier.get(x, ()))
      self.sup[n] = seen
    d0 = [("i", c, ()) for c in self.SCALARS] + [("l", v) for v in (0, 1, 2, "x", True)]
    reps = [d0[0], d0[1], d0[4], d0[6], d0[7], d0[8], d0[10], d0[11], ("l", 1), ("l", "x")]
    d1 = []
    for c in self.CONTAINERS:
      d1.append(("i", c, ()))
      for a in reps:
        d1.append(("i", c, ((a,),)))
        d1.append(("i", c, ((), (a,))))
        for b in reps[:5]:
          d1.append(("i", c, ((a, b),)))
          d1.append(("i", c, ((a,), (b,))))
      for a in reps[:4]:
        for b in reps[:4]:
          for cc in reps[:3]:
            d1.append(("i", c, ((a, b, cc),)))
    d2 = []
    for _ in range(500):
      c = rng.choice(self.CONTAINERS)
      k = rng.choice([1, 1, 2])
      slots = tuple(tuple(rng.choice(d1 if rng.random() < 0.7 else d0) for _ in range(rng.choice([0, 1, 1, 2, 3])))
                    for _ in range(k))
      d2.append(("i", c, slots))
    self.universe = d0 + d1 + d2

  def sub(self, c, n):
    return c == n or n in self.sup.get(c, ())

  @staticmethod
  def cls_of(v):
    if v[0] == "i":
      return v[1]
    x = v[1]
    return "builtins.bool" if isinstance(x, bool) else "builtins.int" if isinstance(x, int) else "builtins.str"

  def admits(self, t, v):
    p = self.p
    c = t.__class__
    if c is p.AnythingType:
      return True
    if c is p.NothingType:
      return False
    if c in (p.NamedType, p.ClassType, p.LateType):
      return self.sub(self.cls_of(v), t.name)
    if c is p.TypeParameter:
      return self.cls_of(v) == "builtins.int"       # a fixed valuation
    if c is p.UnionType:
      return any(self.admits(x, v) for x in t.type_list)
    if c is p.Literal:
      return v[0] == "l" and v[1] == t.value
    if c is p.Annotated:
      return self.admits(t.base_type, v)
    slots = v[2] if v[0] == "i" else ()
    if c is p.GenericType:
      return self.admits(t.base_type, v) and all(
          self.admits(q, e) for q, es in zip(t.parameters, slots) for e in es)
    if c is p.TupleType:
      return (self.admits(t.base_type, v) and len(slots) == 1 and len(slots[0]) == len(t.parameters)
              and all(self.admits(q, e) for q, e in zip(t.parameters, slots[0])))
    if c is p.CallableType:
      res = slots[1] if len(slots) >= 2 else ()
      return self.admits(t.base_type, v) and (not t.parameters or all(self.admits(t.parameters[-1], e) for e in res))
    raise OutOfFragment(c.__name__)

  def den(self, t):
    return frozenset(i for i, v in enumerate(self.universe) if self.admits(t, v))

  def le(self, a, b):
    """first value admitted by `a` but not by `b`, or None"""
    for v in self.universe:
      if self.admits(a, v) and not self.admits(b, v):
        return v
    return None


def _after(q):
  return q.mutated_type if q.mutated_type is not None else q.type


def _plain(pytd, t, max_union):
  """no generic, no Any/object, no union longer than max_union: the lossless pipeline must be exact here"""
  bad = []

  class V(__import__("pytype.pytd.visitors", fromlist=["Visitor"]).Visitor):
    def EnterGenericType(self, n): bad.append(n)
    def EnterTupleType(self, n): bad.append(n)
    def EnterCallableType(self, n): bad.append(n)
    def EnterAnythingType(self, n): bad.append(n)
    def EnterLateType(self, n): bad.append(n)

    def EnterNamedType(self, n):
      if n.name == "builtins.object": bad.append(n)

    def EnterClassType(self, n):
      if n.name == "builtins.object": bad.append(n)

    def EnterUnionType(self, n):
      if max_union and len(n.type_list) > max_union: bad.append(n)
  t.Visit(V())
  return not bad


def widening_failures(mods, orc, before, after, o, limit=3):
  """The oracle of the property on one Optimize call: every type position widens (parameters, returns,
  exceptions, constants, bases, aliases; every signature is covered by one of the result), and — lossless
  settings — types without generics/Any/object/over-long unions keep exactly their values."""
  pytd = mods["pytd"]
  out = []

  def chk(where, a, b, exact=False):
    v = orc.le(a, b)
    if v is not None:
      out.append({"where": where, "before": str(a), "after": str(b), "value_lost": repr(v)})
    elif exact and not o["lossy"] and _plain(pytd, a, o["max_union"]):
      w = orc.le(b, a)
      if w is not None:
        out.append({"where": where, "before": str(a), "after": str(b), "value_gained": repr(w),
                    "why": "lossless settings, no container/Any/object/long union involved: must be exact"})

  def par_le(w, q, r, in_class):
    if (q.name, q.kind, q.optional) != (r.name, r.kind, r.optional):
      return False
    if o["remove_mutable"] and in_class and q.name in ("self", "cls"):
      return True      # visitors.AdjustSelf re-annotates a receiver that is (or was absorbed to) Any: outside the claim
    return orc.le(q.type, r.type) is None and orc.le(_after(q), _after(r)) is None

  def sig_le(w, s, t, in_class):
    if len(s.params) != len(t.params) or (s.starargs is None) != (t.starargs is None) or \
       (s.starstarargs is None) != (t.starstarargs is None):
      return False
    for q, r in zip(s.params, t.params):
      if not par_le(w, q, r, in_class):
        return False
    for q, r in ((s.starargs, t.starargs), (s.starstarargs, t.starstarargs)):
      if q is not None and not par_le(w, q, r, in_class):
        return False
    if orc.le(s.return_type, t.return_type) is not None:
      return False
    return all(any(orc.le(e, e2) is None for e2 in t.exceptions) for e in s.exceptions)

  def funcs(w, fs, gs, in_class):
    gd = {g.name: g for g in gs}
    for f in fs:
      g = gd.get(f.name)
      if g is None:
        out.append({"where": w + f.name, "lost": "function"})
        continue
      for i, s in enumerate(f.signatures):
        if not any(sig_le(w, s, t, in_class) for t in g.signatures):
          detail = []
          if len(g.signatures) == 1 and len(g.signatures[0].params) == len(s.params):
            t = g.signatures[0]
            for q, r in zip(s.params, t.params):
              v = orc.le(q.type, r.type)
              if v is not None:
                detail.append({"parameter": q.name, "before": str(q.type), "after": str(r.type), "value_lost": repr(v)})
            v = orc.le(s.return_type, t.return_type)
            if v is not None:
              detail.append({"return": True, "before": str(s.return_type), "after": str(t.return_type), "value_lost": repr(v)})
            for e in s.exceptions:
              if not any(orc.le(e, e2) is None for e2 in t.exceptions):
                detail.append({"exception": str(e), "after": [str(x) for x in t.exceptions]})
          out.append({"where": "%s%s signature %d" % (w, f.name, i), "before": repr(f.signatures[i])[:1500],
                      "after": repr(g.signatures)[:3000], "lost": "no signature of the result covers it",
                      "detail": detail[:4]})
      # exactness of single-signature functions over plain types
      if len(f.signatures) == 1 and len(g.signatures) == 1:
        s, t = f.signatures[0], g.signatures[0]
        if len(s.params) == len(t.params):
          for q, r in zip(s.params, t.params):
            if not (in_class and q.name in ("self", "cls")) and q.mutated_type is None:
              chk("%s%s(%s)" % (w, f.name, q.name), q.type, r.type, exact=True)

  def consts(w, cs, ds):
    dd = {d.name: d for d in ds}
    for c in cs:
      d = dd.get(c.name)
      if d is None:
        out.append({"where": w + c.name, "lost": "constant"})
      else:
        chk(w + c.name, c.type, d.type, exact=True)

  def classes(w, cs, ds):
    dd = {d.name: d for d in ds}
    for c in cs:
      d = dd.get(c.name)
      if d is None:
        out.append({"where": w + c.name, "lost": "class"})
        continue
      funcs(w + c.name + ".", c.methods, d.methods, True)
      consts(w + c.name + ".", c.constants, d.constants)
      for i, (a, b) in enumerate(zip(c.bases, d.bases)):
        chk("%s%s base %d" % (w, c.name, i), a, b)
      classes(w + c.name + ".", c.classes, d.classes)
  consts("", before.constants, after.constants)
  funcs("", before.functions, after.functions, False)
  classes("", before.classes, after.classes)
  for a, b in zip(before.aliases, after.aliases):
    if isinstance(a.type, pytd.Type) and isinstance(b.type, pytd.Type):
      chk("alias " + a.name, a.type, b.type)
  return out[:limit]


def show(mods, unit):
  """What io.py emits (CanonicalOrdering, printed); the structural dump where the printer refuses the tree."""
  pu = mods["pytd_utils"]
  c = pu.CanonicalOrdering(unit)
  try:
    return pu.Print(c)
  except Exception:  # printer assertions on shapes the parser never produces (e.g. Callable[[A | B], …] as GenericType)
    try:
      return Codec(mods["pytd"], lenient=True).unit(c)
    except OutOfFragment:
      return repr(c)


def idempotence_failure(mods, unit, deps, o):
  """Optimize(Optimize(x)) vs Optimize(x), compared as io.py emits them (CanonicalOrdering, printed).
  Returns (diff description | None, characterised region | None)."""
  pu = mods["pytd_utils"]
  pytd = mods["pytd"]
  r1 = real_optimize(mods, unit, deps, o)
  r2 = real_optimize(mods, r1, deps, o)
  p1, p2 = show(mods, r1), show(mods, r2)
  if p1 == p2:
    return None, None
  region = None
  dup = []

  dupexc = []

  class V(mods["visitors"].Visitor):
    def EnterFunction(self, f):
      if len(set(f.signatures)) < len(f.signatures):
        dup.append(f.name)

    def EnterSignature(self, s):
      if len(set(s.exceptions)) < len(s.exceptions):
        dupexc.append(s)
  r1.Visit(V())
  anyu = []

  class W(mods["visitors"].Visitor):
    def EnterUnionType(self, u):
      if any(isinstance(t, pytd.AnythingType) for t in u.type_list):
        anyu.append(u)
  r1.Visit(W())
  late_object = show(mods, r1.Visit(mods["optimize"].AdjustReturnAndConstantGenericType())) != p1
  same_str = []

  class X(mods["visitors"].Visitor):
    def EnterUnionType(self, u):
      ms = [str(t) for t in u.type_list if isinstance(t, pytd.GENERIC_BASE_TYPE)]
      if len(set(ms)) < len(ms):
        same_str.append(u)
  r1.Visit(X())
  alias = []

  class Y(mods["visitors"].Visitor):
    def EnterClassType(self, t):
      if t.cls is not None and t.cls.name != t.name:
        alias.append(t)
  r1.Visit(Y())
  if same_str:
    region = "c11-same-str-members"
  elif alias:
    region = "c11-alias-resolved-classtype"
  elif dup:
    region = "c11-dup-sigs-after-merge"
  elif dupexc:
    region = "c11-dup-exceptions-after-simplify"
  elif late_object:
    region = "c11-object-resolved-late"
  elif anyu:
    region = "c11-union-any-after-adjust"
  return {"first": p1, "second": p2}, region


# ----------------------------------------------------------------------------
# K — correspondence
# ----------------------------------------------------------------------------
REQUIRED = [
    "joinTypes_exact", "pyEq_sound", "simplifyUnions_widens", "combineContainers_widens", "simplifyContainers_widens",
    "simplifyUnionsWithSuperclasses_widens", "findCommonSuperClasses_widens", "collapseLongUnions_widens",
    "adjustGenericType_widens", "normalizeGenericSelfTypes_widens", "removeDuplicates_widens",
    "combineReturnsAndExceptions_widens", "absorbMutableParameters_widens", "mergeTypeParameters_widens",
    "optimize_widens", "optimize_widens_before_adjustSelf", "adjustSelf_only_receiver", "optimize_widens_functions", "optimize_widens_classes", "optimize_widens_signature",
    "optimize_widens_ty", "widens_not_full_mixed", "widens_not_full_cyclic", "lossless_changes",
    "optimize_idempotent_not_full", "optimize_idempotent_not_full_object", "optimize_idempotent_not_full_lookup",
    "optimize_idempotent_partial", "removeDuplicates_idempotent", "joinTypes_idempotent",
    "simplifyUnions_exact", "simplifyContainers_exact", "simplifyUnionsWithSuperclasses_exact",
]


def fragment_unit(mods, codec, unit):
  """The unit restricted to the declarations the model's dialect can express; returns (unit, dropped)."""
  pytd = mods["pytd"]
  keep = {"constants": [], "classes": [], "functions": [], "aliases": [], "type_params": []}
  dropped = 0
  for field, dump in (("constants", codec.const), ("classes", codec.cls), ("functions", codec.func),
                      ("aliases", codec.alias), ("type_params", codec.decl)):
    for d in getattr(unit, field):
      try:
        dump(d)
        keep[field].append(d)
      except OutOfFragment:
        dropped += 1
  return pytd.TypeDeclUnit(name=unit.name, constants=tuple(keep["constants"]), type_params=tuple(keep["type_params"]),
                           classes=tuple(keep["classes"]), functions=tuple(keep["functions"]),
                           aliases=tuple(keep["aliases"])), dropped


class Case:
  __slots__ = ("kind", "unit", "deps_h", "opts", "codec", "real", "real_err", "src")

  def __init__(self, kind, unit, deps_h, opts, codec, src=None):
    self.kind, self.unit, self.deps_h, self.opts, self.codec, self.src = kind, unit, deps_h, opts, codec, src
    self.real = self.real_err = None


def run_cases(mods, drv, cases, abcs):
  """Feeds every case to the real Optimize and to the model; returns (disagreements, stats)."""
  lines = [hier_line("X", abcs)]
  last_h = None
  for c in cases:
    if c.deps_h is not last_h:
      lines.append(hier_line("H", c.deps_h))
      last_h = c.deps_h
    lines.append(opts_line(c.opts))
    sx = c.codec.unit(c.unit)
    lines.append("U " + sx)
    lines.append("G " + sx)
  out = drv.batch(lines)
  assert len(out) == 2 * len(cases), (len(out), len(cases))
  dis = []
  stats = {"changed": 0, "in_guard": 0, "unsupported": 0, "compared": 0, "fuel_short": 0}
  for i, c in enumerate(cases):
    m, g = out[2 * i], out[2 * i + 1]
    if m == "unsupported":
      stats["unsupported"] += 1
      continue
    stats["compared"] += 1
    if g.startswith("1 1"):
      stats["in_guard"] += 1
    if not g.endswith(" 1"):
      stats["fuel_short"] += 1
      dis.append({"kind": c.kind + ": CombineContainers fuel of the model not sufficient", "opts": c.opts,
                  "input": c.codec.unit(c.unit), "real": "-", "model": g})
    if c.real_err is not None:
      rc = "EXC " + c.real_err
    else:
      try:
        rc = canon(mods, c.codec, c.real)
      except OutOfFragment as e:
        stats["compared"] -= 1
        stats["unsupported"] += 1
        continue
    try:
      mc = canon(mods, c.codec, c.codec.l_unit(Codec.parse(m)))
    except Exception as e:  # pylint: disable=broad-except
      mc = "MODEL-OUTPUT " + m[:300] + " " + repr(e)
    if c.real_err is None and rc.replace("(n ", "(c ") != canon(mods, c.codec, c.unit).replace("(n ", "(c "):
      stats["changed"] += 1       # changed by more than LookupClasses' NamedType -> ClassType
    if mc != rc:
      dis.append({"kind": c.kind, "opts": c.opts, "input": c.codec.unit(c.unit), "deps": c.deps_h if len(c.deps_h) < 60 else "<large>",
                  "real": rc, "model": mc, "src": c.src})
  return dis, stats


def gen_type_lists(mods, rng, n):
  pytd = mods["pytd"]
  out = []
  for _ in range(n):
    g = Gen(pytd, rng, rng.choice(["named", "cls", "per-name"]))
    out.append([g.ty(rng.choice([0, 1, 1, 2])) for _ in range(rng.choice([0, 1, 2, 2, 3, 4, 6]))])
  return out


def k_jointypes(mods, drv, rng, n, res):
  """JoinTypes and node equality / hash directly."""
  pytd, pu = mods["pytd"], mods["pytd_utils"]
  cd = Codec(pytd)
  lists = gen_type_lists(mods, rng, n)
  lines = []
  for ts in lists:
    lines.append("J (%s)" % " ".join(cd.ty(t) for t in ts))
  pairs = []
  for ts in lists:
    if len(ts) >= 2:
      a, b = ts[0], ts[1]
      if rng.random() < 0.5 and isinstance(a, pytd.UnionType):
        b = _raw_union(pytd, tuple(reversed(a.type_list)))      # same set, other order
      pairs.append((a, b))
      lines.append("Q %s %s" % (cd.ty(a), cd.ty(b)))
  out = drv.batch(lines)
  dis = []
  for ts, m in zip(lists, out[:len(lists)]):
    r = cd.ty(pu.JoinTypes(ts))
    if r != m:
      dis.append({"kind": "JoinTypes", "input": [cd.ty(t) for t in ts], "real": r, "model": m})
  eq_true = 0
  for (a, b), m in zip(pairs, out[len(lists):]):
    r = "1" if a == b else "0"
    eq_true += r == "1"
    if r != m:
      dis.append({"kind": "node ==", "input": [cd.ty(a), cd.ty(b)], "real": r, "model": m})
    if a == b and hash(a) != hash(b):
      dis.append({"kind": "== but different hash (dict/set lookups of the optimiser rely on it)",
                  "input": [cd.ty(a), cd.ty(b)], "real": "hash differs", "model": "-"})
  res.cov["distribution"]["jointypes_cases"] = len(lists)
  res.cov["distribution"]["eq_pairs"] = len(pairs)
  res.cov["distribution"]["eq_pairs_equal"] = eq_true
  return dis, len(lists) + len(pairs)


PROGRAMS = [
    "def f(x):\n  if x: return object()\n  return [1]\n",
    "class A: pass\nclass B(A): pass\ndef g(x):\n  if x: return A()\n  return B()\ndef h(x):\n  if x: return [A()]\n  return [B()]\n",
    "def f(x):\n  if x: return (1, 'a')\n  return (1, 2, 3)\ndef g(x, y):\n  if x: return {1: 'a'}\n  if y: return {'a': 1.0}\n  return None\n",
    "def f(a, b, c):\n  if a: return 1\n  if b: return 'a'\n  if c: return 1.0\n  return [a]\nx = [f(1, 2, 3), None]\n",
    "class K:\n  def m(self, x):\n    if x: return self\n    return None\n  def n(self):\n    return [self, 1, 'a', 2.0, None, (1,), {1}, b'x']\n",
    "import typing\ndef f(x: int) -> typing.Callable[[int], str]: ...\ndef g(x):\n  if x: return lambda a: a\n  return f\n",
]


def gen_program(rng, i):
  """A small program over builtins: functions returning unions of containers / classes."""
  vals = ["1", "'a'", "1.0", "None", "[1]", "['a']", "(1, 'a')", "(1,)", "{1: 'a'}", "{'a'}", "A()", "B()", "[A()]",
          "[B()]", "object()", "True", "(A(), B())", "lambda: 1", "lambda: 'a'", "b'x'", "{1: [A()]}", "{1: [B()]}"]
  src = ["class A: pass", "class B(A): pass", "class C(B): pass"]
  for k in range(rng.choice([2, 3, 4])):
    n = rng.choice([2, 3, 4, 5, 9])
    body = ["def f%d_%d(x):" % (i, k)]
    for j in range(n - 1):
      body.append("  if x == %d: return %s" % (j, rng.choice(vals)))
    body.append("  return %s" % rng.choice(vals))
    src.append("\n".join(body))
  src.append("class K%d:\n  def m(self, x):\n    if x: return %s\n    return %s\n  y = %s" % (
      i, rng.choice(vals), rng.choice(vals), rng.choice(vals)))
  return "\n".join(src) + "\n"


def emitted_cases(mods, srcs):
  """(node, deps) pairs exactly as io.generate_pyi_ast hands them to optimize.Optimize."""
  from pytype import config, io
  opt = mods["optimize"]
  calls = []
  orig = opt.Optimize

  def spy(node, deps=None, **kw):
    if isinstance(node, mods["pytd"].TypeDeclUnit):
      calls.append((node, deps, kw))
    return orig(node, deps, **kw)
  opt.Optimize = spy
  try:
    for src in srcs:
      n0 = len(calls)
      try:
        io.generate_pyi(src, config.Options.create(python_version=(3, 12)))
      except Exception as e:  # pylint: disable=broad-except
        continue
      for j in range(n0, len(calls)):
        calls[j] = calls[j] + (src,)
  finally:
    opt.Optimize = orig
  return [c for c in calls if len(c) == 4]


def family_units(pytd):
  N, G, U = pytd.NamedType, pytd.GenericType, pytd.UnionType
  g = lambda b, *ts: G(N(b), tuple(ts))
  i, s, b, f, n = N("int"), N("str"), N("bool"), N("float"), N("NoneType")
  tys = [
      U((g("list", g("list", i)), g("list", g("list", b)))),
      U((g("list", g("list", i)), g("list", g("list", s)), g("list", g("set", s)))),
      U((g("dict", s, g("list", i)), g("dict", s, g("list", s)))),
      U((g("dict", s, g("dict", s, i)), g("dict", i, g("dict", s, f)))),
      U((g("set", g("set", i)), g("set", g("set", s)), n)),
      U((g("list", g("list", g("list", i))), g("list", g("list", g("list", s))))),
      U((g("list", g("dict", s, g("list", i))), g("list", g("dict", s, g("list", f))))),
      U((g("list", U((g("list", i), g("list", s)))), g("list", g("list", f)))),
      g("list", U((g("list", i), g("list", b)))),
      U((g("list", i), g("list", s), g("set", i), g("set", s))),
  ]
  units = []
  consts = tuple(pytd.Constant("x%d" % k, t) for k, t in enumerate(tys))
  units.append(_mk(pytd, constants=consts))
  fns = []
  for k, t in enumerate(tys):
    fns.append(_fn(pytd, "f%d" % k, [_sig(pytd, [("a", t)], t)]))
    if isinstance(t, pytd.UnionType):
      fns.append(_fn(pytd, "o%d" % k, [_sig(pytd, [("a", i)], m) for m in t.type_list]))
  units.append(_mk(pytd, functions=tuple(fns)))
  return units


def correspond(res, rng, tier):
  mods = load_mods()
  pytd, vis = mods["pytd"], mods["visitors"]
  drv = common.Driver("drv_c11")     # built together with the Props module in stage P (extra_targets)
  from pytype.pytd import abc_hierarchy
  abcs = abc_hierarchy.GetSuperClasses()
  res.cov["distribution"] = {}
  disagreements = []
  t0 = time.time()

  # 1) generated declarations
  n_units = 300 if tier == "quick" else 8000
  # the class hierarchy changes between blocks of cases (same class names, different inheritance), all in one process:
  # nothing the optimiser computed for an earlier hierarchy may survive into a later one
  hiers = [HIER] + [random_hier(rng) for _ in range(5 if tier == "quick" else 40)]
  hdeps = []
  for h in hiers:
    dp = deps_unit(pytd, h)
    hdeps.append((dp, dp.Visit(vis.ExtractSuperClassesByName())))
  cases = []
  case_deps = []
  n_decl = 0
  for i in range(n_units):
    deps, deps_h = hdeps[(i // 12) % len(hdeps)]
    o = gen_opts(rng)
    g = Gen(pytd, rng, rng.choice(["named", "cls", "per-name"]), extra_names=ABC_NAMES if o["use_abcs"] else ())
    u = g.unit(rng.choice([1, 2, 2, 3]))
    n_decl += len(u.constants) + len(u.functions) + len(u.classes) + len(u.aliases)
    cases.append(Case("generated", u, deps_h, o, Codec(pytd)))
    case_deps.append(deps)
  # deterministic family: unions of same-base containers whose parameters are again same-base containers (depth 2 and
  # 3), as constants, parameters, returns and overloads, under the settings that decide which passes run
  for u in family_units(pytd):
    for o in (dict(PYTYPE_OPTS), dict(PYTYPE_OPTS, remove_mutable=True), dict(PYTYPE_OPTS, deps=False),
              dict(PYTYPE_OPTS, max_union=2), dict(PYTYPE_OPTS, lossy=True)):
      cases.append(Case("family", u, hdeps[0][1], o, Codec(pytd)))
      case_deps.append(hdeps[0][0])
  for c, deps in zip(cases, case_deps):
    try:
      c.real = real_optimize(mods, c.unit, deps, c.opts)
    except Exception as e:  # pylint: disable=broad-except
      c.real_err = repr(e)[:300]
  d1, st1 = run_cases(mods, drv, cases, abcs)
  disagreements += d1
  # second run: the optimiser on its own output (model and code must also agree there)
  cases2 = []
  case2_deps = []
  for c, deps in zip(cases, case_deps):
    if c.real is None:
      continue
    cd = Codec(pytd)
    try:
      cd.unit(c.real)
    except OutOfFragment:
      continue
    c2 = Case("generated, second run", c.real, c.deps_h, c.opts, cd)
    cases2.append(c2)
    case2_deps.append(deps)
  for c, deps in zip(cases2, case2_deps):
    try:
      c.real = real_optimize(mods, c.unit, deps, c.opts)
    except Exception as e:  # pylint: disable=broad-except
      c.real_err = repr(e)[:300]
  d2, st2 = run_cases(mods, drv, cases2, abcs)
  disagreements += d2
  nonidem = st2["changed"]
  t1 = time.time()

  # 2) JoinTypes, ==, hash
  d3, n3 = k_jointypes(mods, drv, rng, 600 if tier == "quick" else 20000, res)
  disagreements += d3

  # 3) stubs emitted by io.generate_pyi for generated programs: the very (node, deps) Optimize receives
  srcs = PROGRAMS[: 3 if tier == "quick" else len(PROGRAMS)]
  srcs += [gen_program(rng, i) for i in range(3 if tier == "quick" else 80)]
  em = emitted_cases(mods, srcs)
  cases3 = []
  dropped = 0
  # anchors: the settings io.generate_pyi_ast passes and the container-name table are what the model assumes
  expect_kw = {"lossy": False, "use_abcs": False, "max_union": 7, "remove_mutable": False}
  for node, dps, kw, src in em[:1]:
    if kw != expect_kw or dps is None:
      disagreements.append({"kind": "io.generate_pyi_ast call site", "real": repr(kw) + " deps=%r" % (dps is not None),
                            "model": repr(expect_kw) + " deps=True (Opts.pytype)"})
  names = {k.__name__: tuple(v) for k, v in mods["optimize"].CombineContainers._CONTAINER_NAMES.items()}
  if names != {"TupleType": ("builtins.tuple", "typing.Tuple"), "CallableType": ("typing.Callable",)}:
    disagreements.append({"kind": "CombineContainers._CONTAINER_NAMES", "real": repr(names), "model": "containerNames"})
  for node, dps, kw, src in em:
    cd = Codec(pytd)
    fu, dr = fragment_unit(mods, cd, node)
    dropped += dr
    dh = dps.Visit(vis.ExtractSuperClassesByName()) if dps is not None else {}
    dh = {k: v for k, v in dh.items() if _ATOM.match(k) and all(_ATOM.match(b) for b in v)}
    o = {"deps": dps is not None, "lossy": kw.get("lossy", False), "use_abcs": kw.get("use_abcs", False),
         "max_union": kw.get("max_union", 7), "remove_mutable": kw.get("remove_mutable", False),
         "can_do_lookup": kw.get("can_do_lookup", True)}
    c = Case("emitted", fu, dh, o, cd, src=src)
    try:
      c.real = mods["optimize"].Optimize(fu, dps, **kw)
    except Exception as e:  # pylint: disable=broad-except
      c.real_err = repr(e)[:300]
    cases3.append(c)
  d4, st3 = run_cases(mods, drv, cases3, abcs)
  disagreements += d4

  # 4) bundled stubs (thorough): in-fragment declarations of builtins.pytd / typing.pytd, as the loader resolves them
  st4 = {"compared": 0, "changed": 0, "in_guard": 0, "unsupported": 0, "fuel_short": 0}
  bundled_dropped = 0
  if tier == "thorough":
    from pytype import config, load_pytd
    loader = load_pytd.create_loader(config.Options.create(python_version=(3, 12)))
    cases4 = []
    for name in ("builtins", "typing"):
      ast = loader.import_name(name)
      whole_h = ast.Visit(vis.ExtractSuperClassesByName())
      whole_h = {k: v for k, v in whole_h.items() if _ATOM.match(k) and all(_ATOM.match(b) for b in v)}
      # one case per class / chunk of functions, so that one out-of-fragment declaration costs little
      decls = [("classes", c) for c in ast.classes] + [("functions", f) for f in ast.functions] + \
              [("constants", k) for k in ast.constants]
      for j in range(0, len(decls), 8):
        part = decls[j:j + 8]
        u = pytd.TypeDeclUnit(name=ast.name, constants=tuple(d for f, d in part if f == "constants"), type_params=(),
                              classes=tuple(d for f, d in part if f == "classes"),
                              functions=tuple(d for f, d in part if f == "functions"), aliases=())
        cd = Codec(pytd)
        fu, dr = fragment_unit(mods, cd, u)
        bundled_dropped += dr
        if not (fu.classes or fu.functions or fu.constants):
          continue
        c = Case("bundled " + name, fu, whole_h, dict(PYTYPE_OPTS), cd)
        try:
          c.real = real_optimize(mods, fu, ast, c.opts)
        except Exception as e:  # pylint: disable=broad-except
          c.real_err = repr(e)[:300]
        cases4.append(c)
    d5, st4 = run_cases(mods, drv, cases4, abcs)
    disagreements += d5

  res.cov["evaluations"] = st1["compared"] + st2["compared"] + n3 + st3["compared"] + st4["compared"]
  res.cov["distinct_nontrivial"] = st1["changed"] + st3["changed"] + st4["changed"]
  res.cov["exhaustive"] = False
  res.cov["rule"] = (
      "real optimize.Optimize (in-process, /repo working tree) vs the compiled Lean model on the same pytd tree sent as "
      "an s-expression; both outputs through pytd_utils.CanonicalOrdering and compared *structurally* (stricter than the "
      "printed text: NamedType vs ClassType and one-element unions are distinguished). Inputs: generated units over a "
      "6-class hierarchy + builtins (unions up to 9 members, nested generics, tuples of arity 0-3 next to homogeneous "
      "ones, Callable/CallableType, Any/object/NoneType/nothing/LateType/TypeVar/Literal/Annotated, overloads built to "
      "collide after optimisation, mutated parameters, nested classes, generic self) x random option settings (deps, "
      "lossy, use_abcs, max_union in {0,2,4,7}, remove_mutable, can_do_lookup; 40% exactly io.generate_pyi_ast's); every "
      "first-run output is optimised a second time by both sides; pytd_utils.JoinTypes / node == / hash on random type "
      "lists; the (node, deps) pairs io.generate_pyi hands to Optimize for fixed and generated programs; thorough: "
      "in-fragment declarations of the bundled builtins.pytd/typing.pytd. non-trivial = the optimiser changed the unit; "
      "distinct = every generated unit is distinct with overwhelming probability (seeded)")
  res.cov["distribution"].update({
      "generated_units": n_units, "generated_decls": n_decl, "generated_changed_by_optimize": st1["changed"],
      "generated_inside_theorem_guard": st1["in_guard"], "generated_unsupported_by_model": st1["unsupported"],
      "second_run_cases": st2["compared"], "second_run_changed_again(non_idempotent, model agrees)": nonidem,
      "emitted_optimize_calls": len(cases3), "emitted_decls_outside_fragment": dropped,
      "emitted_inside_theorem_guard": st3["in_guard"], "emitted_changed": st3["changed"],
      "bundled_cases": st4["compared"], "bundled_decls_outside_fragment": bundled_dropped,
      "bundled_inside_theorem_guard": st4["in_guard"], "bundled_changed": st4["changed"],
      "model_fuel_insufficient": st1["fuel_short"] + st2["fuel_short"] + st3["fuel_short"] + st4["fuel_short"],
      "options_pytype_share": sum(1 for c in cases if c.opts == PYTYPE_OPTS) / max(1, len(cases)),
      "seconds_generated": round(t1 - t0, 1), "seconds_total": round(time.time() - t0, 1),
  })
  ex = cases[0]
  res.add_samples([{"opts": ex.opts, "input": ex.codec.unit(ex.unit)[:700],
                    "real==model": canon(mods, ex.codec, ex.real)[:700] if ex.real is not None else ex.real_err}])
  if cases3:
    ex = cases3[0]
    res.add_samples([{"emitted_from": ex.src, "input": ex.codec.unit(ex.unit)[:500],
                      "real==model": canon(mods, ex.codec, ex.real)[:500] if ex.real is not None else ex.real_err}])
  return disagreements[:40]


# ----------------------------------------------------------------------------
# W — known findings, replayed on the real code with the property's own oracle
# ----------------------------------------------------------------------------
def _mk(pytd, **kw):
  d = dict(name="m", constants=(), type_params=(), classes=(), functions=(), aliases=())
  d.update(kw)
  return pytd.TypeDeclUnit(**d)


def _fn(pytd, name, sigs):
  return pytd.Function(name, tuple(sigs), pytd.MethodKind.METHOD, pytd.MethodFlag.NONE, ())


def _sig(pytd, params, ret, exc=()):
  ps = tuple(pytd.Parameter(n, t, pytd.ParameterKind.REGULAR, False, None) for n, t in params)
  return pytd.Signature(ps, None, None, ret, tuple(exc), ())


def witness_units(mods):
  """id -> (unit, deps hierarchy, options, which half of the property fails)."""
  pytd = mods["pytd"]
  N, C, G, U = pytd.NamedType, pytd.ClassType, pytd.GenericType, pytd.UnionType
  lst = lambda t: G(N("list"), (t,))
  no_deps = dict(PYTYPE_OPTS, deps=False)
  return {
      "c11-dup-sigs-after-merge": (
          _mk(pytd, functions=(_fn(pytd, "f", [
              _sig(pytd, [("x", U((lst(N("int")), lst(N("str")))))], N("int")),
              _sig(pytd, [("x", lst(U((N("int"), N("str")))))], N("int"))]),)), {}, no_deps, "idempotence"),
      "c11-dup-exceptions-after-simplify": (
          _mk(pytd, functions=(_fn(pytd, "f", [_sig(pytd, [("x", N("A"))], N("A"), exc=(N("A"), U((N("A"), N("B")))))]),)),
          {"A": [], "B": ["A"]}, dict(PYTYPE_OPTS, can_do_lookup=False), "idempotence"),
      "c11-union-any-after-adjust": (
          _mk(pytd, functions=(_fn(pytd, "f", [
              _sig(pytd, [("x", pytd.AnythingType())],
                   U((C("builtins.object"), G(C("builtins.list"), (C("builtins.int"),)))))]),)), {}, no_deps, "idempotence"),
      "c11-object-resolved-late": (
          _mk(pytd, functions=(_fn(pytd, "f", [_sig(pytd, [], N("builtins.object"))]),)),
          {"builtins.object": []}, dict(PYTYPE_OPTS), "idempotence"),
      "c11-same-str-members": (
          _mk(pytd, constants=(pytd.Constant("x", U((N("A"), C("A")))),)), {"A": []},
          dict(PYTYPE_OPTS, can_do_lookup=False), "widening"),
  }


def replay_witness(mods, wid):
  """Returns a description of what fails, or None if the witness no longer fails."""
  pytd = mods["pytd"]
  unit, hier, o, half = witness_units(mods)[wid]
  deps = deps_unit(pytd, hier) if o["deps"] else None
  if half == "idempotence":
    d, _ = idempotence_failure(mods, unit, deps, o)
    if d is None:
      return None
    return "Optimize(Optimize(x)) != Optimize(x): first run prints %r, second run %r" % (
        d["first"].strip()[-160:], d["second"].strip()[-160:])
  orc = Oracle(pytd, dict(hier), random.Random(1))
  r = real_optimize(mods, unit, deps, o)
  f = widening_failures(mods, orc, unit, r, o)
  if not f:
    return None
  return "narrowed: %s: %s -> %s loses %s" % (f[0]["where"], f[0].get("before"), f[0].get("after"), f[0].get("value_lost"))


def witnesses(res):
  mods = load_mods()
  known, fixed = common.known_findings("C11")
  replayed = []
  for e in known:
    wid = e["id"]
    if wid not in witness_units(mods):
      res.violation("unknown-witness", {"property": "C11", "kind": "known finding without replay", "id": wid})
      continue
    what = replay_witness(mods, wid)
    replayed.append({"id": wid, "still_fails": what is not None})
    if what is not None:
      res.known_lines.append("%s: %s" % (wid, e["what"]))
  # the emitted-stub form of the object->Any finding: a program whose stub io.generate_pyi emits non-idempotently
  try:
    from pytype import config, io
    ret, txt = io.generate_pyi(PROGRAMS[0], config.Options.create(python_version=(3, 12)))
    again = mods["pytd_utils"].Print(mods["pytd_utils"].CanonicalOrdering(
        mods["optimize"].Optimize(ret.ast, ret.ast_deps, lossy=False, use_abcs=False, max_union=7, remove_mutable=False)))
    replayed.append({"id": "c11-union-any-after-adjust (through io.generate_pyi)",
                     "emitted": txt.strip().splitlines()[-1], "after_second_Optimize": again.strip().splitlines()[-1],
                     "still_fails": txt.strip() != again.strip()})
  except Exception as e:  # pylint: disable=broad-except
    replayed.append({"id": "generate_pyi replay", "error": repr(e)[:200]})
  # the acyclicity hypothesis of the theorems (not a finding: cyclic inheritance is not a class hierarchy)
  pytd = mods["pytd"]
  cyc = _mk(pytd, constants=(pytd.Constant("x", pytd.UnionType((pytd.NamedType("A"), pytd.NamedType("B")))),))
  r = real_optimize(mods, cyc, deps_unit(pytd, {"A": ["B"], "B": ["A"]}), dict(PYTYPE_OPTS, can_do_lookup=False))
  replayed.append({"id": "assumption Antisymm (cyclic hierarchy A(B), B(A): x: A | B)", "real_output": str(r.constants[0].type)})
  res.cov["witnesses_replayed"] = replayed
  for e in fixed:
    res.violation("fixed-witness", {"property": "C11", "kind": "fixed entry without replay", "id": e.get("id")})


# ----------------------------------------------------------------------------
# S — search with the property's oracle (only when P or K broke)
# ----------------------------------------------------------------------------
CHARACTERISED = ("c11-dup-sigs-after-merge", "c11-dup-exceptions-after-simplify", "c11-union-any-after-adjust",
                 "c11-object-resolved-late", "c11-same-str-members", "c11-alias-resolved-classtype")


def check_unit(mods, unit, hier, o, orc_rng_seed=3):
  """The property on one input of the real Optimize: list of failures (empty = holds)."""
  pytd, vis = mods["pytd"], mods["visitors"]
  deps = deps_unit(pytd, hier) if o["deps"] else None
  h = dict(hier) if o["deps"] else {}
  if o["deps"]:
    h.update(unit.Visit(vis.ExtractSuperClassesByName()))
  orc = Oracle(pytd, h, random.Random(orc_rng_seed))
  try:
    r = real_optimize(mods, unit, deps, o)
  except Exception as e:  # pylint: disable=broad-except
    return [{"crash": repr(e)[:300]}]
  out = widening_failures(mods, orc, unit, r, o)
  if not o["lossy"] and not o["remove_mutable"]:
    d, region = idempotence_failure(mods, unit, deps, o)
    if d is not None and region not in CHARACTERISED:
      out.append({"not_idempotent": d})
  return out


def shrink_unit(mods, unit, hier, o):
  pytd = mods["pytd"]
  items = [("c", x) for x in unit.constants] + [("f", x) for x in unit.functions] + [("k", x) for x in unit.classes] + \
          [("a", x) for x in unit.aliases]

  def build(its):
    return unit.Replace(constants=tuple(x for k, x in its if k == "c"), functions=tuple(x for k, x in its if k == "f"),
                        classes=tuple(x for k, x in its if k == "k"), aliases=tuple(x for k, x in its if k == "a"))

  def fails(its):
    return bool(check_unit(mods, build(its), hier, o))
  small = common.ddmin(items, fails, budget_s=20.0)
  u = build(small)
  # then drop signatures one at a time
  t0 = time.time()
  changed = True
  while changed and time.time() - t0 < 15:
    changed = False
    for i, f in enumerate(u.functions):
      for j in range(len(f.signatures)):
        if len(f.signatures) <= 1:
          break
        g = f.Replace(signatures=f.signatures[:j] + f.signatures[j + 1:])
        cand = u.Replace(functions=u.functions[:i] + (g,) + u.functions[i + 1:])
        if check_unit(mods, cand, hier, o):
          u, changed = cand, True
          break
      if changed:
        break
  return u


def search(res, rng, disagreements, pfail):
  mods = load_mods()
  pytd = mods["pytd"]
  found = []
  cands = []
  for d in disagreements:
    if d.get("kind", "").startswith("generated") and isinstance(d.get("input"), str):
      try:
        cd = Codec(pytd)
        cands.append((cd.l_unit(Codec.parse(d["input"])), HIER, d["opts"]))
      except Exception:  # pylint: disable=broad-except
        pass
  t0 = time.time()
  budget = 100 if common.tier() == "quick" else 400
  i = 0
  while time.time() - t0 < budget and len(found) < 2:
    if i < len(cands):
      unit, hier, o = cands[i]
    else:
      o = gen_opts(rng)
      o["use_abcs"] = False
      g = Gen(pytd, rng, rng.choice(["named", "cls"]), bare_none=False)
      unit, hier = g.unit(rng.choice([1, 2, 2])), HIER
    i += 1
    fails = check_unit(mods, unit, hier, o)
    if fails:
      small = shrink_unit(mods, unit, hier, o)
      f2 = check_unit(mods, small, hier, o) or fails
      cd = Codec(pytd, lenient=True)
      try:
        sx = cd.unit(small)
      except OutOfFragment:
        sx = repr(small)
      found.append({"options": o, "unit": show(mods, small), "unit_sexp": sx, "hierarchy": hier, "failures": f2[:3]})
  res.cov["search"] = {"inputs_checked": i, "seconds": round(time.time() - t0, 1),
                       "oracle": "finite universe (instances up to depth 2 over the hierarchy, literals): every type "
                                 "position admits afterwards what it admitted before, every signature is covered; plain "
                                 "types keep exactly their values under lossless settings; Optimize twice = once outside "
                                 "the characterised regions " + ", ".join(CHARACTERISED)}
  return found


def main():
  return common.run_check(
      "C11", REQUIRED, correspond, witnesses, search, extra_targets=["drv_c11"],
      trusted=["hand-written model of optimize.py / pytd_utils.JoinTypes / node equality (lean/PytypeModel/Pytd/{Join,Optimize}.lean), "
               "tied to /repo by structural differential runs",
               "the semantics lean/PytypeModel/Pytd/Den.lean: callables are covariant in the result and unconstrained in the "
               "arguments; a generic admits the values of its base whose i-th slot fits the i-th parameter (zip)",
               "the s-expression codec between pytd nodes and the driver (harness/c11.py Codec, lean/Driver/C11.lean)"],
      assumptions=["the class hierarchy has no inheritance cycles (Antisymm); a cyclic one makes the real optimiser narrow (replayed in W)",
                   "types are well-kinded (kok): TupleType over a tuple class, CallableType over typing.Callable, generic bases are class references",
                   "ClassType.name equals the name of the class it points to (str(t) is cls.name); alias-resolved ClassTypes are outside the model",
                   "no union reached by SimplifyUnionsWithSuperclasses holds NamedType(n) next to ClassType(n) (guard suwsOK; its failure is known finding c11-same-str-members)",
                   "remove_mutable=True: the pipeline is proved to widen up to visitors.AdjustSelf, which re-annotates a receiver typed Any with its class (adjustSelf_only_receiver: the one deliberate narrowing); MergeTypeParameters is modelled only where no enclosing class has type parameters",
                   "CombineContainers re-visits joined parameters with fuel 2*size+4 (exhaustion would show as a K disagreement)"])


if __name__ == "__main__":
  sys.exit(main())
