"""C05 — every stub pytype emits is a valid stub that pytype reads back unchanged (DESIGN.md §5 C05).

P: lean/PytypeModel/Props/C05.lean (tree-level model of printer.py and of the stub parser).
K: real `pytd_utils.Print` / `parser.parse_string` / `parser.canonical_pyi` against the Lean driver, at the
   tree level (ast.parse of the real text == the model's tree) and at the declaration level (s-expression
   dump of the pytd AST), on (a) independently generated units in the emitted dialect and (b) stubs emitted
   by `io.generate_pyi` for generated programs.
W: known findings (class-body comprehension; duplicated @property).
S: the property's own oracle on the real code only.
"""
import collections
import difflib
import multiprocessing
import os
import random
import sys
import time

from harness import common
from harness import c05_gen as G
from harness import c05_lib as L

REQUIRED = [
    "type_round_trip", "type_print_fixpoint", "type_imports_preserved",
    "parse_print", "print_fixpoint", "reparse_reprints", "verify_preserved", "canonical_idempotent",
]

PY_VERSION = (3, 12)


def _pytype():
  common.load_pytype()
  from pytype import config, io  # pylint: disable=import-outside-toplevel
  from pytype.pyi import parser  # pylint: disable=import-outside-toplevel
  from pytype.pytd import pytd, pytd_utils, visitors  # pylint: disable=import-outside-toplevel
  return config, io, parser, pytd, pytd_utils, visitors


# ----------------------------------------------------------------------------
# the property's own oracle (real code only)
# ----------------------------------------------------------------------------
def oracle_text(text, mods=None):
  """Returns None if `text` satisfies the property, else a short description of what fails."""
  _, _, parser, pytd, pytd_utils, visitors = mods or _pytype()
  opts = parser.PyiOptions(python_version=PY_VERSION)
  try:
    ast1 = parser.parse_string(text, options=opts)
  except parser.ParseError as e:
    return "emitted stub does not parse: " + str(e).splitlines()[-1][:200]
  try:
    ast1.Visit(visitors.VerifyVisitor())
  except AssertionError as e:
    return "VerifyVisitor rejects the re-read stub: %r" % (e,)
  text2 = pytd_utils.Print(ast1)
  if text2 != text:
    d = [l for l in difflib.unified_diff(text.splitlines(), text2.splitlines(), lineterm="", n=0)
         if not l.startswith(("---", "+++", "@@"))]
    return "Print(parse(text)) != text: " + " | ".join(d[:6])
  try:
    ast2 = parser.parse_string(text2, options=opts)
  except parser.ParseError as e:
    return "re-printed stub does not parse: " + str(e).splitlines()[-1][:200]
  if not pytd_utils.ASTeq(ast1, ast2):
    return "re-read declarations are not structurally equal (ASTeq)"
  try:
    c1 = parser.canonical_pyi(text, options=opts)
    c2 = parser.canonical_pyi(c1, options=opts)
  except (parser.ParseError, AssertionError) as e:
    return "canonical_pyi fails: %r" % (str(e).splitlines()[-1][:200],)
  if c1 != c2:
    return "canonical_pyi is not idempotent"
  return None


def sig_shapes(unit):
  """{qualified function name: [per signature ((param name, kind, optional)…, *args name, **kwargs name)]} — the part
  of a declaration that the text fixed point cannot see being lost (a dropped `/` or `*` re-reads as a different but
  self-consistent signature)"""
  out = {}

  def short(n):
    return n.rsplit(".", 1)[-1]

  def fn(prefix, f):
    out[prefix + short(f.name)] = [
        (tuple((p.name, p.kind.name, bool(p.optional)) for p in sg.params),
         sg.starargs.name if sg.starargs else None, sg.starstarargs.name if sg.starstarargs else None)
        for sg in f.signatures]

  def cls(prefix, c):
    q = prefix + short(c.name) + "."
    for m in c.methods:
      fn(q, m)
    for k in c.classes:
      cls(q, k)
  for f in unit.functions:
    fn("", f)
  for c in unit.classes:
    cls("", c)
  return out


def oracle_unit(unit, mods=None):
  """Property oracle for a pytd unit: its printed text must satisfy `oracle_text`, the re-read declarations must
  print back to the same text, and the re-read signatures must have the parameter names, kinds (positional-only /
  regular / keyword-only), optional flags and star parameters of what was printed."""
  mods = mods or _pytype()
  parser, pytd_utils = mods[2], mods[4]
  try:
    text = pytd_utils.Print(unit)
  except Exception as e:  # pylint: disable=broad-except
    return "Print raises %r" % (e,)
  bad = oracle_text(text, mods)
  if bad is not None:
    return bad
  try:
    re_read = parser.parse_string(text, options=parser.PyiOptions(python_version=PY_VERSION))
    a, b = sig_shapes(unit), sig_shapes(re_read)
  except Exception as e:  # pylint: disable=broad-except
    return "re-reading raises %r" % (e,)
  for k in sorted(a):
    if k in b and a[k] != b[k]:
      return "re-read signature of %s differs from the printed declaration: %r -> %r" % (k, a[k], b[k])
  return None


# known, characterised regions (see known_findings.json): nothing else is exempt
def is_class_body_comprehension_leak(unit, pytd):
  """A class constant named like a comprehension fast local ('.0'), as emitted for a class-body
  comprehension (known finding c05-class-body-comprehension)."""
  def walk(cs):
    for c in cs:
      if any(k.name.startswith(".") for k in c.constants):
        return True
      if walk(c.classes):
        return True
    return False
  return walk(unit.classes)


_LIT_RE = None


def is_literal_bool_int_collapse(text):
  """Known finding c05-literal-bool-int-collapse: the stub has a Literal[...] listing a bool and the equal int
  (True with 1, False with 0) — and nothing else is wrong: with the smaller member of each such pair removed from
  that Literal, the text must satisfy the property (so any other failure in the same stub is still reported)."""
  global _LIT_RE
  import re  # pylint: disable=import-outside-toplevel
  if _LIT_RE is None:
    _LIT_RE = re.compile(r"Literal\[([^\[\]]*)\]")
  hit = [False]

  def fix(m):
    items = [x.strip() for x in m.group(1).split(",")]
    out, seen = [], []
    for it in items:
      key = {"True": 1, "False": 0, "1": 1, "0": 0}.get(it)
      if key is not None and key in seen:
        hit[0] = True
        continue
      if key is not None:
        seen.append(key)
      out.append(it)
    return "Literal[%s]" % ", ".join(out)
  fixed_text = _LIT_RE.sub(fix, text)
  if not hit[0]:
    return False
  return oracle_text(fixed_text) is None


def has_property_method(unit, pytd):
  """A Function of kind PROPERTY (known finding c05-property-decorator-duplicated): pytype never emits it."""
  def walk(cs):
    for c in cs:
      if any(m.kind == pytd.MethodKind.PROPERTY for m in c.methods) or walk(c.classes):
        return True
    return False
  return walk(unit.classes) or any(f.kind == pytd.MethodKind.PROPERTY for f in unit.functions)


# ----------------------------------------------------------------------------
# K
# ----------------------------------------------------------------------------
def parse_answer(out):
  return dict(x.split("=", 1) for x in out.split("\t"))


def compare_unit(mods, unit, ans, src=None):
  """Compares the model's answer for `unit` with the real code.  Returns (category, disagreement-or-None)."""
  _, _, parser, pytd, pytd_utils, visitors = mods
  opts = parser.PyiOptions(python_version=PY_VERSION)
  f = parse_answer(ans)
  info = {"frag": f["frag"] == "1", "modelled": f["modelled"] == "1", "guards": f["guards"],
          "cstable": f.get("cstable") == "1"}

  def dis(kind, **kw):
    d = {"kind": kind, "unit": L.unit_sx(pytd, unit)}
    if src is not None:
      d["program"] = src
    try:
      d["text"] = pytd_utils.Print(unit)
    except Exception as e:  # pylint: disable=broad-except
      d["text"] = "Print raises %r" % (e,)
    d.update(kw)
    if info["frag"] and not is_class_body_comprehension_leak(unit, pytd) and not has_property_method(unit, pytd):
      # the property's own oracle on the real code for this very unit (inside InFragment the theorems say it holds):
      # a failure here is a failing input, reported by S as it stands
      try:
        d["oracle"] = oracle_unit(unit, mods)
      except Exception as e:  # pylint: disable=broad-except
        d["oracle"] = "oracle raises %r" % (e,)
    return d

  # real Verify vs model
  try:
    unit.Visit(visitors.VerifyVisitor())
    rverify = True
  except AssertionError:
    rverify = False
  except Exception:  # pylint: disable=broad-except
    rverify = None
  if not info["modelled"]:
    return "not-modelled", info, None
  if rverify is not None and rverify != (f["verify"] == "1"):
    return "verify", info, dis("verify-differs", real=rverify, model=f["verify"])
  try:
    text = pytd_utils.Print(unit)
  except Exception as e:  # pylint: disable=broad-except
    return "print-crash", info, dis("real-printer-raises-on-modelled-unit", error=repr(e))
  # tree level
  try:
    rtree = L.module_sx(text)
  except SyntaxError:
    rtree = None
  except L.UnsupportedSyntax as e:
    return "tree", info, dis("printer-text-outside-the-model-syntax", error=str(e)[:200])
  if rtree is None:
    if not f["conv"].startswith("err"):
      return "syntax", info, dis("text-does-not-parse-but-model-converts", model=f["conv"][:300])
    return "both-error", info, None
  if rtree != f["tree"]:
    return "tree", info, dis("tree-differs", real=rtree[:3000], model=f["tree"][:3000])
  # declaration level
  try:
    ast2 = parser.parse_string(text, options=opts)
    rconv = "ok " + L.unit_sx(pytd, ast2)
  except parser.ParseError as e:
    rconv = "err"
    ast2 = None
  except L.Unrepresentable:
    return "unrepresentable-result", info, None
  mconv = f["conv"]
  if rconv == "err":
    if not mconv.startswith("err"):
      return "conv", info, dis("real-parser-rejects-but-model-accepts", model=mconv[:300])
    return "both-error", info, None
  if mconv != rconv:
    return "conv", info, dis("declarations-differ", real=rconv[:4000], model=mconv[:4000])
  # canonical form
  try:
    ctext = parser.canonical_pyi(text, options=opts)
    rcanon = "ok " + L.module_sx(ctext)
  except (parser.ParseError, AssertionError):
    rcanon = "err"
  except L.UnsupportedSyntax:
    rcanon = None
  mcanon = f["canon"]
  if rcanon is not None and not mcanon.startswith("err unsupported"):
    if rcanon == "err":
      if not mcanon.startswith("err"):
        return "canon", info, dis("canonical_pyi-fails-but-model-succeeds")
    elif mcanon != rcanon:
      return "canon", info, dis("canonical-form-differs", real=rcanon[:3000], model=mcanon[:3000])
  # what the theorems promise inside the fragment, observed on the real code
  if info["frag"] and f["verify"] == "1":
    if "ok " + f["norm"] != rconv:
      return "theorem", info, dis("in-fragment-but-reread-declarations-are-not-norm", real=rconv[:3000],
                                  norm=f["norm"][:3000])
    text2 = pytd_utils.Print(ast2)
    if text2 != text:
      return "theorem", info, dis("in-fragment-but-not-a-fixed-point", reprint=text2)
    if rcanon is not None and rcanon != "err":
      c2 = parser.canonical_pyi(ctext, options=opts)
      if c2 != ctext:
        return "theorem", info, dis("in-fragment-but-canonical_pyi-not-idempotent")
  return "agree", info, None


def _worker_units(args):
  seed, n, wild, stage = args
  mods = _pytype()
  pytd = mods[3]
  rng = random.Random(seed)
  gen = G.UnitGen(pytd, rng, wild)
  drv = common.Driver("drv_c05")
  units, lines = [], []
  unrep = 0
  for _ in range(n):
    u = gen.unit(stage)
    try:
      lines.append("unit " + L.unit_sx(pytd, u))
      units.append(u)
    except L.Unrepresentable:
      unrep += 1
  outs = drv.batch(lines)
  stats = collections.Counter()
  stats["unrepresentable"] = unrep
  guards = collections.Counter()
  dis, samples = [], []
  for u, out in zip(units, outs):
    cat, info, d = compare_unit(mods, u, out)
    stats[cat] += 1
    if info["frag"]:
      stats["in-fragment"] += 1
      if info["cstable"]:
        stats["in-fragment-canon-stable"] += 1
    for gname in info["guards"].split(","):
      if gname:
        guards[gname] += 1
    if d is not None and len(dis) < 5:
      dis.append(d)
    if cat == "agree" and info["frag"] and len(samples) < 1:
      samples.append(mods[4].Print(u)[:600])
  return dict(stats), dict(guards), dis, samples


def _worker_programs(args):
  seed, n = args
  mods = _pytype()
  config, io, parser, pytd, pytd_utils, visitors = mods
  rng = random.Random(seed)
  gen = G.ProgGen(rng)
  drv = common.Driver("drv_c05")
  opts = config.Options.create(python_version=PY_VERSION)
  stats = collections.Counter()
  guards = collections.Counter()
  units, lines, srcs = [], [], []
  dis, samples = [], []
  todo = [gen.program() for _ in range(n)]
  if seed == 0:
    todo = G.signature_matrix_programs() + todo      # deterministic family, one worker runs it
  for src in todo:
    try:
      ret, text = io.generate_pyi(src, opts)
    except Exception as e:  # pylint: disable=broad-except
      stats["pytype-failed:" + type(e).__name__] += 1
      continue
    stats["programs"] += 1
    # the property itself on the emitted stub (this is data for the evidence; a failure outside the
    # characterised known findings is reported as a disagreement so that S runs)
    bad = oracle_text(text.rstrip("\n") if text.endswith("\n") else text, mods)
    if bad is None:
      # "the re-read declarations are structurally equal to what was printed": signature shapes of the printed unit
      # (ret.ast) against the re-read ones — a lost `/` or `*` re-reads as a different, self-consistent signature
      try:
        a = sig_shapes(ret.ast)
        b = sig_shapes(parser.parse_string(text, options=parser.PyiOptions(python_version=PY_VERSION)))
        for k in sorted(a):
          if k in b and a[k] != b[k]:
            bad = "re-read signature of %s differs from the printed declaration: %r -> %r" % (k, a[k], b[k])
            break
      except Exception as e:  # pylint: disable=broad-except
        bad = "re-reading the emitted stub raises %r" % (e,)
    if bad is not None:
      if is_class_body_comprehension_leak(ret.ast, pytd) or is_literal_bool_int_collapse(text.rstrip("\n")):
        stats["known-finding-region"] += 1
      else:
        stats["emitted-stub-violates-property"] += 1
        if len(dis) < 5:
          dis.append({"kind": "emitted-stub-violates-property", "program": src, "text": text, "what": bad})
      continue
    try:
      lines.append("unit " + L.unit_sx(pytd, ret.ast))
      units.append(ret.ast)
      srcs.append(src)
    except L.Unrepresentable as e:
      stats["unrepresentable"] += 1
      stats["unrep:" + str(e)[:30]] += 1
  outs = drv.batch(lines) if lines else []
  for u, src, out in zip(units, srcs, outs):
    cat, info, d = compare_unit(mods, u, out, src)
    stats[cat] += 1
    if info["frag"]:
      stats["in-fragment"] += 1
      if info["cstable"]:
        stats["in-fragment-canon-stable"] += 1
    for gname in info["guards"].split(","):
      if gname:
        guards[gname] += 1
    if d is not None and len(dis) < 5:
      dis.append(d)
    if cat == "agree" and info["frag"] and len(samples) < 1:
      samples.append({"program": src[:400], "stub": pytd_utils.Print(u)[:400]})
  return dict(stats), dict(guards), dis, samples


def _merge(results):
  stats, guards, dis, samples = collections.Counter(), collections.Counter(), [], []
  for s, g, d, sm in results:
    stats.update(s)
    guards.update(g)
    dis.extend(d)
    samples.extend(sm)
  return stats, guards, dis, samples


def check_tables(mods):
  """The data tables the model hard-codes, against the real ones."""
  from pytype.pytd import pep484  # pylint: disable=import-outside-toplevel
  drv = common.Driver("drv_c05")
  out = drv.batch(["compat"])[0]
  real = " ".join("%s:%s" % (a, b) for a, b in pep484.get_compat_items())
  if out != real:
    return [{"kind": "compat-table-differs", "real": real, "model": out}]
  return []


def correspond(res, rng, tier):
  mods = _pytype()
  common.ensure_driver("drv_c05")
  t0 = time.time()
  disagreements = check_tables(mods)
  ncpu = min(16, os.cpu_count() or 4)
  quick = tier == "quick"
  # (a) independently generated units: per stage, mostly inside the dialect, some deliberately outside
  per = 60 if quick else 400
  jobs = []
  for stage in (1, 2, 3, 4, None):
    for k in range(3 if quick else 6):
      jobs.append((rng.randrange(1 << 30), per, 0.0 if k % 3 != 2 else 0.15, stage))
  # (b) emitted stubs
  nprog_jobs = 16 if quick else 48
  per_prog = 14 if quick else 30
  pjobs = [(0, per_prog)] + [(rng.randrange(1, 1 << 30), per_prog) for _ in range(nprog_jobs - 1)]
  with multiprocessing.Pool(ncpu) as pool:
    r_units = pool.map_async(_worker_units, jobs)
    r_progs = pool.map_async(_worker_programs, pjobs)
    ustats, uguards, udis, usamples = _merge(r_units.get())
    pstats, pguards, pdis, psamples = _merge(r_progs.get())
  disagreements += udis + pdis
  n_units = sum(ustats[c] for c in ("agree", "both-error", "not-modelled", "tree", "conv", "canon", "verify",
                                   "theorem", "syntax", "print-crash", "unrepresentable-result"))
  n_prog_units = sum(pstats[c] for c in ("agree", "both-error", "not-modelled", "tree", "conv", "canon", "verify",
                                        "theorem", "syntax", "print-crash", "unrepresentable-result"))
  res.cov["evaluations"] = n_units + n_prog_units
  res.cov["distinct_nontrivial"] = ustats["agree"] + pstats["agree"]
  res.cov["exhaustive"] = False
  res.cov["rule"] = (
      "for every generated unit: ast.parse(real pytd_utils.Print text) == the model's tree; the s-expression dump "
      "of real parser.parse_string(text) == the model's convert(print u) (errors compared as error/no error); "
      "ast.parse(real canonical_pyi(text)) == the model's canonical form; real VerifyVisitor == model; and for "
      "units inside InFragment the re-read declarations equal norm u, Print(parse(text)) == text and "
      "canonical_pyi is idempotent on the real code.  non-trivial = modelled units on which model and real code "
      "agree on all of these with a successful parse")
  res.cov["distribution"] = {
      "independent_units": {"generated": n_units + ustats["unrepresentable"], "by_outcome": dict(ustats),
                            "in_fragment": ustats["in-fragment"],
                            "in_fragment_fraction": round(ustats["in-fragment"] / max(1, n_units), 3),
                            "failed_guards": dict(uguards)},
      "emitted_stubs": {"programs": pstats["programs"], "by_outcome": dict(pstats),
                        "in_fragment": pstats["in-fragment"],
                        "in_fragment_fraction": round(pstats["in-fragment"] / max(1, n_prog_units), 3),
                        "failed_guards": dict(pguards)},
      "stages": "1 constants, 2 +functions, 3 +classes, 4 +TypeVars/aliases, mixed; every third batch with 15% "
                "out-of-dialect features",
      "wall_s": round(time.time() - t0, 1),
  }
  res.add_samples(usamples[:2] + psamples[:2])
  return disagreements


# ----------------------------------------------------------------------------
# W
# ----------------------------------------------------------------------------
def witnesses(res):
  mods = _pytype()
  config, io, parser, pytd, pytd_utils, visitors = mods
  known, fixed = common.known_findings("C05")
  replayed = []
  for e in fixed:
    w = e["witness"]
    # the repaired defect: printing a unit must not change what it compares equal to
    opts = parser.PyiOptions(python_version=PY_VERSION)
    a1 = parser.parse_string(w["pyi"], options=opts)
    a2 = parser.parse_string(w["pyi"], options=opts)
    pytd_utils.Print(a1)
    bad = None
    if not pytd_utils.ASTeq(a1, a2):
      bad = "a printed unit no longer equals an identical freshly parsed one (lookup cache takes part in ==)"
    bad = bad or oracle_text(w["pyi"].rstrip("\n"), mods)
    replayed.append({"id": e["id"], "fixed": True, "still_fails": bad is not None, "what": bad})
    if bad is not None:
      res.violation("fixed-" + e["id"], {"property": "C05", "kind": "fixed-witness-fails-again", "id": e["id"],
                                         "input": w, "what": bad})
  for k in known:
    w = k["witness"]
    if "py" in w:
      try:
        _, text = io.generate_pyi(w["py"], config.Options.create(python_version=PY_VERSION))
        bad = oracle_text(text.rstrip("\n"), mods)
      except Exception as e:  # pylint: disable=broad-except
        bad = "generate_pyi raises %r" % (e,)
    else:
      bad = oracle_text(w["pyi"].rstrip("\n"), mods)
    replayed.append({"id": k["id"], "still_fails": bad is not None, "what": bad})
    if bad is not None:
      res.known_lines.append("%s: %s" % (k["id"], bad))
  res.cov["witnesses_replayed"] = replayed


# ----------------------------------------------------------------------------
# S
# ----------------------------------------------------------------------------
def _shrink_unit(unit, mods, fails):
  """Removes declarations / signatures / members while the oracle keeps failing."""
  pytd = mods[3]
  t0 = time.time()

  def try_(u):
    try:
      return fails(u)
    except Exception:  # pylint: disable=broad-except
      return False
  changed = True
  while changed and time.time() - t0 < 25:
    changed = False
    for field in ("constants", "functions", "classes", "aliases", "type_params"):
      items = list(getattr(unit, field))
      for i in range(len(items)):
        cand = unit.Replace(**{field: tuple(items[:i] + items[i + 1:])})
        if try_(cand):
          unit, changed = cand, True
          break
      if changed:
        break
    if changed:
      continue
    for i, c in enumerate(unit.classes):
      for field in ("methods", "constants", "classes", "bases"):
        items = list(getattr(c, field))
        for j in range(len(items)):
          c2 = c.Replace(**{field: tuple(items[:j] + items[j + 1:])})
          cand = unit.Replace(classes=unit.classes[:i] + (c2,) + unit.classes[i + 1:])
          if try_(cand):
            unit, changed = cand, True
            break
        if changed:
          break
      if changed:
        break
    if changed:
      continue
    for i, fn in enumerate(unit.functions):
      if len(fn.signatures) > 1:
        for j in range(len(fn.signatures)):
          f2 = fn.Replace(signatures=fn.signatures[:j] + fn.signatures[j + 1:])
          cand = unit.Replace(functions=unit.functions[:i] + (f2,) + unit.functions[i + 1:])
          if try_(cand):
            unit, changed = cand, True
            break
      if changed:
        break
  return unit


def search(res, rng, disagreements, pfail):
  """The property's oracle on the real code, around the disagreeing inputs and on fresh inputs."""
  mods = _pytype()
  config, io, parser, pytd, pytd_utils, visitors = mods
  found = []

  def unit_fails(u):
    if is_class_body_comprehension_leak(u, pytd) or has_property_method(u, pytd):
      return False  # exactly the characterised known findings
    return oracle_unit(u, mods) is not None
  # 0. the disagreeing units themselves (only those inside InFragment: outside it a failing round trip is
  #    documented behaviour, not a violation)
  for d in disagreements:
    if d.get("oracle") and "text" in d:
      found.append({"unit_text": d["text"], "what": d["oracle"], "program": d.get("program"),
                    "note": "in-fragment unit on which model and real code disagree; the property's oracle fails on the real code"})
      if len(found) >= 2:
        return found
  for d in disagreements:
    if d.get("kind", "").startswith("in-fragment") and "text" in d:
      bad = oracle_text(d["text"], mods)
      if bad is not None:
        found.append({"unit_text": d["text"], "what": bad, "note": "in-fragment unit from the correspondence stage"})
        if len(found) >= 2:
          return found
  # 1. programs from the disagreements (emitted stubs)
  for d in disagreements:
    if "program" in d:
      src = d["program"]
      try:
        ret, text = io.generate_pyi(src, config.Options.create(python_version=PY_VERSION))
      except Exception:  # pylint: disable=broad-except
        continue
      if is_class_body_comprehension_leak(ret.ast, pytd) or is_literal_bool_int_collapse(text.rstrip("\n")):
        continue
      bad = oracle_text(text.rstrip("\n"), mods)
      if bad is not None:
        lines = src.split("\n")

        def fails(ls):
          try:
            r, t = io.generate_pyi("\n".join(ls), config.Options.create(python_version=PY_VERSION))
          except Exception:  # pylint: disable=broad-except
            return False
          if is_class_body_comprehension_leak(r.ast, pytd) or is_literal_bool_int_collapse(t.rstrip("\n")):
            return False
          return oracle_text(t.rstrip("\n"), mods) is not None
        small = common.ddmin(lines, fails, 40)
        _, t2 = io.generate_pyi("\n".join(small), config.Options.create(python_version=PY_VERSION))
        found.append({"program": "\n".join(small), "emitted_stub": t2, "what": oracle_text(t2.rstrip("\n"), mods)})
        if len(found) >= 2:
          return found
  # 2. fresh units inside InFragment (there the theorems say the property holds, so a failure is a genuine
  #    deviation of the real code), all stages of the generator
  gen = G.UnitGen(pytd, rng, 0.0)
  drv = common.Driver("drv_c05")
  t0 = time.time()
  n = 0
  while time.time() - t0 < 60 and len(found) < 2:
    batch = []
    for _ in range(150):
      u = gen.unit(rng.choice([1, 1, 4, None]))
      try:
        batch.append((u, "unit " + L.unit_sx(pytd, u)))
      except L.Unrepresentable:
        pass
    outs = drv.batch([b[1] for b in batch])
    for (u, _), out in zip(batch, outs):
      if parse_answer(out)["frag"] != "1":
        continue
      n += 1
      try:
        if unit_fails(u):
          def fails_in_frag(v):
            try:
              o = drv.batch(["unit " + L.unit_sx(pytd, v)])[0]
            except Exception:  # pylint: disable=broad-except
              return False
            return parse_answer(o)["frag"] == "1" and unit_fails(v)
          small = _shrink_unit(u, mods, fails_in_frag)
          found.append({"unit_text": pytd_utils.Print(small), "what": oracle_unit(small, mods),
                        "note": "generated unit inside InFragment, shrunk"})
          if len(found) >= 2:
            break
      except Exception as e:  # pylint: disable=broad-except
        found.append({"unit_text": repr(u)[:1000], "exception": repr(e)})
        break
  # 3. fresh programs
  pg = G.ProgGen(rng)
  pg.dup_slots = True     # a shape K's generator does not draw (kept out of K: one distribution, one coverage report)
  pg.slots_p = 0.3
  t0 = time.time()
  while time.time() - t0 < 60 and len(found) < 2:
    src = pg.program()
    try:
      ret, text = io.generate_pyi(src, config.Options.create(python_version=PY_VERSION))
    except Exception:  # pylint: disable=broad-except
      continue
    if is_class_body_comprehension_leak(ret.ast, pytd) or is_literal_bool_int_collapse(text.rstrip("\n")):
      continue
    bad = oracle_text(text.rstrip("\n"), mods)
    if bad is not None:
      found.append({"program": src, "emitted_stub": text, "what": bad})
  res.cov["search"] = {"fresh_in_fragment_units_tried": n}
  return found


def main():
  return common.run_check(
      "C05", REQUIRED, correspond, witnesses, search,
      trusted=[
          "text <-> tree: CPython's ast.parse on the printer's text is the tree the model computes (checked by K for "
          "every case, never proved); tokenising, precedence and indentation are CPython's",
          "hand-written tree-level models of printer.PrintVisitor and of pyi/parser.py + definitions.py + function.py "
          "+ classdef.py + post_process_ast; tied to /repo by K only",
          "typing-import bookkeeping is modelled by its net effect (requests minus decrements); the places where the "
          "real counting is inexact are outside `Modelled`",
          "s-expression translators pytd <-> model (harness/c05_lib.py), including: Literal(Constant('builtins.True')) "
          "and Literal(True) are the same model literal; a constant's value is only present/absent",
      ],
      assumptions=[
          "parse_string is called as canonical_pyi calls it (module name None): names stay unqualified",
          "theorems hold for units in InFragment (see registry text); everything else is covered by K only",
      ])


if __name__ == "__main__":
  sys.exit(main())
