"""C09 — CFG reachability equals true graph reachability (DESIGN.md §5 C09)."""
import itertools
import sys

from harness import common

REQUIRED = ["reach_correct", "reach_correct_prefix", "reach_refl", "loop_is_simultaneous", "repr_invariant"]


def real_run(cfg, ops, query_every):
  """Runs ops on a real cfg.Program; returns list of outputs (same protocol as the driver)."""
  prog = cfg.Program()
  nodes = []
  out = []
  for op in ops:
    if op[0] == "n":
      nodes.append(prog.NewCFGNode("n%d" % len(nodes)))
    elif op[0] == "c":
      nodes[op[1]].ConnectTo(nodes[op[2]])
    elif op[0] == "q":
      out.append("1" if prog.is_reachable(nodes[op[1]], nodes[op[2]]) else "0")
    elif op[0] == "all":
      out.append("".join("1" if prog.is_reachable(a, b) else "0" for a in nodes for b in nodes))
  return out


def to_lines(ops):
  return ["reset"] + [" ".join(str(x) for x in op) for op in ops]


def bfs_oracle(ops):
  """Property oracle: replays ops, after each `all`/`q` computes true reachability."""
  n = 0
  adj = {}
  out = []

  def closure():
    res = []
    for a in range(n):
      seen = {a}
      st = [a]
      while st:
        x = st.pop()
        for y in adj.get(x, ()):
          if y not in seen:
            seen.add(y)
            st.append(y)
      res.append(seen)
    return res
  for op in ops:
    if op[0] == "n":
      n += 1
    elif op[0] == "c":
      adj.setdefault(op[1], set()).add(op[2])
    elif op[0] == "q":
      out.append("1" if op[2] in closure()[op[1]] else "0")
    elif op[0] == "all":
      cl = closure()
      out.append("".join("1" if b in cl[a] else "0" for a in range(n) for b in range(n)))
  return out


def gen_exhaustive(max_nodes, max_edges):
  """All histories: k nodes first then every sequence of <= max_edges ordered pairs (incl. self
  loops and repeats), `all` after every op; plus interleavings where nodes are created late."""
  for k in range(1, max_nodes + 1):
    pairs = [(a, b) for a in range(k) for b in range(k)]
    for m in range(0, max_edges + 1):
      for seq in itertools.product(pairs, repeat=m):
        ops = [("n",)] * k
        ops = list(ops) + [("all",)]
        for a, b in seq:
          ops.append(("c", a, b))
          ops.append(("all",))
        yield ops


def gen_random(rng, n_nodes, n_edges, late_nodes=True, sample_pairs=40):
  ops = []
  n = 0
  target_n = n_nodes
  remaining_edges = n_edges
  # mix node creation and edges; bias shapes: chains, back edges, hubs
  mode = rng.choice(["uniform", "chain", "hub", "cyc"])
  while n < target_n or remaining_edges > 0:
    if n < 2 or (n < target_n and (remaining_edges == 0 or rng.random() < (0.3 if late_nodes else 1.0))):
      ops.append(("n",))
      n += 1
      continue
    if mode == "chain" and rng.random() < 0.6:
      a = rng.randrange(n - 1)
      b = a + 1
    elif mode == "hub" and rng.random() < 0.5:
      a = rng.randrange(n)
      b = rng.choice([0, n - 1, n // 2])
    elif mode == "cyc" and rng.random() < 0.3:
      b = rng.randrange(n)
      a = min(n - 1, b + rng.randrange(1, 4))
    else:
      a = rng.randrange(n)
      b = rng.randrange(n)
    ops.append(("c", a, b))
    remaining_edges -= 1
    if rng.random() < 0.08:
      for _ in range(sample_pairs):
        ops.append(("q", rng.randrange(n), rng.randrange(n)))
  ops.append(("all",))
  return ops


def shrink(ops, fails):
  return common.ddmin(ops, fails, budget_s=25.0, keep=lambda o: o[0] == "n")


def correspond(res, rng, tier):
  cfg = common.load_pytype()
  drv = common.ensure_driver("drv_c09")
  cases = []
  # 1) exhaustive small histories
  if tier == "thorough":
    cases += list(gen_exhaustive(3, 3)) + [ops for ops in gen_exhaustive(4, 2)]
  else:
    cases += list(gen_exhaustive(3, 2))
  n_ex = len(cases)
  # 2) random histories crossing several 64-bit buckets
  nrand = 60 if tier == "quick" else 400
  sizes = []
  for i in range(nrand):
    nn = rng.choice([5, 20, 63, 64, 65, 66, 100, 129, 200, 300]) if i % 3 else rng.randrange(2, 140)
    ne = rng.randrange(0, min(1500, nn * 5) + 1)
    sizes.append((nn, ne))
    cases.append(gen_random(rng, nn, ne))
  lines = []
  for ops in cases:
    lines += to_lines(ops)
  model_out = drv.batch(lines)
  disagreements = []
  pos = 0
  nontrivial = set()
  evaluated = 0
  for ops in cases:
    real = real_run(cfg, ops, None)
    k = len(real)
    mod = model_out[pos:pos + k]
    pos += k
    evaluated += 1
    if any("1" in r and "0" in r for r in real if len(r) > 1):
      nontrivial.add(tuple(ops))
    if real != mod:
      disagreements.append({"ops": [list(o) for o in ops][:4000], "real": real[-3:], "model": mod[-3:]})
  res.cov["evaluations"] = evaluated
  res.cov["distinct_nontrivial"] = len(nontrivial)
  res.cov["exhaustive"] = False
  res.cov["rule"] = ("histories of NewCFGNode/ConnectTo on the real cfg.Program vs the Lean driver; "
                     "%d exhaustive small histories (all edge sequences incl. self/duplicate edges, all pairs "
                     "compared after every op) + %d seeded random histories up to 300 nodes/1500 edges (sampled pair "
                     "queries during, all pairs at the end); non-trivial = final matrix has both reachable and "
                     "unreachable pairs; distinct = distinct op sequences" % (n_ex, nrand))
  res.cov["distribution"] = {
      "exhaustive_cases": n_ex, "random_cases": nrand,
      "random_nodes_max": max(s[0] for s in sizes), "random_over_64_nodes": sum(1 for s in sizes if s[0] > 64),
      "random_over_128_nodes": sum(1 for s in sizes if s[0] > 128),
      "total_ops": sum(len(o) for o in cases),
  }
  res.add_samples([" ".join("".join(str(x) for x in o) for o in cases[n_ex // 2]),
                   {"random_case_nodes_edges": sizes[0], "first_ops": [list(o) for o in cases[n_ex][:12]]}])
  return disagreements


def search(res, rng, disagreements, pfail):
  """S: evaluate the property's own oracle (BFS over the recorded edges) on the real code."""
  cfg = common.load_pytype()
  found = []

  def fails(ops):
    return real_run(cfg, ops, None) != bfs_oracle(ops)
  cands = [[tuple(o) for o in d["ops"]] for d in disagreements]
  # neighbourhood: fresh random + exhaustive small
  for ops in gen_exhaustive(3, 2):
    cands.append(ops)
  for i in range(150):
    nn = rng.choice([3, 10, 64, 65, 70, 130, 200])
    cands.append(gen_random(rng, nn, rng.randrange(0, nn * 4 + 1)))
  cands.sort(key=len)
  for ops in cands:
    try:
      if fails(ops):
        small = shrink(ops, fails)
        found.append({"ops": [list(o) for o in small], "real": real_run(cfg, small, None)[-1:],
                      "oracle_bfs": bfs_oracle(small)[-1:]})
        if len(found) >= 2:
          break
    except Exception as e:  # crash in the real code is itself reported
      found.append({"ops": [list(o) for o in ops][:200], "exception": repr(e)})
      break
  return found


def main():
  return common.run_check(
      "C09", REQUIRED, correspond, None, search,
      trusted=["model of reachable.cc / ConnectTo / NewCFGNode / is_reachable is hand-written; tied by op-by-op correspondence",
               "C++ int64 word = Nat word with only bits < 64 set (no overflow is possible: only `1 << (id & 63)` and OR are used)"],
      assumptions=["node ids are dense and assigned in creation order (Program::NewCFGNode)"])


if __name__ == "__main__":
  sys.exit(main())
