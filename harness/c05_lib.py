"""C05 helpers: pytd <-> s-expression, ast -> s-expression, unit and program generators.

The s-expression grammar is documented in lean/Driver/C05.lean.
"""
import ast
import binascii


class Unrepresentable(Exception):
  """The pytd node has no counterpart in the shared Lean model (PytypeModel.Pytd.Types)."""


def S(s):
  return "#" + binascii.hexlify(s.encode("utf-8")).decode("ascii")


def par(*xs):
  return "(" + " ".join(xs) + ")"


# ----------------------------------------------------------------------------
# pytd -> sexpr
# ----------------------------------------------------------------------------
def simple_str_content(value):
  """pytd stores str literals as their repr; returns the content if it is a plain-character str."""
  if not isinstance(value, str):
    return None
  try:
    v = ast.literal_eval(value)
  except Exception:  # pylint: disable=broad-except
    return None
  if not isinstance(v, str) or repr(v) != value or not value.startswith("'"):
    return None
  if not all(c.isalnum() or c in "_ -+*/:;,.!?@<>=()[]{}" for c in v):
    return None
  return v


def ty_sx(pytd, t):
  if isinstance(t, pytd.AnythingType):
    return "any"
  if isinstance(t, pytd.NothingType):
    return "nothing"
  if isinstance(t, pytd.ClassType):
    return par("cls", S(t.name))
  if isinstance(t, pytd.NamedType):
    return par("named", S(t.name))
  if isinstance(t, pytd.LateType):
    if t.recursive:
      raise Unrepresentable("recursive LateType")
    return par("late", S(t.name))
  if type(t) is pytd.TypeParameter:  # pylint: disable=unidiomatic-typecheck
    return par("tparam", S(t.name), "none" if t.scope is None else S(t.scope))
  if type(t) is pytd.TupleType:  # pylint: disable=unidiomatic-typecheck
    return par("tuple", ty_sx(pytd, t.base_type), *[ty_sx(pytd, p) for p in t.parameters])
  if type(t) is pytd.CallableType:  # pylint: disable=unidiomatic-typecheck
    return par("callable", ty_sx(pytd, t.base_type), *[ty_sx(pytd, p) for p in t.parameters])
  if type(t) is pytd.GenericType:  # pylint: disable=unidiomatic-typecheck
    return par("generic", ty_sx(pytd, t.base_type), *[ty_sx(pytd, p) for p in t.parameters])
  if isinstance(t, pytd.UnionType):
    return par("union", *[ty_sx(pytd, p) for p in t.type_list])
  if isinstance(t, pytd.Literal):
    v = t.value
    if isinstance(v, bool):
      return par("lit", par("bool", "1" if v else "0"))
    if isinstance(v, int):
      return par("lit", par("int", str(v)))
    if isinstance(v, str):
      c = simple_str_content(v)
      if c is None:
        raise Unrepresentable("string literal %r" % (v,))
      return par("lit", par("str", S(c)))
    if isinstance(v, pytd.Constant):
      tn = getattr(v.type, "name", None)
      # output.py emits Literal[True] as Literal(Constant('builtins.True', bool)); the parser reads it back as
      # Literal(True).  Both are the model's `Lit.bool` (the printer prints `True` for either).
      if v.name in ("builtins.True", "builtins.False") and tn in ("builtins.bool", "bool") and v.value is None:
        return par("lit", par("bool", "1" if v.name == "builtins.True" else "0"))
      if (isinstance(v.type, (pytd.NamedType, pytd.ClassType)) and tn and v.name.startswith(tn + ".")
          and "." not in v.name[len(tn) + 1:] and v.value is None):
        return par("lit", par("enum", S(tn), S(v.name[len(tn) + 1:])))
      raise Unrepresentable("enum literal %r" % (v,))
    raise Unrepresentable("literal %r" % (v,))
  if isinstance(t, pytd.Annotated):
    return par("annotated", ty_sx(pytd, t.base_type), *[S(a) for a in t.annotations])
  raise Unrepresentable(type(t).__name__)


def opt_ty_sx(pytd, t):
  return "none" if t is None else ty_sx(pytd, t)


def param_sx(pytd, p):
  kind = {"regular": "regular", "posonly": "posonly", "kwonly": "kwonly"}[p.kind.value]
  return par("param", S(p.name), ty_sx(pytd, p.type), kind, "1" if p.optional else "0",
             opt_ty_sx(pytd, p.mutated_type))


def tp_sx(pytd, t):
  if type(t) is not pytd.TypeParameter:  # pylint: disable=unidiomatic-typecheck
    raise Unrepresentable(type(t).__name__)
  if t.default is not None:
    raise Unrepresentable("TypeVar default")
  return par("tp", S(t.name), par(*[ty_sx(pytd, c) for c in t.constraints]), opt_ty_sx(pytd, t.bound),
             "none" if t.scope is None else S(t.scope))


def sig_sx(pytd, s):
  return par("sig", par(*[param_sx(pytd, p) for p in s.params]),
             "none" if s.starargs is None else param_sx(pytd, s.starargs),
             "none" if s.starstarargs is None else param_sx(pytd, s.starstarargs),
             ty_sx(pytd, s.return_type),
             par("exceptions", *[ty_sx(pytd, e) for e in s.exceptions]),
             par("template", *[tp_sx(pytd, t.type_param) for t in s.template]))


def deco_name(pytd, d):
  if not isinstance(d, pytd.Alias):
    raise Unrepresentable("decorator")
  return d.name


def func_sx(pytd, f):
  return par("func", S(f.name), f.kind.value, "1" if f.is_abstract else "0", "1" if f.is_coroutine else "0",
             "1" if f.is_final else "0", par("decorators", *[S(deco_name(pytd, d)) for d in f.decorators]),
             par(*[sig_sx(pytd, s) for s in f.signatures]))


def const_sx(pytd, c):
  if c.value is None:
    v = "none"
  elif isinstance(c.value, pytd.AnythingType):
    v = "some"
  else:
    raise Unrepresentable("constant value %r" % (c.value,))
  return par("const", S(c.name), ty_sx(pytd, c.type), v)


def alias_sx(pytd, a):
  if isinstance(a.type, (pytd.Constant, pytd.Function, pytd.Module)):
    raise Unrepresentable("alias of " + type(a.type).__name__)
  return par("alias", S(a.name), ty_sx(pytd, a.type))


def class_sx(pytd, c):
  bases = []
  for b in c.bases:
    if isinstance(b, pytd.Class):
      raise Unrepresentable("class as base")
    bases.append(ty_sx(pytd, b))
  return par("class", S(c.name), par(*bases), par(*[func_sx(pytd, m) for m in c.methods]),
             par(*[const_sx(pytd, k) for k in c.constants]), par(*[class_sx(pytd, k) for k in c.classes]),
             par("decorators", *[S(deco_name(pytd, d)) for d in c.decorators]),
             "none" if c.slots is None else par(*[S(s) for s in c.slots]),
             par("template", *[tp_sx(pytd, t.type_param) for t in c.template]),
             par("kws", *[par(S(k), ty_sx(pytd, v)) for k, v in c.keywords]))


def unit_sx(pytd, u, with_name=False):
  return par("unit", S(u.name if with_name and u.name else ""),
             par("consts", *[const_sx(pytd, c) for c in u.constants]),
             par("tparams", *[tp_sx(pytd, t) for t in u.type_params]),
             par("classes", *[class_sx(pytd, c) for c in u.classes]),
             par("funcs", *[func_sx(pytd, f) for f in u.functions]),
             par("aliases", *[alias_sx(pytd, a) for a in u.aliases]))


# ----------------------------------------------------------------------------
# python ast -> sexpr (the trusted text -> tree step is ast.parse itself)
# ----------------------------------------------------------------------------
class UnsupportedSyntax(Exception):
  pass


def expr_sx(e):
  if isinstance(e, ast.Name):
    return par("name", S(e.id))
  if isinstance(e, ast.Attribute):
    return par("attr", expr_sx(e.value), S(e.attr))
  if isinstance(e, ast.Subscript):
    sl = e.slice
    if isinstance(sl, ast.Tuple):
      if not sl.elts:
        return par("sub", expr_sx(e.value), "(etuple)")
      return par("sub", expr_sx(e.value), *[expr_sx(x) for x in sl.elts])
    return par("sub", expr_sx(e.value), expr_sx(sl))
  if isinstance(e, ast.List):
    return par("list", *[expr_sx(x) for x in e.elts])
  if isinstance(e, ast.Tuple) and not e.elts:
    return "(etuple)"
  if isinstance(e, ast.Constant):
    v = e.value
    if v is Ellipsis:
      return "(ellipsis)"
    if v is None:
      return "(none)"
    if isinstance(v, bool):
      return par("bool", "1" if v else "0")
    if isinstance(v, int):
      return par("int", str(v))
    if isinstance(v, str):
      return par("str", S(v))
  if isinstance(e, ast.UnaryOp) and isinstance(e.op, ast.USub) and isinstance(e.operand, ast.Constant) \
      and type(e.operand.value) is int:  # pylint: disable=unidiomatic-typecheck
    return par("int", str(-e.operand.value))
  raise UnsupportedSyntax(ast.dump(e))


def arg_sx(a, dflt):
  if dflt is not None and not (isinstance(dflt, ast.Constant) and dflt.value is Ellipsis):
    raise UnsupportedSyntax("default other than ...")
  return par("arg", S(a.arg), "none" if a.annotation is None else expr_sx(a.annotation),
             "1" if dflt is not None else "0")


def args_sx(a):
  pos = a.posonlyargs + a.args
  dfl = [None] * (len(pos) - len(a.defaults)) + list(a.defaults)
  po = [arg_sx(x, d) for x, d in zip(pos[:len(a.posonlyargs)], dfl[:len(a.posonlyargs)])]
  re_ = [arg_sx(x, d) for x, d in zip(pos[len(a.posonlyargs):], dfl[len(a.posonlyargs):])]
  kw = [arg_sx(x, d) for x, d in zip(a.kwonlyargs, a.kw_defaults)]
  return par("args", par(*po), par(*re_), "none" if a.vararg is None else arg_sx(a.vararg, None),
             par(*kw), "none" if a.kwarg is None else arg_sx(a.kwarg, None))


def stmt_sx(s):
  if isinstance(s, ast.ImportFrom):
    if s.level:
      raise UnsupportedSyntax("relative import")
    return par("importfrom", S(s.module), *[par(S(n.name), "none" if n.asname is None else S(n.asname))
                                            for n in s.names])
  if isinstance(s, ast.Import):
    if len(s.names) != 1:
      raise UnsupportedSyntax("import a, b")
    n = s.names[0]
    return par("import", S(n.name), "none" if n.asname is None else S(n.asname))
  if isinstance(s, ast.Assign):
    if len(s.targets) != 1 or not isinstance(s.targets[0], ast.Name) or s.type_comment:
      raise UnsupportedSyntax("assign")
    t = s.targets[0].id
    v = s.value
    if isinstance(v, ast.Call):
      if not v.args or not (isinstance(v.args[0], ast.Constant) and isinstance(v.args[0].value, str)):
        raise UnsupportedSyntax("call")
      bound = None
      for k in v.keywords:
        if k.arg != "bound" or bound is not None:
          raise UnsupportedSyntax("call keyword")
        bound = k.value
      return par("typevar", S(t), expr_sx(v.func), S(v.args[0].value), par(*[expr_sx(x) for x in v.args[1:]]),
                 "none" if bound is None else expr_sx(bound))
    return par("assign", S(t), expr_sx(v))
  if isinstance(s, ast.AnnAssign):
    if not isinstance(s.target, ast.Name) or not s.simple:
      raise UnsupportedSyntax("annassign")
    return par("annassign", S(s.target.id), expr_sx(s.annotation), "none" if s.value is None else expr_sx(s.value))
  if isinstance(s, ast.FunctionDef):
    if s.returns is None or s.type_comment or getattr(s, "type_params", None):
      raise UnsupportedSyntax("def")
    return par("def", S(s.name), par(*[expr_sx(d) for d in s.decorator_list]), args_sx(s.args),
               expr_sx(s.returns), par(*[stmt_sx(b) for b in s.body]))
  if isinstance(s, ast.ClassDef):
    if s.keywords or getattr(s, "type_params", None):
      raise UnsupportedSyntax("class keywords")
    return par("class", S(s.name), par(*[expr_sx(b) for b in s.bases]), par(*[expr_sx(d) for d in s.decorator_list]),
               par(*[stmt_sx(b) for b in s.body]))
  if isinstance(s, ast.Expr) and isinstance(s.value, ast.Constant) and s.value.value is Ellipsis:
    return "(ellipsis)"
  if isinstance(s, ast.Raise) and s.cause is None and s.exc is not None:
    exc = s.exc
    if isinstance(exc, ast.Call) and not exc.args and not exc.keywords:
      exc = exc.func
    return par("raise", expr_sx(exc))
  raise UnsupportedSyntax(ast.dump(s)[:200])


def module_sx(text):
  """s-expression of ast.parse(text); raises SyntaxError / UnsupportedSyntax."""
  tree = ast.parse(text)
  return par(*[stmt_sx(s) for s in tree.body])
