"""C19 — the whole-project build plan orders every analysis after the stubs it reads (DESIGN.md §5 C19).

K: real `PytypeRunner.yield_sorted_modules` / `setup_build` (optionally behind the real
   `deps_from_import_graph` fed by a fake import graph) write build.ninja + *.imports into a scratch
   dir under build/c19/; an independent ninja-syntax reader parses them back; compared field by field
   with the Lean model (driver drv_c19).  Also: `escape_ninja_path` and the `.imports` line reader
   against the Lean functions on adversarial strings; the independent reader against the Lean reader
   and against the real ninja binary (when the `ninja` wheel is installed).
W: the three known findings (unquoted $imports/$module in the command line, unescaped `module =`,
   space in an .imports key) replayed with the property's oracle.
S: the property's own oracle on the real plan (all schedules / closure, once-only check, paths).
"""
import itertools
import multiprocessing
import os
import random
import shlex
import shutil
import subprocess
import sys
import types

from harness import common

REQUIRED = [
    "imports_closed", "schedule_safe", "plan_ordered", "plan_acyclic", "cycle_two_pass", "checked_once",
    "plan_total", "escape_clean", "escape_roundtrip_partial", "escape_roundtrip_not_full",
    "value_roundtrip_partial", "module_name_partial", "module_name_not_full",
    "imports_line_roundtrip_partial", "imports_line_not_full",
    "graph_sources_total", "graph_wf", "graph_deps_closed", "graph_checked_once", "graph_deps_exact",
]

SCRATCH = os.path.join(common.BUILD, "c19")
KIND = {"l": "Local", "d": "Direct", "b": "Builtin", "s": "System"}
ROOT = {"Local": "/src/", "Direct": "/src/", "Builtin": "/bi/", "System": "/sys/"}

# ----------------------------------------------------------------------------------------------
# cases: {"kinds": "lsb..", "groups": [[ids],[dep ids]].., "req": [ids], "names": [str|None].. | None,
#         "outdir": str, "mode": "direct"|"graph"}
# ----------------------------------------------------------------------------------------------


def mod_name(case, i):
  k = case["kinds"][i]
  names = case.get("names")
  base = (names[i] if names and names[i] is not None else "m%02d" % i)
  return ("pytype_extensions." if k.isupper() else "") + base


def mod_kind(case, i):
  return KIND[case["kinds"][i].lower()]


def is_gen(case, i):
  k = case["kinds"][i]
  return k in "bs"


def mod_target(case, i):
  return mod_name(case, i).replace(".", "/") + ".py"


def full_path(case, i):
  return ROOT[mod_kind(case, i)] + mod_target(case, i)


def out_key(case, i):
  return mod_name(case, i).replace(".", "/")


def req_paths(case):
  n = len(case["kinds"])
  return [full_path(case, r) if r < n else "/src/absent%d.py" % r for r in case["req"]]


def case_line(op, case, groups=None):
  groups = case["groups"] if groups is None else groups
  req = ",".join(str(r) for r in case["req"]) or "-"
  gs = ";".join(",".join(map(str, g)) + "|" + ",".join(map(str, d)) for g, d in groups) or "-"
  return "%s %s %s %s" % (op, req, case["kinds"] or "-", gs)


def stub_path(k):
  return "/stubs/st%02d.pyi" % k


def graph_nodes(case):
  """The import graph a graph-mode case stands for, dependencies first: [(files, [dep node indices])], a file being
  ("m", module id) or ("s", stub id).  Without case["stubs"] there is one node per group.  With it
  (stubs: [{"at": p, "g": -1 | gi}, ..], sdeps: {node key: [stub ids]}) a stand-alone stub `k` ("g" == -1) is a node of
  its own placed before group `at` (its source deps are case["stubs"][k]["d"], its stub deps ["sd"]); a stub with
  "g" == gi is a member of group gi's node (an import cycle that runs through a type stub); case["gsd"][str(gi)]
  are the stubs group gi's node imports."""
  groups = case["groups"]
  stubs = case.get("stubs") or []
  gid = {m: gi for gi, (g, _) in enumerate(groups) for m in g}
  nodes, gnode, snode = [], {}, {}
  for gi in range(len(groups) + 1):
    for k, st in enumerate(stubs):
      if st["g"] == -1 and st["at"] == gi:
        snode[k] = len(nodes)
        nodes.append([[("s", k)], ("s", k)])
    if gi < len(groups):
      gnode[gi] = len(nodes)
      files = [("m", m) for m in groups[gi][0]]
      for k, st in enumerate(stubs):
        if st["g"] == gi:
          snode[k] = len(nodes)
          files.append(("s", k))
      nodes.append([files, ("g", gi)])
  out = []
  for files, (kind, idx) in nodes:
    if kind == "g":
      dmods, dstubs = groups[idx][1], (case.get("gsd") or {}).get(str(idx), [])
    else:
      dmods, dstubs = stubs[idx].get("d", []), stubs[idx].get("sd", [])
    dn = []
    for x in dmods:
      if gnode[gid[x]] not in dn:
        dn.append(gnode[gid[x]])
    for k in dstubs:
      if snode[k] not in dn:
        dn.append(snode[k])
    out.append((files, dn))
  return out


def file_name(case, f):
  return full_path(case, f[1]) if f[0] == "m" else stub_path(f[1])


def graph_expected_sources(case):
  """What deps_from_import_graph must return for the fake graph of a graph-mode case: one entry per node that has
  sources, members sorted by file name (type stubs are not analysed: dropped); deps = the sources among the files of
  the dep nodes (each node's files sorted, de-duplicated), followed by what every stub among them stands for: the
  source deps of the stub's own node and, transitively, of the stubs that node imports."""
  nodes = graph_nodes(case)
  stub_src = {}  # stub id -> the sources it stands for
  out = []
  for files, dn in nodes:
    flat = []
    for j in dn:
      for f in sorted(nodes[j][0], key=lambda f: file_name(case, f)):
        if f not in flat:
          flat.append(f)
    src = [f[1] for f in flat if f[0] == "m"]
    inherited = [m for f in flat if f[0] == "s" for m in stub_src[f[1]]]
    for f in files:
      if f[0] == "s":
        stub_src[f[1]] = src + inherited
    members = [f[1] for f in sorted(files, key=lambda f: file_name(case, f)) if f[0] == "m"]
    if members:
      out.append([members, src + inherited])
  return out


def model_groups(case):
  """the planner's input: graph-mode cases go through the Lean model of deps_from_import_graph (answer of the driver's
  `graph` command, stored by run_cases); direct cases name the groups themselves"""
  if case["mode"] != "graph":
    return case["groups"]
  return case["_lean_groups"] if "_lean_groups" in case else graph_expected_sources(case)


def graph_line(case):
  """the driver query for the import graph of a graph-mode case (files of a node in file-name order, as
  `_get_filenames` delivers them)"""
  ns = []
  for files, dn in graph_nodes(case):
    fs = sorted(files, key=lambda f: file_name(case, f))
    ns.append(",".join("%s%d" % f for f in fs) + "|" + ",".join(map(str, dn)))
  return "graph %s %s" % (case["kinds"] or "-", ";".join(ns) or "-")


def parse_graph_answer(ans):
  t = ans.split(" ")
  if len(t) != 3 or t[0] != "ok":
    return None, None
  gs = []
  if t[2] != "-":
    for g in t[2].split(";"):
      a, b = g.split("|")
      gs.append([[int(x) for x in a.split(",") if x], [int(x) for x in b.split(",") if x]])
  return t[1] == "11", gs


# ----------------------------------------------------------------------------------------------
# the real code
# ----------------------------------------------------------------------------------------------
_RT = {}


def rt():
  if not _RT:
    common.load_pytype()
    from pytype import imports_map_loader, module_utils
    from pytype.tools.analyze_project import parse_args, pytype_runner
    import logging
    logging.getLogger().setLevel(logging.CRITICAL)
    _RT.update(Module=module_utils.Module, pr=pytype_runner, parser=parse_args.make_parser(),
               loader=imports_map_loader)
  return types.SimpleNamespace(**_RT)


class _Resolved:
  def __init__(self, path, short_path, module_name):
    self.path, self.short_path, self.module_name = path, short_path, module_name


class Local(_Resolved):
  pass


class Direct(_Resolved):
  pass


class System(_Resolved):
  pass


class Builtin(_Resolved):
  pass


_RESOLVED = {"Local": Local, "Direct": Direct, "System": System, "Builtin": Builtin}


class _NodeSet:
  def __init__(self, nodes):
    self.nodes = sorted(nodes)


class FakeGraph:
  """Just enough of importlab.ImportGraph for deps_from_import_graph (same shape as upstream's test fake)."""

  def __init__(self, case):
    self.provenance = {}
    for i in range(len(case["kinds"])):
      self.provenance[full_path(case, i)] = _RESOLVED[mod_kind(case, i)](
          full_path(case, i), mod_target(case, i), mod_name(case, i))
    objs = []
    spec = graph_nodes(case)
    for files, _ in spec:
      fs = [file_name(case, f) for f in files]
      objs.append(fs[0] if len(fs) == 1 else _NodeSet(fs))
    self._list = [(objs[i], [objs[j] for j in dn]) for i, (_, dn) in enumerate(spec)]

  def deps_list(self):
    return list(reversed(self._list))  # dependents first, as nx.topological_sort over import edges


def run_real(case, workdir):
  """Runs the real planner; returns raw observations (strings only)."""
  R = rt()
  out = os.path.join(workdir, case.get("outdir") or "out")
  idir = os.path.join(out, "imports")
  if os.path.isdir(idir):  # scratch dirs are reused (directory creation/removal dominates otherwise)
    for f in os.listdir(idir):
      os.unlink(os.path.join(idir, f))
    if os.path.exists(os.path.join(out, "build.ninja")):
      os.unlink(os.path.join(out, "build.ninja"))
  else:
    os.makedirs(out, exist_ok=True)
  n = len(case["kinds"])
  mods = [R.Module(ROOT[mod_kind(case, i)], mod_target(case, i), mod_name(case, i), mod_kind(case, i))
          for i in range(n)]
  ident = {m: i for i, m in enumerate(mods)}
  conf = R.parser.config_from_defaults()
  conf.output = out
  conf.inputs = req_paths(case)
  res = {"out": out}
  try:
    if case["mode"] == "graph":
      sorted_sources = R.pr.deps_from_import_graph(FakeGraph(case))
      res["sorted"] = [[[ident[m] for m in g], [ident[m] for m in d]] for g, d in sorted_sources]
    else:
      sorted_sources = [(tuple(mods[i] for i in g), tuple(mods[i] for i in d)) for g, d in case["groups"]]
    runner = R.pr.PytypeRunner(conf, sorted_sources)
    st = {R.pr.Stage.SINGLE_PASS: "s", R.pr.Stage.FIRST_PASS: "1", R.pr.Stage.SECOND_PASS: "2"}
    ac = {R.pr.Action.CHECK: "c", R.pr.Action.INFER: "i", R.pr.Action.GENERATE_DEFAULT: "g"}
    res["yield"] = ["%d:%s:%s:%s" % (ident[m], ac[a], st[s], ",".join(str(ident[x]) for x in d) or "-")
                    for m, a, d, s in runner.yield_sorted_modules()]
    files = runner.setup_build()
    res["files"] = sorted(files)
  except KeyError:
    res["error"] = "err"
    return res
  except Exception as e:  # any other crash is reported as such
    res["error"] = "exc:" + repr(e)
    return res
  with open(os.path.join(out, "build.ninja"), encoding="utf-8") as fh:
    res["ninja"] = fh.read()
  imps = {}
  for f in sorted(os.listdir(idir)):
    with open(os.path.join(idir, f), encoding="utf-8", newline="") as fh:
      imps[f] = fh.read()
  res["imports"] = imps
  return res


# ----------------------------------------------------------------------------------------------
# independent reader for the subset of ninja syntax a plan uses (ninja manual, "Lexical syntax")
# ----------------------------------------------------------------------------------------------
class NinjaError(Exception):
  pass


_SIMPLE = set("abcdefghijklmnopqrstuvwxyzABCDEFGHIJKLMNOPQRSTUVWXYZ0123456789_-")
_VARCH = _SIMPLE | {"."}


def read_eval(s, i, path):
  """ReadEvalString: returns (parts, next index); parts = [(is_var, text)].
  path=True stops *before* an unescaped ' ' ':' '|' newline; path=False reads to and eats the newline."""
  parts = []
  n = len(s)
  while True:
    if i >= n:
      raise NinjaError("unexpected EOF")
    c = s[i]
    if c == "$":
      d = s[i + 1] if i + 1 < n else ""
      if d in ("$", " ", ":"):
        parts.append((False, d))
        i += 2
      elif d == "\n" or (d == "\r" and s[i + 2:i + 3] == "\n"):
        i += 2 if d == "\n" else 3
        while i < n and s[i] == " ":
          i += 1
      elif d == "{":
        j = i + 2
        while j < n and s[j] in _VARCH:
          j += 1
        if j == i + 2 or j >= n or s[j] != "}":
          raise NinjaError("bad $-escape")
        parts.append((True, s[i + 2:j]))
        i = j + 1
      elif d in _SIMPLE:
        j = i + 1
        while j < n and s[j] in _SIMPLE:
          j += 1
        parts.append((True, s[i + 1:j]))
        i = j
      else:
        raise NinjaError("bad $-escape")
    elif c == "\n":
      if not path:
        i += 1
      break
    elif c == "\r":
      if s[i + 1:i + 2] != "\n":
        raise NinjaError("lexing error")
      if not path:
        i += 2
      break
    elif c == "\0":
      raise NinjaError("unexpected EOF")
    elif path and c in " :|":
      break
    else:
      j = i + 1
      while j < n and s[j] not in "$ :|\r\n\0":
        j += 1
      parts.append((False, s[i:j]))
      i = j
  return parts, i


def evaluate(parts, env=None):
  env = env or {}
  return "".join((env.get(t, "") if v else t) for v, t in parts)


def _skip(s, i):
  while i < len(s) and s[i] == " ":
    i += 1
  return i


def _ident(s, i):
  j = i
  while j < len(s) and s[j] in _VARCH:
    j += 1
  if j == i:
    raise NinjaError("expected identifier at %d" % i)
  return s[i:j], j


def _bindings(s, i):
  out = {}
  while i < len(s) and s[i] == " ":
    i = _skip(s, i)
    key, i = _ident(s, i)
    i = _skip(s, i)
    if s[i:i + 1] != "=":
      raise NinjaError("expected =")
    i = _skip(s, i + 1)
    start = i
    parts, i = read_eval(s, i, False)
    out[key] = (parts, s[start:i].rstrip("\n"))
  return out, i


def _paths(s, i):
  out = []
  while True:
    i = _skip(s, i)
    start = i
    parts, i = read_eval(s, i, True)
    if not parts:
      return out, i
    out.append((evaluate(parts), s[start:i]))


def parse_ninja(text):
  """-> (rules {name: {var: parts}}, builds [ {outs, rule, ins, implicit, vars{k:(value, raw)}} ]);
  every path is (evaluated, raw token)."""
  rules, builds = {}, []
  i, n = 0, len(text)
  while i < n:
    if text.startswith("rule ", i):
      j = text.index("\n", i)
      name = text[i + 5:j]
      b, i = _bindings(text, j + 1)
      rules[name] = {k: v[0] for k, v in b.items()}
    elif text.startswith("build ", i):
      outs, i = _paths(text, i + 6)
      if not outs or text[i:i + 1] != ":":
        raise NinjaError("expected ':' after outputs at %d" % i)
      i = _skip(text, i + 1)
      rule, i = _ident(text, i)
      ins, i = _paths(text, i)
      implicit, orderonly = [], []
      if text[i:i + 2] == "||":
        orderonly, i = _paths(text, i + 2)
      elif text[i:i + 1] == "|":
        implicit, i = _paths(text, i + 1)
        if text[i:i + 2] == "||":
          orderonly, i = _paths(text, i + 2)
      if text[i:i + 1] != "\n":
        raise NinjaError("expected newline at %d, got %r" % (i, text[i:i + 5]))
      b, i = _bindings(text, i + 1)
      builds.append({"outs": outs, "rule": rule, "ins": ins, "implicit": implicit, "orderonly": orderonly,
                     "vars": {k: (evaluate(v[0]), v[1]) for k, v in b.items()}})
    elif text[i] == "\n":
      i += 1
    else:
      raise NinjaError("unexpected text at %d: %r" % (i, text[i:i + 20]))
  return rules, builds


_SHELL_SAFE = set("abcdefghijklmnopqrstuvwxyzABCDEFGHIJKLMNOPQRSTUVWXYZ0123456789_+-./")


def shell_escape(s):
  """ninja's GetShellEscapedString (posix)"""
  if all(c in _SHELL_SAFE for c in s):
    return s
  return "'" + s.replace("'", "'\\''") + "'"


def expand_command(rules, b):
  """The command line ninja runs for build statement b ($in/$out shell-escaped, other variables raw)."""
  rule = rules[b["rule"]]

  def lookup(name, depth=0):
    if name == "in":
      return " ".join(shell_escape(p[0]) for p in b["ins"])
    if name == "out":
      return " ".join(shell_escape(p[0]) for p in b["outs"])
    if name in b["vars"]:
      return b["vars"][name][0]
    if name in rule and depth < 5:
      return "".join((lookup(t, depth + 1) if v else t) for v, t in rule[name])
    return ""
  return lookup("command")


def ninja_binary():
  try:
    import ninja  # the PyPI wheel bundles the real binary
    p = os.path.join(ninja.BIN_DIR, "ninja")
    return p if os.path.exists(p) else None
  except Exception:
    return None


# ----------------------------------------------------------------------------------------------
# comparison of one case with the model
# ----------------------------------------------------------------------------------------------
def parse_out(tok):
  if tok == "D":
    return "D"
  a, b = tok.split(".")
  return (int(a), b == "1")


def parse_model(line):
  if line == "err":
    return None
  toks = line.split(" ")
  assert toks[0] == "ok", line
  files = [] if toks[1] == "-" else [int(x) for x in toks[1].split(",")]
  steps = []
  for t in toks[2:]:
    m, f, a, deps, imps = t.split(":")
    steps.append({
        "mod": int(m), "first": f == "1", "act": {"c": "check", "i": "infer"}[a],
        "deps": [] if deps == "-" else [parse_out(x) for x in deps.split(",")],
        "imports": [] if imps == "-" else [(int(kv.split("=")[0]), parse_out(kv.split("=")[1]))
                                            for kv in imps.split(",")]})
  return {"files": files, "steps": steps}


def out_path(case, out, o):
  if o == "D":
    return os.path.join(out, "imports", "default.pyi")
  return os.path.join(out, "pyi", out_key(case, o[0]) + ".pyi" + ("-1" if o[1] else ""))


def imports_file(case, out, i, first):
  return os.path.join(out, "imports", mod_name(case, i) + ".imports" + ("-1" if first else ""))


def expected_strings(case, out, model):
  """all path strings the model's plan mentions (for the Lean esc/path queries)"""
  s = set()
  for st in model["steps"]:
    s.add(out_path(case, out, (st["mod"], st["first"])))
    s.add(full_path(case, st["mod"]))
    s.add(imports_file(case, out, st["mod"], st["first"]))
    for d in st["deps"]:
      s.add(out_path(case, out, d))
  return s


def cps(s):
  return ",".join(str(ord(c)) for c in s) or "-"


def uncps(t):
  return "" if t == "-" else "".join(chr(int(x)) for x in t.split(","))


def compare(case, real, model_line, yield_line, lean):
  """-> list of mismatch strings.  `lean` maps a driver query line to its answer (adversarial cases)."""
  bad = []
  out = real["out"]
  if case["mode"] == "graph" and "sorted" in real:
    exp = model_groups(case)
    if real["sorted"] != exp:
      bad.append("deps_from_import_graph returned %r, the Lean model (Plan/Graph.lean) gives %r" % (real["sorted"], exp))
    if exp != graph_expected_sources(case):
      bad.append("Lean model of deps_from_import_graph gives %r, the contract as the harness states it %r" % (
          exp, graph_expected_sources(case)))
    if case.get("_lean_topo") is False:
      bad.append("premises `topo` / `stubsDistinct` of graph_deps_closed / graph_deps_exact do not hold for the generated graph")
    ids = [m for g, _ in exp for m in g]
    if len(ids) != len(set(ids)):
      bad.append("premise of graph_wf (distinct source files) does not hold for the generated graph")
    seen = set()
    for g, d in real["sorted"]:
      if not set(d) <= seen:
        bad.append("deps_from_import_graph: dep of group %r not in an earlier group" % (g,))
      seen |= set(g)
  model = parse_model(model_line)
  if real.get("error", "").startswith("exc:"):
    return bad + ["real code raised %s" % real["error"]]
  if "yield" in real:
    my = yield_line.split(" ")[1:]
    if my != real["yield"]:
      bad.append("yield_sorted_modules: real %r model %r" % (real["yield"], my))
  if (model is None) != (real.get("error") == "err"):
    return bad + ["KeyError: real %r model %r" % (real.get("error"), "err" if model is None else "ok")]
  if model is None:
    return bad
  exp_files = sorted(full_path(case, i) for i in model["files"])
  if exp_files != real["files"]:
    bad.append("setup_build() returned %r, model %r" % (real["files"], exp_files))
  try:
    rules, builds = parse_ninja(real["ninja"])
  except NinjaError as e:
    if lean is not None and any(lean.get("val " + cps(mod_name(case, st["mod"]) + "\n")) == "err"
                                for st in model["steps"]):
      return bad  # the model predicts it: an unescaped module name with a bad $-escape
    return bad + ["build.ninja does not parse: %s" % e]
  if sorted(rules) != ["check", "infer"]:
    bad.append("rules %r" % sorted(rules))
  if len(builds) != len(model["steps"]):
    bad.append("%d build statements, model has %d" % (len(builds), len(model["steps"])))
    return bad
  adversarial = lean is not None

  def tok_ok(what, k, pair, expected):
    val, raw = pair
    if val != expected:
      bad.append("step %d %s: parsed %r expected %r" % (k, what, val, expected))
    elif adversarial:
      esc = lean.get("esc " + cps(expected))
      if esc is None or uncps(esc.split(" ")[0]) != raw or esc.split(" ")[1] != "1":
        bad.append("step %d %s: raw token %r, Lean escape gives %r" % (k, what, raw, esc))
  exp_imports = {}
  for k, (b, st) in enumerate(zip(builds, model["steps"])):
    if len(b["outs"]) != 1 or len(b["ins"]) != 1 or b["orderonly"]:
      bad.append("step %d: shape outs=%d ins=%d orderonly=%d" % (k, len(b["outs"]), len(b["ins"]), len(b["orderonly"])))
      continue
    tok_ok("output", k, b["outs"][0], out_path(case, out, (st["mod"], st["first"])))
    if b["rule"] != st["act"]:
      bad.append("step %d action: real %r model %r" % (k, b["rule"], st["act"]))
    tok_ok("input", k, b["ins"][0], full_path(case, st["mod"]))
    if len(b["implicit"]) != len(st["deps"]):
      bad.append("step %d deps: real %r model %r" % (k, [p[0] for p in b["implicit"]],
                                                     [out_path(case, out, d) for d in st["deps"]]))
    else:
      for p, d in zip(b["implicit"], st["deps"]):
        tok_ok("dep", k, p, out_path(case, out, d))
    if sorted(b["vars"]) != ["imports", "module"]:
      bad.append("step %d variables %r" % (k, sorted(b["vars"])))
      continue
    ifile = imports_file(case, out, st["mod"], st["first"])
    tok_ok("imports", k, b["vars"]["imports"], ifile)
    name = mod_name(case, st["mod"])
    exp_mod = name
    if adversarial:
      r = lean.get("val " + cps(name + "\n"), "err").split(" ")
      exp_mod = uncps(r[1]) if r[0] == "ok" else None
      if b["vars"]["module"][1] != name.lstrip(" "):
        bad.append("step %d module raw %r expected %r" % (k, b["vars"]["module"][1], name))
    if b["vars"]["module"][0] != exp_mod:
      bad.append("step %d module: parsed %r model %r" % (k, b["vars"]["module"][0], exp_mod))
    exp_imports[os.path.basename(ifile)] = "".join(
        "%s %s\n" % (out_key(case, key), out_path(case, out, o)) for key, o in st["imports"])
  real_imps = dict(real["imports"])
  real_imps.pop("default.pyi", None)
  if real_imps != exp_imports:
    for f in sorted(set(real_imps) | set(exp_imports)):
      if real_imps.get(f) != exp_imports.get(f):
        bad.append("imports file %s: real %r model %r" % (f, real_imps.get(f), exp_imports.get(f)))
        break
  return bad


# ----------------------------------------------------------------------------------------------
# S: the property's own oracle, evaluated on the real plan
# ----------------------------------------------------------------------------------------------
def topo_schedules(n, before, limit=20000):
  """all linear extensions of `before` (set of (a,b): a must precede b) over range(n), up to limit"""
  preds = {i: {a for a, b in before if b == i} for i in range(n)}
  out = []

  def rec(done, order):
    if len(out) >= limit:
      return
    if len(order) == n:
      out.append(list(order))
      return
    for i in range(n):
      if i not in done and preds[i] <= done:
        done.add(i)
        order.append(i)
        rec(done, order)
        order.pop()
        done.discard(i)
  rec(set(), [])
  return out


def oracle(case, real, characterised=True):
  """-> list of property failures of the real plan for `case` (empty = holds).
  Does not rely on the model: only on the case description and on what was written to disk.
  The three characterised regions (known findings) are not looked at."""
  R = rt()
  fails = []
  groups = graph_expected_sources(case) if case["mode"] == "graph" else case["groups"]
  n = len(case["kinds"])
  members = [m for g, _ in groups for m in g]
  wf = len(set(members)) == len(members) and all(0 <= m < n for m in members)
  seen, closed = set(), True
  for g, d in groups:
    closed = closed and set(d) <= seen
    seen |= set(g)
  if "error" in real:
    if wf and closed:
      fails.append("planning raised %s on a well-formed input in dependency order" % real["error"])
    return fails
  if not wf:
    return []  # a file in two groups: outside the property's quantifier (not an import graph)
  out = real["out"]
  try:
    rules, builds = parse_ninja(real["ninja"])
  except NinjaError as e:
    return ["build.ninja is not valid ninja syntax: %s" % e]
  default = os.path.join(out, "imports", "default.pyi")
  outs = [b["outs"][0][0] for b in builds]
  if len(set(outs)) != len(outs):
    fails.append("two build statements produce the same output: %r" % sorted(o for o in outs if outs.count(o) > 1)[:2])
  producer = {o: k for k, o in enumerate(outs)}
  deps = []
  for k, b in enumerate(builds):
    ds = [p[0] for p in b["implicit"]] + [p[0] for p in b["orderonly"]]
    for d in ds:
      if d not in producer and d != default:
        fails.append("step %d declares dep %r which no statement produces" % (k, d))
    deps.append([d for d in ds if d in producer])
  # reads: what the analysis will open = values of the imports file named by the statement,
  # read back with the real loader
  opts = types.SimpleNamespace(open_function=open)
  builder = R.loader.ImportsMapBuilder(opts)
  reads = []
  keyspace = any(" " in out_key(case, i) or out_key(case, i) != out_key(case, i).strip() for i in range(n))
  for k, b in enumerate(builds):
    ipath = b["vars"].get("imports", ("", ""))[0]
    if not os.path.exists(ipath):
      fails.append("step %d: imports file %r (from the plan) does not exist" % (k, ipath))
      reads.append([])
      continue
    try:
      items = builder._read_from_file(ipath)
    except ValueError:
      items = None
    if items is None:
      if not keyspace:
        fails.append("step %d: imports file unreadable by imports_map_loader" % k)
      reads.append([])
      continue
    reads.append(items)
    for key, val in items:
      if val != default and val not in producer and not keyspace:
        fails.append("step %d reads %r which is neither default.pyi nor the output of a build statement" % (k, val))
  if fails:
    return fails
  # schedules: every linear extension of the declared edges (small plans) / closure (any size)
  before = {(producer[d], k) for k in range(len(builds)) for d in deps[k]}
  closure = []
  for k in range(len(builds)):
    seen_k, todo = set(), list(deps[k])
    while todo:
      d = todo.pop()
      if d not in seen_k:
        seen_k.add(d)
        todo.extend(deps[producer[d]])
    closure.append(seen_k)
    if outs[k] in seen_k:
      fails.append("step %d transitively depends on its own output (cycle in the plan)" % k)
  if not fails and not keyspace:
    for k in range(len(builds)):
      for key, val in reads[k]:
        if val != default and val not in closure[k]:
          fails.append("step %d (%s) reads %r, not in the closure of its declared deps: a schedule may run it first"
                       % (k, outs[k], val))
    if len(builds) <= 7 and not fails:
      for order in topo_schedules(len(builds), before):
        done = set()
        for k in order:
          for key, val in reads[k]:
            if val != default and val not in done:
              fails.append("schedule %r: step %d reads %r before it is produced" % (order, k, val))
          done.add(outs[k])
        if fails:
          break
  # each requested file analysed for errors exactly once
  checks = {}
  for b in builds:
    if b["rule"] == "check":
      checks[b["ins"][0][0]] = checks.get(b["ins"][0][0], 0) + 1
  present = set(members)
  reqp = set(req_paths(case))
  for i in sorted(present):
    fp = full_path(case, i)
    want = 1 if (fp in reqp and not is_gen(case, i) and wf) else None
    got = checks.get(fp, 0)
    if got > 1 or (want == 1 and got != 1):
      fails.append("requested file %r has %d check statements" % (fp, got))
  for fp, c in checks.items():
    if fp not in reqp:
      fails.append("file %r is checked for errors but was not requested" % fp)
  # every analysis sees its direct deps; second passes see the whole cycle (first pass feeds second)
  if wf and closed and not keyspace:
    grp = {m: (g, d) for g, d in groups for m in g}
    by_in = {full_path(case, i): i for i in present}
    final_seen = set()
    for k, b in enumerate(builds):
      i = by_in.get(b["ins"][0][0])
      if i is None:
        fails.append("step %d analyses %r which is not a source module" % (k, b["ins"][0][0]))
        continue
      g, d = grp[i]
      first = outs[k].endswith("-1")
      need = list(d) + ([] if (first or len(g) == 1) else list(g))
      have = {key: val for key, val in reads[k]}
      for m in need:
        v = have.get(out_key(case, m))
        ok = (v == default) if is_gen(case, m) else (
            v in (out_path(case, out, (m, True)), out_path(case, out, (m, False))))
        if not ok:
          fails.append("step %d (%s) has no imports entry for its dependency %r (got %r)"
                       % (k, os.path.basename(outs[k]), mod_name(case, m), v))
      if not first:
        final_seen.add(i)
    # paths survive: every statement names the files the case describes
    for k, b in enumerate(builds):
      i = by_in.get(b["ins"][0][0])
      if i is None:
        continue
      first = outs[k].endswith("-1")
      if outs[k] != out_path(case, out, (i, first)):
        fails.append("step %d: output path %r, expected %r" % (k, outs[k], out_path(case, out, (i, first))))
      if b["vars"]["imports"][0] != imports_file(case, out, i, first):
        fails.append("step %d: imports path %r, expected %r" % (k, b["vars"]["imports"][0],
                                                                imports_file(case, out, i, first)))
  return fails


# ----------------------------------------------------------------------------------------------
# generators
# ----------------------------------------------------------------------------------------------
def ordered_partitions(items):
  items = list(items)
  if not items:
    yield []
    return
  for r in range(1, len(items) + 1):
    for block in itertools.combinations(items, r):
      rest = [x for x in items if x not in block]
      for tail in ordered_partitions(rest):
        yield [list(block)] + tail


def subsets(xs):
  xs = list(xs)
  for r in range(len(xs) + 1):
    for c in itertools.combinations(xs, r):
      yield list(c)


def structures(n):
  """every ordered partition of n modules into groups, every choice of deps among earlier modules"""
  for blocks in ordered_partitions(range(n)):
    earlier = []
    choices = []
    for b in blocks:
      choices.append(list(subsets(earlier)))
      earlier = earlier + b
    for deps in itertools.product(*choices):
      yield [[b, d] for b, d in zip(blocks, deps)]


def exhaustive_cases(n, kinds_alphabet="lbs"):
  for groups in structures(n):
    for kinds in itertools.product(kinds_alphabet, repeat=n):
      for req in subsets(range(n)):
        for absent in (False, True):
          yield {"kinds": "".join(kinds), "groups": groups, "req": req + ([n + 3] if absent else []),
                 "names": None, "outdir": "out", "mode": "direct"}


def whole_group_deps(groups):
  gid = {m: gi for gi, (g, _) in enumerate(groups) for m in g}
  for g, d in groups:
    for x in d:
      if any(y not in d for y in groups[gid[x]][0]):
        return False
  return True


def random_kinds(rng, n):
  return "".join(rng.choice("llllddbsLS" if rng.random() < 0.3 else "lllbs") for _ in range(n))


def random_structure(rng, n, violate=0.0):
  ids = list(range(n))
  rng.shuffle(ids)
  groups, i = [], 0
  while i < n:
    size = 1 if rng.random() < 0.6 else rng.randrange(2, 5)
    g = sorted(ids[i:i + size]) if rng.random() < 0.7 else ids[i:i + size]
    earlier = ids[:i]
    k = rng.randrange(0, min(len(earlier), 4) + 1) if earlier else 0
    d = rng.sample(earlier, k)
    groups.append([g, d])
    i += size
  if violate and rng.random() < violate:
    what = rng.choice(["later", "self", "dupmod", "dupdep", "empty", "unknownreq"])
    gi = rng.randrange(len(groups))
    if what == "later" and gi + 1 < len(groups):
      groups[gi][1] = groups[gi][1] + [rng.choice(groups[-1][0])]
    elif what == "self":
      groups[gi][1] = groups[gi][1] + [rng.choice(groups[gi][0])]
    elif what == "dupmod":
      groups.append([[rng.choice(ids)], []])
    elif what == "dupdep" and groups[gi][1]:
      groups[gi][1] = groups[gi][1] + [groups[gi][1][0]]
    elif what == "empty":
      groups.insert(gi, [[], []])
  return groups


def add_stubs(rng, case):
  """Adds 1-3 type stubs to a graph-mode case: stand-alone nodes (importing earlier sources and stubs) or members of a
  group's node (a cycle through a stub); groups import stubs placed before them."""
  groups = case["groups"]
  G = len(groups)
  stubs, gsd = [], {}
  for k in range(rng.randrange(1, 4)):
    if rng.random() < 0.4:
      stubs.append({"at": 0, "g": rng.randrange(G)})
    else:
      at = rng.randrange(0, G + 1)
      earlier = [m for g, _ in groups[:at] for m in g]
      dg = []
      for x in rng.sample(earlier, min(len(earlier), rng.randrange(0, 3))):
        for (g, _) in groups:
          if x in g:
            dg += [y for y in g if y not in dg]
      sd = [j for j, st in enumerate(stubs)
            if (st["g"] == -1 and st["at"] <= at or st["g"] != -1 and st["g"] < at) and rng.random() < 0.5]
      stubs.append({"at": at, "g": -1, "d": dg, "sd": sd})
  for gi in range(G):
    ok = [j for j, st in enumerate(stubs) if (st["g"] == -1 and st["at"] <= gi or st["g"] != -1 and st["g"] < gi)]
    pick = [j for j in ok if rng.random() < 0.5]
    if pick:
      gsd[str(gi)] = pick
  case["stubs"], case["gsd"] = stubs, gsd
  return case


def stub_family():
  """Deterministic: two or three sources and one or two stubs in every position (stand-alone before / between / after,
  inside a cycle), every request subset of the sources."""
  out = []
  shapes = [
      # (groups, stubs, gsd)
      ([[[0], []]], [{"at": 0, "g": 0}], {}),                                   # cycle {m0, stub}
      ([[[0], []], [[1], [0]]], [{"at": 0, "g": 0}], {}),                       # m1 imports the mixed node
      ([[[0], []], [[1], []]], [{"at": 0, "g": 0}], {"1": [0]}),                # m1 imports only the stub of it
      ([[[0], []], [[1], [0]]], [{"at": 0, "g": 1}], {}),                       # mixed node has a source dep
      ([[[0, 1], []]], [{"at": 0, "g": 0}], {}),                                # cycle of two sources and a stub
      ([[[0, 1], []], [[2], [0, 1]]], [{"at": 0, "g": 0}], {}),
      ([[[0], []], [[1], []]], [{"at": 1, "g": -1, "d": [0], "sd": []}], {"1": [0]}),   # stub between: inherits m0
      ([[[0], []], [[1], []]], [{"at": 1, "g": -1, "d": [0], "sd": []},
                                 {"at": 1, "g": -1, "d": [], "sd": [0]}], {"1": [1]}),   # stub chain
      ([[[0], []], [[1], [0]]], [{"at": 2, "g": -1, "d": [1], "sd": []}], {}),           # stub after everything
      ([[[0], []], [[1], []], [[2], []]], [{"at": 0, "g": 0}, {"at": 2, "g": -1, "d": [1], "sd": [0]}], {"2": [1]}),
      ([[[0], []], [[1, 2], [0]]], [{"at": 0, "g": 1}, {"at": 0, "g": -1, "d": [], "sd": []}], {"1": [1]}),
  ]
  for groups, stubs, gsd in shapes:
    n = sum(len(g) for g, _ in groups)
    for mask in range(1 << n):
      out.append({"kinds": "l" * n, "groups": [[list(g), list(d)] for g, d in groups],
                  "req": [i for i in range(n) if mask >> i & 1], "names": None, "outdir": "out", "mode": "graph",
                  "stubs": [dict(st) for st in stubs], "gsd": dict(gsd)})
  return out


ADV = [" ", ":", "$", "$$", " $", "\u00e9", "\u96ea", "\u00df", "-", "_", "{", "}", "#", "%", "'", "\"", "=", "$x", "${y}", "~",
       "\u00a0"]


def adversarial_name(rng, i):
  segs = []
  for _ in range(rng.choice([1, 1, 2])):
    seg = "".join(rng.choice(ADV + list("abXY9")) for _ in range(rng.randrange(1, 4)))
    segs.append(seg)
  # unique and never ending in a separator; ids keep distinct modules distinct
  return ".".join(segs) + "q%d" % i


def adversarial_case(rng, n=None):
  n = n or rng.randrange(1, 6)
  groups = random_structure(rng, n)
  names = [adversarial_name(rng, i) for i in range(n)]
  outdir = rng.choice(["out", "o ut", "o:ut", "o$ut", "o ut$x:y \u00e9", "\u96ea $$", "a$ :b"])
  return {"kinds": random_kinds(rng, n).lower() if rng.random() < 0.8 else random_kinds(rng, n),
          "groups": groups, "req": rng.sample(range(n), rng.randrange(0, n + 1)) + ([n + 1] if rng.random() < 0.3 else []),
          "names": names, "outdir": outdir, "mode": "direct"}


def sanitised(case):
  """moves a case out of the characterised regions of the *plan-level* oracle: `$` or blanks in module
  names (unescaped `module =`, .imports keys).  The output directory is left alone: there the
  characterised defect is at the command-line level only, which the S oracle does not look at."""
  if not case.get("names"):
    return case
  c = dict(case)

  def clean(t):
    return "".join(("S" if ch == "$" else "_" if ch.isspace() else ch) for ch in t)
  c["names"] = [None if nm is None else clean(nm) for nm in c["names"]]
  return c


# ----------------------------------------------------------------------------------------------
# workers
# ----------------------------------------------------------------------------------------------
def _work(args):
  idx, case, model_line, yield_line, lean, base = args
  # adversarially named cases run in the parent in `base` (their expected strings mention the dir);
  # plain ones in a per-process dir
  wd = base if lean is not None else os.path.join(base, "w%d" % os.getpid())
  real = run_real(case, wd)
  bad = compare(case, real, model_line, yield_line, lean)
  nsteps = real.get("ninja", "").count("\nbuild ")
  two = "-1:" in real.get("ninja", "")
  return idx, bad, nsteps, two, real.get("error")


def _pool(n):
  ctx = multiprocessing.get_context("fork")
  return ctx.Pool(n)


def run_cases(cases, drv, base, procs):
  """phase 1: the model on every case; phase 2: the real code + comparison (parallel)."""
  gcases = [c for c in cases if c["mode"] == "graph"]
  for c, ans in zip(gcases, drv.batch([graph_line(c) for c in gcases]) if gcases else []):
    topo_ok, gs = parse_graph_answer(ans)
    assert gs is not None, (graph_line(c), ans)
    c["_lean_groups"], c["_lean_topo"] = gs, topo_ok
  lines = []
  for c in cases:
    lines.append(case_line("plan", c, model_groups(c)))
    lines.append(case_line("yield", c, model_groups(c)))
  outp = drv.batch(lines)
  assert len(outp) == len(lines), (len(outp), len(lines))
  # Lean escape / reader answers for the adversarially named cases
  queries, per_case = [], []
  for k, c in enumerate(cases):
    if c.get("names") is None and (c.get("outdir") or "out") == "out":
      per_case.append(None)
      continue
    model = parse_model(outp[2 * k])
    qs = set()
    if model is not None:
      out = os.path.join(base, c.get("outdir") or "out")
      for s in expected_strings(c, out, model):
        qs.add("esc " + cps(s))
      for st in model["steps"]:
        qs.add("val " + cps(mod_name(c, st["mod"]) + "\n"))
    per_case.append(sorted(qs))
    queries.extend(per_case[-1])
  queries = sorted(set(queries))
  answers = dict(zip(queries, drv.batch(queries))) if queries else {}
  # the Lean path reader must undo the Lean escape on exactly these strings
  rt_lines = ["path " + cps(uncps(answers[q].split(" ")[0]) + " ") for q in queries if q.startswith("esc ")]
  rt_ans = drv.batch(rt_lines) if rt_lines else []
  bad_rt = []
  for q, a in zip([q for q in queries if q.startswith("esc ")], rt_ans):
    want = uncps(q[4:])
    if a != "ok %s 32" % cps(want):
      bad_rt.append({"kind": "lean-roundtrip", "string": want, "lean": a})
  jobs = []
  for k, c in enumerate(cases):
    lean = None if per_case[k] is None else {q: answers[q] for q in per_case[k]}
    jobs.append((k, c, outp[2 * k], outp[2 * k + 1], lean, base))
  plain = [j for j in jobs if j[4] is None]
  results = [_work(j) for j in jobs if j[4] is not None]
  if procs > 1 and len(plain) > 400:
    with _pool(procs) as pool:
      results += pool.map(_work, plain, chunksize=max(1, len(plain) // (procs * 8)))
  else:
    results += [_work(j) for j in plain]
  return results, outp, bad_rt


# ----------------------------------------------------------------------------------------------
# K
# ----------------------------------------------------------------------------------------------
def string_level(res, rng, drv, tier):
  """escape_ninja_path, the reader and the .imports line format on adversarial strings."""
  R = rt()
  dis = []
  alphabet = list("ab/._-") + [" ", ":", "$", "\n", "|", "\r", "{", "}", "\u00e9", "\u96ea", "\t", "\u00a0", "\u3000", "\0", "x1", "$$", "$ ", "${a}"]
  strings = ["", " ", "$", ":", "\n", "a b", "a$b", "a:b", "a\nb", "$$", "$ ", "${x}", "a|b", "$\n  x", "\u00e9 \u96ea$:", "${}", "${a", "$-", "a\r\nb", "a$\r\n b"]
  nstr = 400 if tier == "quick" else 4000
  for _ in range(nstr):
    strings.append("".join(rng.choice(alphabet) for _ in range(rng.randrange(0, 9))))
  lines = []
  for s in strings:
    lines.append("esc " + cps(s))
    lines.append("path " + cps(s + "\n"))
    lines.append("val " + cps(s + "\n"))
  ans = drv.batch(lines)
  carried = 0
  for k, s in enumerate(strings):
    e_real = R.pr.escape_ninja_path(s)
    e_lean, clean = ans[3 * k].split(" ")
    if uncps(e_lean) != e_real or clean != "1":
      dis.append({"kind": "escape", "string": s, "real": e_real, "lean": uncps(e_lean), "wellEscaped": clean})
    for path, a in ((True, ans[3 * k + 1]), (False, ans[3 * k + 2])):
      text = s + "\n"
      try:
        parts, i = read_eval(text, 0 if path else _skip(text, 0), path)  # a binding skips blanks after `=`
        mine = ("ok", evaluate(parts), text[i:] if path else None)
      except NinjaError:
        mine = ("err", None, None)
      la = a.split(" ")
      lean = ("ok", uncps(la[1]), uncps(la[2]) if path else None) if la[0] == "ok" else ("err", None, None)
      if mine != lean:
        dis.append({"kind": "reader-vs-lean", "path": path, "string": s, "reader": mine, "lean": a})
    # the real escape through the independent reader: survives unless it has an uncarriable character
    if not any(c in s for c in "\n|\r\0"):
      try:
        parts, i = read_eval(e_real + " ", 0, True)
        back, rest = evaluate(parts), (e_real + " ")[i:]
      except NinjaError as e:
        back, rest = "<%s>" % e, ""
      if back != s or rest != " ":
        dis.append({"kind": "escape-roundtrip", "string": s, "escaped": e_real, "read": back})
      carried += 1
  # .imports lines: real writer + real loader vs the Lean line reader
  wd = os.path.join(SCRATCH, "s%d-%d" % (os.getpid(), common.seed()))
  shutil.rmtree(wd, ignore_errors=True)
  os.makedirs(os.path.join(wd, "imports"))
  conf = R.parser.config_from_defaults()
  conf.output = wd
  conf.inputs = []
  runner = R.pr.PytypeRunner(conf, [])
  builder = R.loader.ImportsMapBuilder(types.SimpleNamespace(open_function=open))
  walpha = list("ab/.") + [" ", "\t", "\u00a0", "\u3000", "\u2003", "\x1c", "\x85", "\u00e9", "$", ":"]
  pairs = [("a", "/o/a.pyi"), ("a b", "/o/a b.pyi"), ("a", "/o dir/a.pyi"), (" a", "/o/a.pyi"), ("a", "/o/a.pyi "),
           ("\u00a0a", "/o"), ("a", "b\u3000")]
  for _ in range(150 if tier == "quick" else 1500):
    pairs.append(("".join(rng.choice(walpha) for _ in range(rng.randrange(1, 5))),
                  "".join(rng.choice(walpha) for _ in range(rng.randrange(1, 8)))))
  lines = ["imp " + cps("%s %s" % p) for p in pairs]
  ans = drv.batch(lines + ["wsall"])
  guard_ok = 0
  try:
    for (k, v), a in zip(pairs, ans):
      f = runner.write_imports("probe", {k: v}, "")
      try:
        items = builder._read_from_file(f)
        real = "blank" if not items else "ok %s %s" % (cps(items[0][0]), cps(items[0][1]))
      except ValueError:
        real = "bad"
      if real != a:
        dis.append({"kind": "imports-line", "key": k, "value": v, "real": real, "lean": a})
      if not any(c.isspace() for c in k) and not v[0].isspace() and not v[-1].isspace():
        guard_ok += 1
        if real != "ok %s %s" % (cps(k), cps(v)):
          dis.append({"kind": "imports-line-guard", "key": k, "value": v, "real": real})
  finally:
    shutil.rmtree(wd, ignore_errors=True)
  ws_py = ",".join(str(c) for c in range(0x30000) if chr(c).isspace())
  if ans[-1] != ws_py:
    dis.append({"kind": "isspace-table", "lean": ans[-1][:200], "python": ws_py[:200]})
  res.cov.setdefault("distribution", {}).update({
      "escape_strings": len(strings), "escape_strings_carriable": carried,
      "imports_line_pairs": len(pairs), "imports_line_pairs_in_guard": guard_ok})
  return dis


def ninja_crosscheck(res, cases, base, limit):
  """the independent reader + command expansion against the real ninja binary (`-t commands`)"""
  nb = ninja_binary()
  res.cov.setdefault("distribution", {})["ninja_binary_crosschecks"] = 0
  if not nb:
    return []
  dis, done = [], 0
  for k, c in enumerate(cases):
    if done >= limit:
      break
    wd = os.path.join(base, "n%d" % k)
    try:
      real = run_real(c, wd)
      if "error" in real or "\nbuild " not in real["ninja"]:
        continue
      try:
        rules, builds = parse_ninja(real["ninja"])
      except NinjaError:
        continue  # an unescaped module name with a bad $-escape (known finding c19-module-name-dollar)
      mine = sorted(expand_command(rules, b) for b in builds)
      r = subprocess.run([nb, "-C", real["out"], "-t", "commands"], stdout=subprocess.PIPE,
                         stderr=subprocess.STDOUT, text=True, timeout=60)
      theirs = sorted(l for l in r.stdout.split("\n") if l and not l.startswith("ninja: Entering"))
      if r.returncode != 0 or mine != theirs:
        dis.append({"kind": "reader-vs-ninja-binary", "case": c, "reader": mine[:3], "ninja": theirs[:3],
                    "rc": r.returncode})
      done += 1
    finally:
      shutil.rmtree(wd, ignore_errors=True)
  res.cov["distribution"]["ninja_binary_crosschecks"] = done
  return dis


N_EX3 = [0]


def build_cases(rng, tier):
  cases, tags = [], []

  def add(c, tag):
    cases.append(c)
    tags.append(tag)
  small = [c for n in (1, 2) for c in exhaustive_cases(n)]
  for c in small:
    add(c, "exh<=2")
  ex3 = list(exhaustive_cases(3))
  N_EX3[0] = len(ex3)
  if tier == "thorough":
    for c in ex3:
      add(c, "exh3")
  else:
    for c in rng.sample(ex3, 1500):
      add(c, "exh3-sample")
  st4 = list(structures(4))
  per4 = 6 if tier == "thorough" else 0
  for groups in st4:
    for _ in range(per4):
      add({"kinds": "".join(rng.choice("lbs") for _ in range(4)), "groups": groups,
           "req": [i for i in range(4) if rng.random() < 0.5] + ([9] if rng.random() < 0.2 else []),
           "names": None, "outdir": "out", "mode": "direct"}, "struct4-all")
  if tier == "quick":
    for groups in rng.sample(st4, 500):
      add({"kinds": "".join(rng.choice("lbs") for _ in range(4)), "groups": groups,
           "req": [i for i in range(4) if rng.random() < 0.5] + ([9] if rng.random() < 0.2 else []),
           "names": None, "outdir": "out", "mode": "direct"}, "struct4-sample")
  for n, cnt in ((5, 400 if tier == "quick" else 20000), (6, 200 if tier == "quick" else 6000)):
    for _ in range(cnt):
      groups = random_structure(rng, n)
      groups = [[sorted(g), d] for g, d in groups]
      add({"kinds": random_kinds(rng, n), "groups": groups,
           "req": [i for i in range(n) if rng.random() < 0.4] + ([n + 2] if rng.random() < 0.2 else []),
           "names": None, "outdir": "out", "mode": "direct"}, "random%d" % n)
  for _ in range(300 if tier == "quick" else 4000):
    n = rng.randrange(1, 13)
    add({"kinds": random_kinds(rng, n), "groups": random_structure(rng, n, violate=0.25),
         "req": [i for i in range(n) if rng.random() < 0.35] + ([n + 2] if rng.random() < 0.2 else []),
         "names": None, "outdir": "out", "mode": "direct"}, "random<=12")
  # through the real deps_from_import_graph (whole-group deps, as an import graph produces them)
  g_ok = 0
  want = 400 if tier == "quick" else 5000
  tries = 0
  while g_ok < want and tries < want * 30:
    tries += 1
    n = rng.randrange(1, 9)
    groups = [[sorted(g), d] for g, d in random_structure(rng, n)]
    gid = {m: gi for gi, (g, _) in enumerate(groups) for m in g}
    for g in groups:  # close deps over whole groups
      full = []
      for x in g[1]:
        for y in groups[gid[x]][0]:
          if y not in full:
            full.append(y)
      g[1] = full
    c = {"kinds": random_kinds(rng, n), "groups": groups,
         "req": [i for i in range(n) if rng.random() < 0.4], "names": None, "outdir": "out", "mode": "graph"}
    if rng.random() < 0.5:
      add_stubs(rng, c)
    add(c, "graph+stubs" if c.get("stubs") else "graph")
    g_ok += 1
  for c in stub_family():
    add(c, "graph-stub-family")
  for _ in range(250 if tier == "quick" else 3000):
    add(adversarial_case(rng), "adversarial")
  return cases, tags


def correspond(res, rng, tier):
  drv = common.ensure_driver("drv_c19")
  rt()
  base = os.path.join(SCRATCH, "k%d-%d" % (os.getpid(), common.seed()))
  shutil.rmtree(base, ignore_errors=True)
  os.makedirs(base)
  disagreements = []
  try:
    replay = os.environ.get("VERIF_REPLAY")
    cases, tags = build_cases(rng, tier)
    if replay:
      import json
      data = json.load(open(replay))
      extra = [d["case"] for d in data.get("disagreements", []) if "case" in d]
      if "input" in data and isinstance(data["input"], dict) and "case" in data["input"]:
        extra.append(data["input"]["case"])
      cases = extra + cases
      tags = ["replay"] * len(extra) + tags
    results, outp, bad_rt = run_cases(cases, drv, base, procs=14)
    disagreements.extend(bad_rt)
    nontrivial, two_pass, errs, steps_hist = set(), 0, 0, {}
    for (idx, bad, nsteps, two, err) in results:
      c = cases[idx]
      if bad:
        disagreements.append({"kind": "plan", "tag": tags[idx], "case": {k: v for k, v in c.items() if k[0] != "_"},
                              "mismatch": bad[:4],
                              "model": outp[2 * idx][:600]})
      if nsteps >= 2:
        nontrivial.add(outp[2 * idx] + "|" + str(c.get("names")))
      two_pass += 1 if two else 0
      errs += 1 if err else 0
      b = min(nsteps, 12)
      steps_hist[b] = steps_hist.get(b, 0) + 1
    adv = [c for c, t in zip(cases, tags) if t == "adversarial"]
    disagreements.extend(ninja_crosscheck(res, adv, base, 12 if tier == "quick" else 100))
    disagreements.extend(string_level(res, rng, drv, tier))
    tagc = {}
    for t in tags:
      tagc[t] = tagc.get(t, 0) + 1
    res.cov["evaluations"] = len(cases)
    res.cov["distinct_nontrivial"] = len(nontrivial)
    res.cov["exhaustive"] = False
    res.cov["rule"] = (
        "each case = (module kinds, ordered source groups with deps, requested files, file names, output dir); "
        "real PytypeRunner.yield_sorted_modules + setup_build (graph cases: behind the real "
        "deps_from_import_graph on a fake import graph) write build.ninja/*.imports under build/c19/, an "
        "independent ninja reader parses them back; compared with the Lean model: yielded tuples, KeyError, "
        "returned file set, and per build statement output/action/input/declared deps (ordered)/imports "
        "variable/module variable/raw escaped tokens (= Lean escape)/exact .imports file text. "
        "non-trivial = plan with >= 2 build statements; distinct = distinct model plans")
    res.cov["distribution"].update({
        "cases_by_family": tagc, "plans_with_two_pass_cycle": two_pass, "keyerror_cases": errs,
        "build_statements_histogram": {str(k): v for k, v in sorted(steps_hist.items())},
        "exhaustive_structures_n<=2": "all (every ordered partition x deps x kinds l/b/s x requested subset x absent file)",
        "exhaustive_n3": ("all %d" if tier == "thorough" else "seeded sample 1500 of %d") % N_EX3[0],
        "structures_n4": len(list(structures(4))),
    })
    res.add_samples([
        {"case": {k: v for k, v in cases[len(cases) // 3].items() if k[0] != "_"}, "model": outp[2 * (len(cases) // 3)][:300]},
        {"case": adv[0] if adv else None},
    ])
  finally:
    shutil.rmtree(base, ignore_errors=True)
    try:
      os.rmdir(SCRATCH)
    except OSError:
      pass
  return disagreements


# ----------------------------------------------------------------------------------------------
# W: known findings
# ----------------------------------------------------------------------------------------------
def commands_of(real):
  """the command lines of a real plan: from the real ninja binary when available, else the reader"""
  nb = ninja_binary()
  if nb:
    r = subprocess.run([nb, "-C", real["out"], "-t", "commands"], stdout=subprocess.PIPE,
                       stderr=subprocess.STDOUT, text=True, timeout=60)
    if r.returncode == 0:
      return [l for l in r.stdout.split("\n") if l and not l.startswith("ninja: Entering")], "ninja -t commands"
  rules, builds = parse_ninja(real["ninja"])
  return [expand_command(rules, b) for b in builds], "independent reader"


def replay_finding(entry, base):
  """-> (still_fails, detail)"""
  w = entry["witness"]
  case = w["case"]
  wd = os.path.join(base, entry["id"])
  try:
    real = run_real(case, wd)
    if "error" in real:
      return True, "planning raised " + real["error"]
    out = real["out"]
    if w["oracle"] == "command-argv":
      cmds, how = commands_of(real)
      for cmd in cmds:
        try:
          argv = shlex.split(cmd)
        except ValueError as e:
          return True, "command not parseable by sh: %s" % e
        # sh additionally expands $name inside unquoted words
        ii = argv.index("--imports_info")
        got = argv[ii + 1]
        want = [imports_file(case, out, i, f) for i in range(len(case["kinds"])) for f in (False, True)]
        if got not in want or "$" in got:
          return True, "%s: --imports_info receives %r (shell word splitting / expansion of the unquoted $imports)" % (how, got)
      return False, ""
    if w["oracle"] == "module-var":
      rules, builds = parse_ninja(real["ninja"])
      for b in builds:
        i = [j for j in range(len(case["kinds"])) if full_path(case, j) == b["ins"][0][0]][0]
        if b["vars"]["module"][0] != mod_name(case, i):
          cmds, how = commands_of(real)
          arg = [shlex.split(c)[shlex.split(c).index("--module-name") + 1] for c in cmds
                 if b["outs"][0][0] in shlex.split(c)][:1]
          return True, "module %r reaches the plan as %r (%s: --module-name %r)" % (
              mod_name(case, i), b["vars"]["module"][0], how, arg[0] if arg else None)
      return False, ""
    if w["oracle"] == "imports-key":
      R = rt()
      builder = R.loader.ImportsMapBuilder(types.SimpleNamespace(open_function=open))
      rules, builds = parse_ninja(real["ninja"])
      for b in builds:
        items = builder._read_from_file(b["vars"]["imports"][0])
        keys = {out_key(case, i) for i in range(len(case["kinds"]))}
        for k, v in items:
          if k not in keys:
            return True, "imports_map_loader reads key %r value %r from %s" % (k, v, os.path.basename(b["vars"]["imports"][0]))
      return False, ""
    return True, "unknown oracle %r" % w["oracle"]
  finally:
    shutil.rmtree(wd, ignore_errors=True)


def witnesses(res):
  known, fixed = common.known_findings("C19")
  base = os.path.join(SCRATCH, "w%d-%d" % (os.getpid(), common.seed()))
  os.makedirs(base, exist_ok=True)
  replayed = []
  try:
    def safe(e):
      try:
        return replay_finding(e, base)
      except Exception as ex:  # e.g. a plan that is no longer valid ninja
        return True, "replay crashed: %r" % ex
    for e in known:
      still, detail = safe(e)
      replayed.append({"id": e["id"], "still_fails": still, "detail": detail})
      if still:
        res.known_lines.append("%s: %s" % (e["id"], detail))
    for e in fixed:
      still, detail = safe(e)
      replayed.append({"id": e["id"], "fixed": True, "still_fails": still, "detail": detail})
      if still:
        res.violation("fixed-" + e["id"], {"property": "C19", "kind": "fixed-witness-fails-again", "entry": e,
                                           "detail": detail})
  finally:
    shutil.rmtree(base, ignore_errors=True)
    try:
      os.rmdir(SCRATCH)
    except OSError:
      pass
  res.cov["witnesses_replayed"] = replayed


# ----------------------------------------------------------------------------------------------
# S
# ----------------------------------------------------------------------------------------------
def shrink_case(case, fails):
  """remove modules (renumbering), deps, requested files while the oracle still fails"""
  import copy

  def drop_module(c, x):
    c = copy.deepcopy(c)
    ren = {}
    for i in range(len(c["kinds"])):
      if i != x:
        ren[i] = len(ren)
    c["kinds"] = "".join(k for i, k in enumerate(c["kinds"]) if i != x)
    if c.get("names"):
      c["names"] = [nm for i, nm in enumerate(c["names"]) if i != x]
    c["groups"] = [[[ren[m] for m in g if m != x], [ren[m] for m in d if m != x]] for g, d in c["groups"]]
    c["groups"] = [g for g in c["groups"] if g[0]]
    c["req"] = [ren[r] for r in c["req"] if r in ren]
    return c
  cur = case
  progress = True
  import time
  t0 = time.time()
  while progress and time.time() - t0 < 20:
    progress = False
    for x in range(len(cur["kinds"])):
      cand = drop_module(cur, x)
      if cand["kinds"] and fails(cand):
        cur, progress = cand, True
        break
    if progress:
      continue
    for gi, (g, d) in enumerate(cur["groups"]):
      for x in d:
        cand = copy.deepcopy(cur)
        cand["groups"][gi][1] = [y for y in d if y != x]
        if fails(cand):
          cur, progress = cand, True
          break
      if progress:
        break
    if progress:
      continue
    for r in cur["req"]:
      cand = copy.deepcopy(cur)
      cand["req"] = [y for y in cur["req"] if y != r]
      if fails(cand):
        cur, progress = cand, True
        break
  if cur.get("names") and time.time() - t0 < 25:
    cand = copy.deepcopy(cur)
    cand["names"] = None
    if fails(cand):
      cur = cand
  if (cur.get("outdir") or "out") != "out":
    cand = copy.deepcopy(cur)
    cand["outdir"] = "out"
    if fails(cand):
      cur = cand
  return cur


def search(res, rng, disagreements, pfail):
  """S: the property's oracle on the real plan, around the disagreeing inputs."""
  base = os.path.join(SCRATCH, "x%d-%d" % (os.getpid(), common.seed()))
  os.makedirs(base, exist_ok=True)
  found = []
  counter = [0]

  def failures(case):
    counter[0] += 1
    wd = os.path.join(base, "c%d" % counter[0])
    try:
      real = run_real(case, wd)
      return oracle(case, real)
    except Exception as e:
      return ["oracle/real code crashed: %r" % e]
    finally:
      shutil.rmtree(wd, ignore_errors=True)
  try:
    cands = [d["case"] for d in disagreements if "case" in d]
    # strings that no longer survive escaping: put them in file / directory names
    for d in disagreements:
      if d.get("kind") in ("escape", "escape-roundtrip") and not any(c in d["string"] for c in "\n|\r\0/"):
        s = d["string"] or "x"
        cands.append({"kinds": "ll", "groups": [[[0], []], [[1], [0]]], "req": [1],
                      "names": [s + "q0", s + "q1"], "outdir": "out", "mode": "direct"})
        cands.append({"kinds": "ll", "groups": [[[0], []], [[1], [0]]], "req": [1],
                      "names": None, "outdir": "o" + s.replace("/", "") + "d", "mode": "direct"})
    cands = [sanitised(c) for c in cands]
    cands.sort(key=lambda c: len(c["kinds"]))
    # neighbourhood: all small structures + seeded random, plain and adversarial names outside the
    # characterised regions
    for n in (1, 2):
      cands.extend(exhaustive_cases(n))
    ex3 = list(exhaustive_cases(3))
    cands.extend(rng.sample(ex3, 1200))
    for _ in range(300):
      n = rng.randrange(2, 9)
      cands.append({"kinds": random_kinds(rng, n), "groups": random_structure(rng, n),
                    "req": [i for i in range(n) if rng.random() < 0.4], "names": None, "outdir": "out",
                    "mode": "direct"})
    for _ in range(300):
      c = sanitised(adversarial_case(rng))
      cands.append(c)
    import time
    t0 = time.time()
    for c in cands:
      if time.time() - t0 > 150 or len(found) >= 3:
        break
      f = failures(c)
      if f:
        small = shrink_case(c, lambda x: bool(failures(x)))
        ff = failures(small)
        if any(small == x["case"] for x in found):
          continue
        found.append({"case": small, "fails": ff[:4],
                      "how": "harness.c19.run_real(case) then oracle(case, real): parses the real build.ninja/*.imports"})
    res.cov["search_candidates"] = counter[0]
  finally:
    shutil.rmtree(base, ignore_errors=True)
    try:
      os.rmdir(SCRATCH)
    except OSError:
      pass
  return found


def main():
  os.makedirs(SCRATCH, exist_ok=True)
  return common.run_check(
      "C19", REQUIRED, correspond, witnesses, search,
      trusted=[
          "hand-written model of pytype_runner.py (get_module_action, yield_sorted_modules, get_imports_map, "
          "setup_build, write_build_statement, escape_ninja_path) and of imports_map_loader._read_from_file; tied by correspondence",
          "ninja is modelled as: any permutation of the build statements in which each statement follows the "
          "producers of its declared deps (Sched); its lexer by Plan/Ninja.lean (manual, 'Lexical syntax'), "
          "cross-checked against the real ninja binary on sampled plans",
          "module names, full paths and output paths are injective functions of the module (naming hypothesis; "
          "_module_to_output_path is exercised through names of the form a.b <-> a/b.py)",
          "deps_from_import_graph is modelled by its contract only (groups in dependency order, depsClosed); "
          "importlab itself is not modelled",
      ],
      assumptions=[
          "a step's analysis reads only the stubs listed as values of its .imports file",
          "default.pyi is written at plan time, before ninja starts",
      ])


if __name__ == "__main__":
  sys.exit(main())
