"""Confirms a breaker's change independently and stores it under /verif/seeded/<id>/.

usage: python -m harness.confirm_seeded <src_dir with patch.diff demo.py meta.json> <seeded id>
Steps (all in a scratch worktree of /repo HEAD, removed afterwards): demo on the clean tree must exit 0; the patch
must apply; demo on the patched tree must exit non-zero; the baseline suite's stable passes must all still pass.
"""
import json
import os
import shutil
import subprocess
import sys
import xml.etree.ElementTree as ET

VERIF = os.path.dirname(os.path.dirname(os.path.abspath(__file__)))


def sh(cmd, **kw):
  return subprocess.run(cmd, stdout=subprocess.PIPE, stderr=subprocess.STDOUT, text=True, **kw)


def main():
  src, sid = sys.argv[1], sys.argv[2]
  wt = "/tmp/seedwt/confirm_%s" % sid
  sh(["git", "-C", "/repo", "worktree", "remove", "--force", wt])
  os.makedirs("/tmp/seedwt", exist_ok=True)
  r = sh(["git", "-C", "/repo", "worktree", "add", "--detach", wt, "HEAD"])
  assert r.returncode == 0, r.stdout
  ran = []
  try:
    demo = os.path.join(src, "demo.py")
    r0 = sh(["/venv/bin/python", demo, wt], timeout=1800)
    ran.append("demo on clean tree: exit %d" % r0.returncode)
    ra = sh(["git", "-C", wt, "apply", os.path.join(src, "patch.diff")])
    ran.append("git apply: exit %d" % ra.returncode)
    r1 = sh(["/venv/bin/python", demo, wt], timeout=1800)
    ran.append("demo on changed tree: exit %d; last line: %s" % (r1.returncode, (r1.stdout.strip().splitlines() or [""])[-1][:300]))
    junit = "/tmp/seedwt/confirm_%s.xml" % sid
    rt = sh(["/venv/bin/python", "-m", "pytest", "-q", "-p", "no:cacheprovider", "--timeout=900",
             "--continue-on-collection-errors", "--junitxml=" + junit], cwd=wt, timeout=3600)
    want = set(json.load(open("/root/.vp/BASELINE.json"))["stable_pass"])
    got = set()
    for tc in ET.parse(junit).getroot().iter("testcase"):
      if not any(c.tag in ("failure", "error", "skipped") for c in tc):
        got.add(tc.get("classname") + "::" + tc.get("name"))
    os.unlink(junit)
    missing = sorted(want - got)
    ran.append("baseline suite on changed tree: %d/%d stable passes still pass" % (len(want) - len(missing), len(want)))
    ok = r0.returncode == 0 and ra.returncode == 0 and r1.returncode != 0 and not missing
    print("\n".join(ran))
    print("CONFIRMED" if ok else "REJECTED")
    if ok:
      dst = os.path.join(VERIF, "seeded", sid)
      os.makedirs(dst, exist_ok=True)
      shutil.copy(os.path.join(src, "patch.diff"), dst)
      shutil.copy(demo, dst)
      meta = json.load(open(os.path.join(src, "meta.json")))
      meta["confirmed_by_coordinator"] = ran
      json.dump(meta, open(os.path.join(dst, "meta.json"), "w"), indent=1)
    return 0 if ok else 1
  finally:
    sh(["git", "-C", "/repo", "worktree", "remove", "--force", wt])


if __name__ == "__main__":
  sys.exit(main())
